#!/bin/sh
# Build the framework offline from files on disk: constants from /repo, then the theorems and the
# driver of every property claimed in MANIFEST.json.  A target that fails to build is reported here
# and again (as a broken obligation) by that property's own check; it does not stop the others.
cd "$(dirname "$0")" || exit 1
export PYTHONHASHSEED=0 PYTHONDONTWRITEBYTECODE=1
mkdir -p .work evidence/replays
/venv/bin/python harness/extract.py || echo "setup: extractor reported a problem (checks will report it per property)"
/venv/bin/python harness/gen_lake.py >/dev/null || exit 1
IDS=$(/venv/bin/python -c "import json;print(' '.join(c['property_id'] for c in json.load(open('MANIFEST.json'))['checks']))")
cd lean || exit 1
TARGETS=""
for id in $IDS; do
  lc=$(echo "$id" | tr 'A-Z' 'a-z')
  TARGETS="$TARGETS Tahoe.Props.$id"
  [ -f "Drv/$id.lean" ] && TARGETS="$TARGETS drv_$lc"   # a property without its own driver reuses another one's
done
if lake build $TARGETS; then
  echo "setup ok: built$TARGETS"
  exit 0
fi
echo "setup: combined build failed; building per property"
fail=""
for id in $IDS; do
  lc=$(echo "$id" | tr 'A-Z' 'a-z')
  t="Tahoe.Props.$id"; [ -f "Drv/$id.lean" ] && t="$t drv_$lc"
  lake build $t >/dev/null 2>&1 || fail="$fail $id"
done
echo "setup done; properties whose Lean targets do not build:${fail:- none}"
exit 0
