#!/bin/sh
# Build the framework offline from files on disk: constants from /repo, all Lean theorems, all drivers.
set -e
cd "$(dirname "$0")"
export PYTHONHASHSEED=0 PYTHONDONTWRITEBYTECODE=1
mkdir -p .work evidence/replays
/venv/bin/python harness/extract.py
/venv/bin/python harness/gen_lake.py
cd lean
DRVS=$(ls Drv/*.lean | sed 's#Drv/\(.*\)\.lean#drv_\1#' | tr 'A-Z' 'a-z')
lake build Tahoe $DRVS
echo "setup ok"
