"""Minimal stand-in for collections_extended.RangeMap (the only name tahoe-lafs uses:
storage/immutable.py BucketWriter._already_written, storage/http_client.py).
Used ONLY inside /verif harness processes; named in the trusted base of the storage checks.

Semantics implemented (those of collections-extended 2.x that the callers rely on):
  set(value, start, stop): map [start, stop) to value, overriding; ValueError if stop <= start;
      equal-valued neighbours are merged.
  delete(start, stop): KeyError if any part of [start, stop) is unmapped.
  ranges(start=None, stop=None): MappedRange(start, stop, value) list clipped to the window.
  empty(start, stop): unmap without error.  get/__contains__/__getitem__ on points.
"""


class MappedRange:
    __slots__ = ("start", "stop", "value")

    def __init__(self, start, stop, value):
        self.start, self.stop, self.value = start, stop, value

    def __iter__(self):
        yield self.start
        yield self.stop
        yield self.value

    def __eq__(self, other):
        return tuple(self) == tuple(other)

    def __repr__(self):
        return "MappedRange(%r, %r, %r)" % (self.start, self.stop, self.value)


class RangeMap:
    def __init__(self, iterable=None, default_value=None):
        self._r = []  # sorted, disjoint [start, stop, value]
        if iterable:
            for (start, stop, value) in iterable:
                self.set(value, start, stop)

    def _normalize(self):
        self._r.sort(key=lambda t: t[0])
        out = []
        for s, e, v in self._r:
            if out and out[-1][1] == s and out[-1][2] == v:
                out[-1][1] = e
            else:
                out.append([s, e, v])
        self._r = out

    def _cut(self, start, stop):
        out = []
        for s, e, v in self._r:
            if e <= start or s >= stop:
                out.append([s, e, v])
                continue
            if s < start:
                out.append([s, start, v])
            if e > stop:
                out.append([stop, e, v])
        self._r = out

    def set(self, value, start=None, stop=None):
        if start is None or stop is None:
            raise NotImplementedError("shim: unbounded ranges unsupported")
        if stop <= start:
            raise ValueError("stop must be greater than start")
        self._cut(start, stop)
        self._r.append([start, stop, value])
        self._normalize()

    def empty(self, start, stop):
        self._cut(start, stop)
        self._normalize()

    def delete(self, start, stop):
        pos = start
        for s, e, v in self._r:
            if e <= pos:
                continue
            if s > pos:
                break
            pos = e
            if pos >= stop:
                break
        if pos < stop:
            raise KeyError((start, stop))
        self.empty(start, stop)

    def ranges(self, start=None, stop=None):
        res = []
        for s, e, v in self._r:
            cs = s if start is None else max(s, start)
            ce = e if stop is None else min(e, stop)
            if cs < ce:
                res.append(MappedRange(cs, ce, v))
        return res

    def get_range(self, start=None, stop=None):
        return RangeMap([(r.start, r.stop, r.value) for r in self.ranges(start, stop)])

    def get(self, key, restval=None):
        for s, e, v in self._r:
            if s <= key < e:
                return v
        return restval

    def __getitem__(self, key):
        if isinstance(key, slice):
            return self.get_range(key.start, key.stop)
        sentinel = object()
        v = self.get(key, sentinel)
        if v is sentinel:
            raise KeyError(key)
        return v

    def __contains__(self, key):
        sentinel = object()
        return self.get(key, sentinel) is not sentinel

    def __bool__(self):
        return bool(self._r)

    def __len__(self):
        return len(self._r)

    def __iter__(self):
        return iter(self.ranges())

    def __eq__(self, other):
        return isinstance(other, RangeMap) and self._r == other._r

    def __repr__(self):
        return "RangeMap(%r)" % ([tuple(t) for t in self._r],)
