"""Regenerate the auto-generated tables of DESIGN.md section 8 (between the AUTOGEN markers)."""
import glob
import json
import os
import re
import sys
sys.path.insert(0, os.path.dirname(os.path.abspath(__file__)))
import common


def props_rows():
    claimed = json.load(open(os.path.join(common.VERIF, "harness", "claimed.json")))
    rows = []
    for pid in sorted(claimed):
        mod = common.load_prop(pid)
        try:
            _, thms = common.theorems_of(mod.LEAN_PROPS)
        except OSError:
            thms = []
        names = [n.split(".")[-1] for n, _ in thms]
        partial = [n for n in names if "partial" in n]
        cex = [n for n in names if "counterexample" in n]
        ev = {}
        p = os.path.join(common.EVID, pid + ".json")
        if os.path.exists(p):
            ev = json.load(open(p))
        cov = ev.get("coverage", {})
        rows.append("| %s | %d | %s | %s | %s / %s | %s |" % (
            pid, len(names), ", ".join(partial) or "—", ", ".join(cex) or "—",
            cov.get("evaluations", "?"), cov.get("distinct_nontrivial", "?"), ev.get("wall_s", "?")))
    head = ("| property | theorems | `_partial` theorems | negation witnesses | quick cases / distinct non-trivial | quick wall s |\n"
            "|---|---|---|---|---|---|\n")
    return head + "\n".join(rows) + "\n"


def findings_rows():
    out = []
    kf = json.load(open(common.KNOWN))
    for f in kf.get("fixed", []):
        m = re.match(r"fixed: property=(\S+) (\S+) (.*)", f)
        out.append("| %s | fixed | `%s` | %s |" % (m.group(1), m.group(2), m.group(3)))
    for f in common.load_known():
        out.append("| %s | open finding | `%s` | %s |" % (f["property"], f["signature"], f["what"][:260].replace("|", "/")))
    return "| property | disposition | commit / signature | what failed |\n|---|---|---|---|\n" + "\n".join(sorted(out)) + "\n"


def seeded_rows():
    rows = []
    for d in sorted(glob.glob(os.path.join(common.VERIF, "seeded", "*"))):
        name = os.path.basename(d)
        if not os.path.isdir(d):
            continue
        meta = {}
        try:
            meta = json.load(open(os.path.join(d, "meta.json")))
        except Exception:
            pass
        res = open(os.path.join(d, "results.txt")).read() if os.path.exists(os.path.join(d, "results.txt")) else ""
        verdicts = re.findall(r"^(C\d+) (OK|FAIL|INFRA)", res, re.M)
        final = {}
        for pid, v in verdicts:
            final[pid] = v           # the last run of each check wins (after strengthening)
        first = {}
        for pid, v in verdicts:
            first.setdefault(pid, v)
        # the regression files are later runs of the current checks over every kept change: they supersede results.txt
        for rf in ("REGRESSION.txt", "REGRESSION-corpus-only.txt"):
            try:
                for line in open(os.path.join(common.VERIF, "seeded", rf)):
                    parts = line.split()
                    if len(parts) >= 2 and parts[0] == name:
                        for pid, v in re.findall(r"(C\d+) (OK|FAIL)", line):
                            if v == "FAIL" or rf == "REGRESSION.txt":
                                final[pid] = v
            except OSError:
                pass
        caught = [p for p, v in final.items() if v == "FAIL"]
        missed_first = [p for p, v in first.items() if v == "OK" and final.get(p) == "FAIL"]
        nf = "no-failing-input-found" in res.split("--- after")[-1]
        summary = str(meta.get("summary", ""))[:200].replace("|", "/").replace("\n", " ")
        needs = str(meta.get("needs_to_manifest", ""))[:160].replace("|", "/").replace("\n", " ")
        rows.append("| %s | %s | %s | %s | %s |" % (
            name, summary, needs, ", ".join(caught) + (" (with failing input)" if caught and not nf else "") if caught else "**missed**",
            ", ".join(missed_first) and ("first missed by %s; check strengthened" % ", ".join(missed_first)) or ""))
    return ("| seeded change | what it does | needs | caught by | note |\n|---|---|---|---|---|\n" + "\n".join(rows) + "\n")


def main():
    p = os.path.join(common.VERIF, "DESIGN.md")
    s = open(p).read()
    for tag, body in (("PROPS", props_rows()), ("FINDINGS", findings_rows()), ("SEEDED", seeded_rows())):
        a, b = "<!-- AUTOGEN:%s -->" % tag, "<!-- /AUTOGEN:%s -->" % tag
        if a in s:
            s = s[:s.index(a) + len(a)] + "\n" + body + s[s.index(b):]
    open(p, "w").write(s)


if __name__ == "__main__":
    main()
