#!/bin/sh
# harness/seed_regress.sh [parallelism] — run every kept seeded change (seeded/Cxx-y/patch.diff) against the
# check of its property (plus any other property named in seeded/<name>/also.txt) in scratch copies, and write
# seeded/REGRESSION.txt: one line per seed with the verdict of the current checks.
cd "$(dirname "$0")/.." || exit 2
P=${1:-6}
OUT=seeded/REGRESSION.txt
TMP=$(mktemp -d /tmp/seedreg.XXXXXX)
ls -d seeded/C??-? | sed 's|seeded/||' | xargs -P "$P" -I{} sh -c '
  n={}; p=${n%-*}; also=$(cat seeded/$n/also.txt 2>/dev/null)
  if ! git -C /repo apply --check $(pwd)/seeded/$n/patch.diff 2>/dev/null; then echo "$n does-not-apply" > '"$TMP"'/$n; exit 0; fi
  r=$(harness/mutcheck.sh seeded/$n/patch.diff $p $also 2>&1 | grep -E "^VIOLATION|^C[0-9]+ (OK|FAIL|INFRA)")
  if echo "$r" | grep -q "^VIOLATION.*no-failing-input-found"; then v=caught-without-failing-input
  elif echo "$r" | grep -q "^VIOLATION"; then v=caught
  elif echo "$r" | grep -q " OK "; then v=MISSED
  else v=infra; fi
  echo "$n $v $(echo "$r" | grep -E "^C[0-9]+ " | sed "s/ tier=.*violations=/ violations=/; s/ known=.*//" | tr "\n" ";")" > '"$TMP"'/$n
'
{ echo "# seed regression at /repo $(git -C /repo rev-parse --short HEAD), /verif $(git rev-parse --short HEAD), $(date -u +%FT%TZ)"; cat "$TMP"/C* | sort; } > $OUT
rm -rf "$TMP"
grep -c " caught" $OUT; grep -v " caught " $OUT | grep -v "^#"
