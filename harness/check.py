#!/venv/bin/python
"""./check <Cxx> [--thorough] [--replay file] — decide one property on /repo's current tree."""
import hashlib
import json
import os
import signal
import sys
import time
import traceback

sys.path.insert(0, os.path.dirname(os.path.abspath(__file__)))
import common
from common import Ctx, InfraError, VERIF, LEAN, REPO


def fingerprints(mod):
    res = {}
    for rel in getattr(mod, "SOURCES", []):
        p = os.path.join(REPO, rel)
        try:
            res[rel] = hashlib.sha256(open(p, "rb").read()).hexdigest()[:16]
        except OSError:
            res[rel] = "missing"
    return res


def stored_fingerprints():
    p = os.path.join(LEAN, "fingerprints.json")
    if os.path.exists(p):
        return json.load(open(p))
    return {}


def main(argv):
    if len(argv) < 2:
        print("usage: check <Cxx> [--thorough] [--replay file]")
        return 2
    pid = argv[1].upper()
    tier = "thorough" if ("--thorough" in argv or os.environ.get("VERIF_TIER") == "thorough") else "quick"
    seed = int(os.environ.get("VERIF_SEED", "0") or 0)
    replay = None
    if "--replay" in argv:
        replay = json.load(open(argv[argv.index("--replay") + 1]))
    common.ensure_dirs()
    common.setup_impl_path()
    t0 = time.time()
    mod = common.load_prop(pid)
    ctx = Ctx(pid, tier, seed, mod, replay)
    limit = int(os.environ.get("VERIF_TIME_LIMIT", "3300" if tier == "thorough" else "900"))

    def on_alarm(sig, frm):
        raise TimeoutError("time limit %ds reached" % limit)
    signal.signal(signal.SIGALRM, on_alarm)
    signal.alarm(limit)
    proof_problems = []   # (theorem-or-file, message)
    timings = {}
    tq = time.time()
    # 1. constants from the source
    try:
        import extract
        extract.run(getattr(mod, "GENERATED", []))
    except Exception as e:  # the source no longer yields the constants the model needs
        proof_problems.append(("Tahoe.Generated (extractor)", "%s: %s" % (type(e).__name__, e)))
    timings["extract_s"] = round(time.time() - tq, 2)
    tq = time.time()
    # 2. build theorems + driver
    props_module = mod.LEAN_PROPS
    drv = getattr(mod, "DRIVER", pid)
    props_path, thms = common.theorems_of(props_module)
    try:
        import gen_lake
        gen_lake.run()
        rc, out, build_s = common.lake_build([props_module, "drv_" + drv.lower()])
    except Exception as e:
        rc, out, build_s = 1, "lake build could not run: %r" % e, 0.0
    model_ok = True
    if rc != 0:
        bad = common.failing_theorems(out, props_path, thms)
        if not bad:
            bad = [(props_module, out[-400:])]
        proof_problems += bad
        # the driver may still be buildable even if a theorem is not
        rc2, out2, _ = common.lake_build(["drv_" + drv.lower()])
        model_ok = (rc2 == 0)
    timings["build_incl_lock_wait_s"] = round(time.time() - tq, 2)
    tq = time.time()
    # 3. audit
    axioms = {}
    grep_hits = common.grep_audit(common.import_closure([props_module, "Drv." + drv]))
    for h in grep_hits:
        proof_problems.append(("audit", "forbidden token: " + h))
    if rc == 0:
        arc, aout, axioms = common.print_axioms(props_module, [n for n, _ in thms])
        for n, ax in axioms.items():
            if ax is None:
                proof_problems.append((n, "#print axioms found no such theorem: " + aout[-200:]))
            elif not set(ax) <= common.ALLOWED_AXIOMS:
                proof_problems.append((n, "depends on axioms outside the allowed set: %s" % ax))
    if tier == "thorough" and rc == 0 and not os.environ.get("VERIF_SKIP_LEANCHECKER"):
        mods = [props_module]
        with common.Lock("lake.lock"):
            crc, cout = common.sh(["lake", "env", "leanchecker"] + mods, cwd=LEAN, timeout=3000)
        if crc != 0:
            proof_problems.append(("leanchecker", cout[-300:]))
        else:
            ctx.note("leanchecker re-checked %s" % mods)
    discharged = len(thms) - len({n for n, _ in proof_problems if n in [t for t, _ in thms]}) if rc == 0 else \
        max(0, len(thms) - max(1, len({n for n, _ in proof_problems})))
    # fingerprints: a changed source escalates the correspondence budget
    fp_now, fp_old = fingerprints(mod), stored_fingerprints().get(pid, {})
    changed = sorted(k for k in fp_now if fp_old.get(k) not in (None, fp_now[k]))
    if changed or proof_problems:
        ctx.escalated = True
    if not model_ok:
        ctx.model = common.NullDriver()
    timings["audit_s"] = round(time.time() - tq, 2)
    tq = time.time()
    # a changed implementation may try to allocate absurd amounts (e.g. a forged length field that
    # is no longer rejected): turn that into a Python MemoryError instead of an OOM kill of the check
    try:   # (set only now: the Lean toolchain itself reserves a huge address space)
        import resource
        lim = int(os.environ.get("VERIF_MEM_LIMIT_GB", "12")) << 30
        resource.setrlimit(resource.RLIMIT_AS, (lim, lim))
    except Exception:
        pass

    # 4. correspondence + monitor
    infra = None
    try:
        if replay is not None and hasattr(mod, "replay"):
            mod.replay(ctx, replay)
        else:
            mod.run(ctx)
    except TimeoutError as e:
        infra = "timeout: %s" % e
    except InfraError as e:
        infra = "infrastructure: %s" % e
    except Exception as e:
        # the harness itself crashed on the implementation (e.g. an API it drives was changed)
        ctx.disagree("harness exception (implementation no longer drivable as modelled)",
                     None, traceback.format_exc()[-1500:], None)
    signal.alarm(0)
    timings["run_s"] = round(time.time() - tq, 2)
    wall = time.time() - t0
    # 5. verdict
    lines = []
    exit_code = 0
    for h in ctx.known_hits:
        lines.append("KNOWN-FINDING: property=%s %s" % (pid, h["what"]))
    for k in ctx.known:
        if k.get("signature") not in [h["signature"] for h in ctx.known_hits]:
            lines.append("NOTE: known finding '%s' was not reproduced in this run" % k.get("signature"))
    if ctx.violations:
        v = ctx.violations[0]
        path = common.write_replay(pid, {"property": pid, "kind": "implementation-violates-property",
                                         "seed": seed, "tier": tier, "what": v["what"], "case": v["case"],
                                         "signature": v["signature"], "detail": v["detail"],
                                         "more": ctx.violations[1:10],
                                         "broken_obligations": proof_problems[:10],
                                         "disagreements": ctx.disagreements[:5]})
        lines.append("VIOLATION property=%s replay=%s" % (pid, path))
        exit_code = 1
    elif proof_problems or ctx.disagreements:
        path = common.write_replay(pid, {"property": pid, "kind": "no-longer-shown-to-hold",
                                         "seed": seed, "tier": tier,
                                         "broken_obligations": [{"theorem_or_file": a, "message": b} for a, b in proof_problems[:20]],
                                         "correspondence_disagreements": ctx.disagreements[:20],
                                         "monitor_cases_run": ctx.evaluations,
                                         "note": "the property monitor found no input on which the implementation breaks the property"})
        lines.append("VIOLATION property=%s replay=%s no-failing-input-found" % (pid, path))
        exit_code = 1
    if infra and exit_code == 0:
        exit_code = 2
    cov = {
        "obligations": max(1, len(thms)),
        "discharged": max(0, discharged) if len(thms) else 0,
        "checker_cmd": "cd lean && lake build %s && lake env lean <#print axioms of each theorem>%s" % (
            props_module, " && lake env leanchecker %s" % props_module if tier == "thorough" else ""),
        "trusted_base": common.GLOBAL_TRUSTED + list(getattr(mod, "TRUSTED", [])),
        "theorems": [{"name": n, "axioms": axioms.get(n)} for n, _ in thms],
        "evaluations": ctx.evaluations,
        "distinct_nontrivial": len(ctx.nontrivial),
        "rule": getattr(mod, "RULE", ""),
        "samples": ctx.samples[:8] or ["(no cases run)"],
        "distribution": dict(sorted(ctx.dist.items())),
        "model_lines_run": ctx.model.lines_sent if ctx.model else 0,
        "correspondence_disagreements": len(ctx.disagreements),
        "traces_validated_against_impl": ctx.evaluations,
        "sources_fingerprint_changed": changed,
        "broken_obligations": [a for a, _ in proof_problems],
        "known_findings_reproduced": [h["signature"] for h in ctx.known_hits],
        "notes": ctx.notes,
        "lake_build_s": round(build_s, 2),
        "timings": timings,
        "exhaustive": bool(getattr(ctx, "exhaustive", False)),
    }
    if infra:
        cov["infrastructure_problem"] = infra
    ev = {"property_id": pid, "tier": tier, "seed": seed, "level": "proof", "coverage": cov,
          "assumptions": list(getattr(mod, "ASSUMPTIONS", [])), "wall_s": round(wall, 2),
          "violations": len(ctx.violations) + (1 if (exit_code == 1 and not ctx.violations) else 0)}
    with open(os.path.join(common.EVID, pid + ".json"), "w") as f:
        json.dump(ev, f, indent=1, sort_keys=True, default=repr)
        f.write("\n")
    for l in lines:
        print(l)
    print("%s %s tier=%s seed=%d theorems=%d/%d cases=%d distinct=%d disagreements=%d violations=%d known=%d wall=%.1fs%s" % (
        pid, "OK" if exit_code == 0 else ("FAIL" if exit_code == 1 else "INFRA"), tier, seed, cov["discharged"], len(thms),
        ctx.evaluations, len(ctx.nontrivial), len(ctx.disagreements), len(ctx.violations), len(ctx.known_hits), wall,
        " [%s]" % infra if infra else ""))
    sys.stdout.flush()
    return exit_code


if __name__ == "__main__":
    if len(sys.argv) >= 2 and sys.argv[1] == "--update-fingerprints":
        common.setup_impl_path()
        res = {}
        for f in sorted(os.listdir(os.path.join(VERIF, "harness", "props"))):
            if f.startswith("c") and f.endswith(".py"):
                pid = f[:-3].upper()
                res[pid] = fingerprints(common.load_prop(pid))
        json.dump(res, open(os.path.join(LEAN, "fingerprints.json"), "w"), indent=1, sort_keys=True)
        print("fingerprints for", len(res), "properties")
        sys.exit(0)
    code = main(sys.argv)
    sys.stdout.flush()
    os._exit(code)
