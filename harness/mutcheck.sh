#!/bin/sh
# harness/mutcheck.sh <patch.diff> <Cxx> [Cyy …]
# Run checks against a scratch worktree of /repo with a seeded change applied, from a scratch copy of
# /verif (so that neither /repo nor the shared lake build is disturbed).  Prints each check's verdict.
set -u
PATCH=$(readlink -f "$1"); shift
N=$$
WT=/tmp/mutwt-$N
VC=/tmp/verif-mut-$N
git -C /repo worktree add --detach -q "$WT" HEAD || exit 2
if ! git -C "$WT" apply "$PATCH"; then echo "patch does not apply"; git -C /repo worktree remove --force "$WT"; exit 2; fi
mkdir -p "$VC"
rsync -a --exclude .git --exclude .work --exclude 'evidence/*' /verif/ "$VC"/
mkdir -p "$VC/.work" "$VC/evidence"
rc=0
for id in "$@"; do
  ( cd "$VC" && VERIF_REPO="$WT" VERIF_SEED=${VERIF_SEED:-0} timeout 1500 ./check "$id" 2>&1 | grep -E "VIOLATION|KNOWN-FINDING|^C[0-9]+ (OK|FAIL|INFRA)" )
  [ -n "${KEEP:-}" ] && ls "$VC"/evidence/replays 2>/dev/null | head -3
done
if [ -n "${KEEP:-}" ]; then echo "kept $VC $WT"; else rm -rf "$VC"; git -C /repo worktree remove --force "$WT"; fi
