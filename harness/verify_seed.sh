#!/bin/sh
# harness/verify_seed.sh <name e.g. C25-a> <Cxx> [Cyy…]
# Confirm a seeded change from /tmp/seed-out/<name>: applies at /repo HEAD, baseline suite still passes,
# demo fails with the change and passes without; then run the listed checks against it (mutcheck.sh).
# On confirmation the change is kept under /verif/seeded/<name>/ with results.txt.
NAME=$1; shift
SRC=/tmp/seed-out/$NAME
[ -f "$SRC/patch.diff" ] || { echo "no patch"; exit 2; }
WT=/tmp/vs-$NAME-$$
git -C /repo worktree add --detach -q "$WT" HEAD || exit 2
if ! git -C "$WT" apply "$SRC/patch.diff"; then echo "PATCH DOES NOT APPLY"; git -C /repo worktree remove --force "$WT"; exit 1; fi
BASE=$(cd "$WT" && /venv/bin/python -m pytest -q -p no:cacheprovider --timeout=900 --continue-on-collection-errors 2>&1 | tail -1)
echo "baseline with change: $BASE"
timeout 300 /venv/bin/python "$SRC/demo.py" "$WT" > /tmp/vs-$$-mut.out 2>&1; RC_MUT=$?
timeout 300 /venv/bin/python "$SRC/demo.py" /repo > /tmp/vs-$$-clean.out 2>&1; RC_CLEAN=$?
echo "demo: changed tree rc=$RC_MUT, unchanged tree rc=$RC_CLEAN"
git -C /repo worktree remove --force "$WT"
OK=1
case "$BASE" in *"151 passed"*) ;; *) OK=0;; esac
[ "$RC_MUT" = "1" ] || OK=0
[ "$RC_CLEAN" = "0" ] || OK=0
if [ $OK = 0 ]; then echo "NOT CONFIRMED"; tail -5 /tmp/vs-$$-mut.out; tail -5 /tmp/vs-$$-clean.out; rm -f /tmp/vs-$$-*.out; exit 1; fi
echo "CONFIRMED"
mkdir -p /verif/seeded/$NAME
cp "$SRC/patch.diff" "$SRC/demo.py" "$SRC/meta.json" /verif/seeded/$NAME/ 2>/dev/null
{
  echo "verified $(date -u +%FT%TZ) at /repo $(git -C /repo rev-parse --short HEAD)"
  echo "baseline with change: $BASE"
  echo "demo rc: changed=$RC_MUT unchanged=$RC_CLEAN"
  echo "--- demo output on changed tree (tail)"; tail -5 /tmp/vs-$$-mut.out
  echo "--- checks against the changed tree"
} > /verif/seeded/$NAME/results.txt
rm -f /tmp/vs-$$-*.out
if [ $# -gt 0 ]; then
  /verif/harness/mutcheck.sh "$SRC/patch.diff" "$@" 2>&1 | grep -v "rsync\|vanished" | tee -a /verif/seeded/$NAME/results.txt
fi
