"""Shared harness code of C23 / C24 / C25 (mutable share containers, read-test-write, leases).

A *history* is a JSON-serialisable dict {"nodeid": hex, "ops": [op, ...]} executed on ONE fresh
storage index of a real in-process StorageServer and, as one line, on the Lean driver
(protocol: lean/Tahoe/Storage/DrvCommon.lean).  Ops:

  ["rtw", now, avail, we, renew, cancel, renew_leases, tw, rv]
        tw = [[sharenum, [[off,len,specimen]..], [[off,data]..], new_length|None], ..] (dict order)
        rv = [[off,len]..]
  ["readv", [sharenum..], rv]     ["leases"]     ["dump"]
  ["put", sharenum, rle-bytes]    (fabricated container file: v1 containers, immutable shares)
  ["order"]                       (tell the model the directory listing order of the bucket)
  ["addlease", now, avail, renew, cancel]        ["renew", now, secret]
  ["alloc", now, avail, sharenum, size, renew, cancel]   allocate_buckets for ONE immutable share (BucketWriter kept open)
  ["bwrite", sharenum, off, data]   BucketWriter.write on the open upload     ["bclose", sharenum]   BucketWriter.close
  ["idump"]                         raw bytes of the incoming files of the open uploads
  ["cancel", sharenum, mode, cancel_secret]      sf.cancel_lease on one share file; mode "secret" passes the
                                                 cleartext secret, mode "crawler" passes lease.cancel_secret of the
                                                 matching lease read through get_leases (as LeaseCheckingCrawler does)
All byte strings are hex ('-' = empty).
"""
import os
import re
import shutil
import struct
import tempfile

import common
from common import hx, unhx

MAX = 69105 * 1000 * 1000 * 1000 * 1000
NODEID = b"\x11" * 20


# ----------------------------------------------------------------------------- encodings

def rle(b):
    b = bytes(b)
    if not b:
        return "-"
    out = []
    for chunk in re.split(b"(\x00{16,})", b):
        if not chunk:
            continue
        if len(chunk) >= 16 and chunk.count(0) == len(chunk):
            out.append("z%d" % len(chunk))
        else:
            out.append(chunk.hex())
    return "*".join(out)


def unrle(s):
    if s == "-":
        return b""
    out = []
    for c in s.split("*"):
        out.append(b"\x00" * int(c[1:]) if c.startswith("z") else bytes.fromhex(c))
    return b"".join(out)


def blake(secret):
    from nacl.hash import blake2b
    from nacl.encoding import RawEncoder
    return blake2b(secret, digest_size=32, encoder=RawEncoder)


def enc_list(items):
    return ",".join(items) if items else "_"


def enc_tw(tw):
    ents = []
    for (n, testv, datav, nl) in tw:
        ents.append("%d~%s~%s~%s" % (
            n,
            enc_list(["%d.%d.%s" % (o, l, s) for (o, l, s) in testv]),
            enc_list(["%d.%s" % (o, d) for (o, d) in datav]),
            "n" if nl is None else "%d" % nl))
    return "/".join(ents) if ents else "_"


def enc_rv(rv):
    return enc_list(["%d.%d" % (o, l) for (o, l) in rv])


def secrets_of(hist):
    s = set()
    for op in hist["ops"]:
        if op[0] == "rtw":
            s.add(op[4]); s.add(op[5])
        elif op[0] == "addlease":
            s.add(op[3]); s.add(op[4])
        elif op[0] == "alloc":
            s.add(op[5]); s.add(op[6])
        elif op[0] == "renew":
            s.add(op[2])
        elif op[0] == "cancel":
            s.add(op[3])
            s.add(hx(b"\x00" * 32))       # the blank lease's secrets are hashed too in a v2 container
    return sorted(s)


def fmt_reads(d):
    if not d:
        return "_"
    return ",".join("%d=%s" % (n, ".".join(hx(x) for x in d[n])) for n in sorted(d))


# ----------------------------------------------------------------------------- the real server

class Impl:
    """One real StorageServer in a scratch directory; one fresh storage index per history."""

    def __init__(self):
        common.setup_impl_path()
        common.ensure_dirs()
        from twisted.internet import task
        from allmydata.storage.server import StorageServer
        self.task = task
        self.dir = tempfile.mkdtemp(prefix="storage-", dir=common.WORK)
        self.ss = StorageServer(self.dir, NODEID, clock=task.Clock())
        self.avail = 10 ** 12
        self.ss.get_available_space = lambda: self.avail
        self.counter = 0

    def close(self):
        self.abort_writers()
        shutil.rmtree(self.dir, ignore_errors=True)

    def new_si(self):
        self.counter += 1
        self.ss._clock = self.task.Clock()
        self.si = struct.pack(">QQ", 0xABCD, self.counter)
        from allmydata.storage.common import storage_index_to_dir
        self.bucketdir = os.path.join(self.ss.sharedir, storage_index_to_dir(self.si))
        self.abort_writers()
        return self.si

    def abort_writers(self):
        for bw in getattr(self, "writers", {}).values():
            try:
                if not bw.closed:
                    bw.abort()
            except Exception:  # noqa
                pass
        self.writers = {}

    def raw_incoming(self):
        out = {}
        for n, bw in self.writers.items():
            if not bw.closed and os.path.exists(bw.incominghome):
                out[n] = open(bw.incominghome, "rb").read()
        return out

    def set_now(self, now):
        c = self.ss._clock
        if now > c.seconds():
            c.advance(now - c.seconds())

    def share_files(self):
        """{sharenum: path} of the current bucket"""
        try:
            names = os.listdir(self.bucketdir)
        except OSError:
            return {}
        return {int(n): os.path.join(self.bucketdir, n) for n in names if n.isdigit()}

    def listing_order(self):
        try:
            return [int(n) for n in os.listdir(self.bucketdir) if n.isdigit()]
        except OSError:
            return []

    def raw(self):
        return {n: open(p, "rb").read() for n, p in self.share_files().items()}

    def put(self, n, data):
        os.makedirs(self.bucketdir, exist_ok=True)
        with open(os.path.join(self.bucketdir, "%d" % n), "wb") as f:
            f.write(data)

    def leases(self):
        """{sharenum: [(owner, expire, renew(stored), cancel(stored), nodeid)]}"""
        from allmydata.storage.mutable import MutableShareFile
        from allmydata.storage.immutable import ShareFile
        from allmydata.storage.lease import HashedLeaseInfo
        res = {}
        for n, p in self.share_files().items():
            with open(p, "rb") as f:
                header = f.read(32)
            if MutableShareFile.is_valid_header(header):
                ls = list(MutableShareFile(p).get_leases())
            elif len(header) >= 4 and ShareFile.is_valid_header(header):
                ls = list(ShareFile(p).get_leases())
            else:
                ls = []
            out = []
            for l in ls:
                li = l._lease_info if isinstance(l, HashedLeaseInfo) else l
                out.append((li.owner_num, li.get_expiration_time(), li.renew_secret, li.cancel_secret, li.nodeid or b""))
            res[n] = out
        return res

    def open_share(self, n):
        from allmydata.storage.mutable import MutableShareFile
        from allmydata.storage.immutable import ShareFile
        p = self.share_files().get(n)
        if p is None:
            return None
        with open(p, "rb") as f:
            header = f.read(32)
        if MutableShareFile.is_valid_header(header):
            return MutableShareFile(p, self.ss)
        return ShareFile(p)

    def cancel(self, n, mode, secret, info):
        sf = self.open_share(n)
        if sf is None:
            return "E:NoShare"
        arg = secret
        if mode == "crawler":
            try:
                for l in sf.get_leases():
                    if l.is_cancel_secret(secret):
                        arg = l.cancel_secret          # cleartext (v1) or _HashedCancelSecret (v2)
                        break
            except Exception:  # noqa
                pass
        try:
            return "ok:%d" % sf.cancel_lease(arg)
        except Exception as e:  # noqa
            info["exc"] = e
            return errname(e)

    def rtw(self, op):
        (_, now, avail, we, renew, cancel, rl, tw, rv) = op
        self.set_now(now)
        self.avail = avail
        twd = {}
        for (n, testv, datav, nl) in tw:
            twd[n] = ([(o, l, b"eq", unhx(s)) for (o, l, s) in testv],
                      [(o, unhx(d)) for (o, d) in datav], nl)
        return self.ss.slot_testv_and_readv_and_writev(
            self.si, (unhx(we), unhx(renew), unhx(cancel)), twd, [tuple(x) for x in rv], renew_leases=bool(rl))


ERRNAMES = {"BadWriteEnablerError": "BadWriteEnabler", "DataTooLargeError": "DataTooLarge", "NoSpace": "NoSpace",
            "IndexError": "IndexError", "UnknownMutableContainerVersionError": "UnknownVersion",
            "UnknownImmutableContainerVersionError": "UnknownVersion", "AssertionError": "AssertionError"}


def errname(e):
    return "E:" + ERRNAMES.get(type(e).__name__, type(e).__name__)


def fmt_leases(ld):
    if not ld:
        return "_"
    return "/".join("%d=[%s]" % (n, ",".join("%d.%d.%s.%s.%s" % (o, int(e), hx(r), hx(c), hx(nid))
                                              for (o, e, r, c, nid) in ld[n])) for n in sorted(ld))


def fmt_dump(raw):
    if not raw:
        return "_"
    return "/".join("%d=%s" % (n, rle(raw[n])) for n in sorted(raw))


def run_history(impl, hist, hooks=None, precheck=True):
    """Execute `hist` on the real server.  Returns (output fields, driver line).
    `hooks(impl, op, phase, info)` is the property monitor: called with phase 'before' and 'after'."""
    impl.new_si()
    outs = []
    toks = []
    for op in hist["ops"]:
        kind = op[0]
        info = {}
        if hooks:
            hooks(impl, op, "before", info)
        if kind == "rtw":
            toks.append("rtw|%d|%d|%s|%s|%s|%d|%s|%s" % (op[1], op[2], op[3], op[4], op[5], 1 if op[6] else 0,
                                                        enc_tw(op[7]), enc_rv(op[8])))
            try:
                good, reads = impl.rtw(op)
                info["result"] = (good, reads)
                outs.append(("T:" if good else "F:") + fmt_reads(reads))
            except Exception as e:  # noqa
                info["exc"] = e
                outs.append(errname(e))
        elif kind == "readv":
            toks.append("readv|%s|%s" % (enc_list(["%d" % n for n in op[1]]), enc_rv(op[2])))
            r = impl.ss.slot_readv(impl.si, list(op[1]), [tuple(x) for x in op[2]])
            info["result"] = r
            outs.append(fmt_reads(r))
        elif kind == "leases":
            toks.append("leases")
            outs.append(fmt_leases(impl.leases()))
        elif kind == "dump":
            toks.append("dump")
            outs.append(fmt_dump(impl.raw()))
        elif kind == "put":
            toks.append("put|%d|%s" % (op[1], op[2]))
            impl.put(op[1], unrle(op[2]))
            outs.append("ok")
        elif kind == "order":
            toks.append("order|%s" % enc_list(["%d" % n for n in impl.listing_order()]))
            outs.append("ok")
        elif kind == "addlease":
            toks.append("addlease|%d|%d|%s|%s" % (op[1], op[2], op[3], op[4]))
            impl.set_now(op[1])
            impl.avail = op[2]
            try:
                impl.ss.add_lease(impl.si, unhx(op[3]), unhx(op[4]))
                outs.append("ok")
            except Exception as e:  # noqa
                info["exc"] = e
                outs.append(errname(e))
        elif kind == "renew":
            toks.append("renew|%d|%s" % (op[1], op[2]))
            impl.set_now(op[1])
            try:
                impl.ss.renew_lease(impl.si, unhx(op[2]))
                outs.append("ok")
            except Exception as e:  # noqa
                info["exc"] = e
                outs.append(errname(e))
        elif kind == "alloc":
            toks.append("alloc|%d|%d|%d|%d|%s|%s" % (op[1], op[2], op[3], op[4], op[5], op[6]))
            impl.set_now(op[1])
            impl.avail = op[2]
            try:
                got, bws = impl.ss.allocate_buckets(impl.si, unhx(op[5]), unhx(op[6]), {op[3]}, op[4])
                for n, bw in bws.items():
                    impl.writers[n] = bw
                outs.append("ok:%d:%s" % (1 if bws else 0, enc_list(["%d" % n for n in sorted(got)])))
            except Exception as e:  # noqa
                info["exc"] = e
                outs.append(errname(e))
        elif kind == "bwrite":
            toks.append("bwrite|%d|%d|%s" % (op[1], op[2], op[3]))
            bw = impl.writers.get(op[1])
            if bw is None or bw.closed:
                outs.append("E:NoWriter")
            else:
                try:
                    bw.write(op[2], unhx(op[3]))
                    outs.append("ok")
                except Exception as e:  # noqa
                    info["exc"] = e
                    outs.append(errname(e))
        elif kind == "bclose":
            toks.append("bclose|%d" % op[1])
            bw = impl.writers.get(op[1])
            if bw is None or bw.closed:
                outs.append("E:NoWriter")
            else:
                bw.close()
                outs.append("ok")
        elif kind == "idump":
            toks.append("idump")
            outs.append(fmt_dump(impl.raw_incoming()))
        elif kind == "cancel":
            toks.append("cancel|%d|%s" % (op[1], op[3]))
            outs.append(impl.cancel(op[1], op[2], unhx(op[3]), info))
        else:
            raise ValueError("unknown op %r" % (op,))
        if hooks:
            hooks(impl, op, "after", info)
    secs = secrets_of(hist)
    table = ",".join("%s:%s" % (s, hx(blake(unhx(s)))) for s in secs) or "-"
    line = "hist P=%d N=%s H=%s %s" % (1 if precheck else 0, hist["nodeid"], table, " ".join(toks))
    return ";".join(outs), line


# ----------------------------------------------------------------------------- fabricated containers

def fabricate_mutable(version, nodeid, we, data, leases, extra_gap=0):
    """A mutable container file built by hand (harness side), schema `version` (1 = cleartext lease
    secrets, 2 = hashed).  `leases` = [(owner, expire, renew_secret, cancel_secret)] in slot order
    (owner 0 = empty slot); the first four go to the header slots, the rest to the extra area."""
    from allmydata.storage import mutable_schema
    schema = [s for s in mutable_schema.ALL_SCHEMAS if s.version == version][0]
    magic = schema._magic

    def rec(l):
        (o, e, r, c) = l
        if version == 2 and o != 0:
            r, c = blake(r), blake(c)
        return struct.pack(">LL32s32s20s", o, e, r, c, nodeid if o else b"")
    ext = 468 + len(data) + extra_gap
    hdr = struct.pack(">32s20s32sQQ", magic, nodeid, we, len(data), ext)
    slots = list(leases[:4]) + [(0, 0, b"", b"")] * (4 - len(leases[:4]))
    body = hdr + b"".join(rec(l) for l in slots) + data + b"\x00" * extra_gap
    extra = leases[4:]
    body += struct.pack(">L", len(extra)) + b"".join(rec(l) for l in extra)
    return body


def parse_leases(raw):
    """Live lease records of a container file, parsed from the documented layout (harness side, independent of
    get_leases): [(slot, owner, expire, stored_renew, stored_cancel)]; slots with owner 0 are empty."""
    out = []
    if raw[:14] == b"Tahoe mutable ":
        (ext,) = struct.unpack(">Q", raw[92:100])
        (nextra,) = struct.unpack(">L", raw[ext:ext + 4])
        offs = [100 + i * 92 for i in range(4)] + [ext + 4 + i * 92 for i in range(nextra)]
        for slot, o in enumerate(offs):
            (owner, exp, r, c, nid) = struct.unpack(">LL32s32s20s", raw[o:o + 92])
            if owner != 0:
                out.append((slot, owner, exp, r, c))
    else:
        (ver, _, n) = struct.unpack(">LLL", raw[:12])
        lo = len(raw) - n * 72
        for slot in range(n):
            (owner, r, c, exp) = struct.unpack(">L32s32sL", raw[lo + slot * 72: lo + slot * 72 + 72])
            out.append((slot, owner, exp, r, c))
    return out


def fabricate_immutable(version, data, leases):
    """An immutable share file (closed share: header, data, leases) built by hand."""
    def rec(l):
        (o, e, r, c) = l
        if version == 2:
            r, c = blake(r), blake(c)
        return struct.pack(">L32s32sL", o, r, c, e)
    return struct.pack(">LLL", version, min(2 ** 32 - 1, len(data)), len(leases)) + data + b"".join(rec(l) for l in leases)


# ----------------------------------------------------------------------------- generators

def rand_bytes(rng, n):
    return bytes(rng.randrange(1, 256) for _ in range(n))     # non-zero so that gaps are recognisable


def secret(rng, pool, fresh_p=0.3):
    if pool and rng.random() > fresh_p:
        return rng.choice(pool)
    s = hx(bytes(rng.randrange(256) for _ in range(32)))
    pool.append(s)
    return s


def rand_offset(rng, cur_len, far):
    r = rng.random()
    if r < 0.35:
        return rng.randrange(0, cur_len + 1)
    if r < 0.55:
        return cur_len
    if r < 0.8:
        return cur_len + rng.randrange(1, 40)
    if r < 0.95:
        return cur_len + rng.randrange(40, 2000)
    return cur_len + rng.randrange(2000, max(far, 2001))


def rand_datav(rng, cur_len, far, nmax=3):
    dv = []
    for _ in range(rng.randrange(0, nmax + 1)):
        o = rand_offset(rng, cur_len, far)
        n = rng.choice([0, 1, 1, 2, 3, 5, 8, 13, 40, 120]) if rng.random() < 0.9 else rng.randrange(200, 1500)
        dv.append([o, hx(rand_bytes(rng, n))])
        cur_len = max(cur_len, o + n)
    return dv, cur_len


def rand_testv(rng, cur, far, p_wrong=0.1):
    """one test vector (off, len, specimen) against current data `cur`.  Besides the exact clipped read (passes) and a
    wrong specimen, a good fraction has len(specimen) != len on purpose, aimed at data that BEGINS with the specimen:
    the specimen is a proper prefix of the bytes read (incl. the empty specimen = the publisher's must-not-exist
    guard) or the read is a proper prefix of the specimen — both must FAIL: the code reads `len` bytes (clipped at
    the end of the data) and compares them with the specimen for equality."""
    r = rng.random()
    if len(cur) >= 2 and r < 0.22:
        o = rng.randrange(0, len(cur) - 1)
        l = rng.randrange(2, min(len(cur) - o, 40) + 1) if len(cur) - o >= 2 else 1
        k = rng.choice([0, 0, 1, l - 1, rng.randrange(0, l)])
        return [o, l, hx(bytes(cur[o:o + min(k, l - 1)]))]           # specimen shorter than the bytes read
    if len(cur) >= 2 and r < 0.32:
        o = rng.randrange(0, len(cur) - 1)
        l = rng.randrange(0, min(len(cur) - o - 1, 20) + 1)
        extra = rng.randrange(1, min(len(cur) - o - l, 8) + 1)
        return [o, l, hx(bytes(cur[o:o + l + extra]))]               # specimen longer than len (continues with the data)
    o = rand_offset(rng, len(cur), far)
    l = rng.choice([0, 1, 3, 10, 100])
    spec = bytes(cur[o:o + l])
    if rng.random() < p_wrong:
        spec = spec + b"x"
    return [o, l, hx(spec)]


def rand_rv(rng, cur_len, far):
    rv = []
    for _ in range(rng.randrange(0, 4)):
        o = rand_offset(rng, cur_len, far)
        l = rng.choice([0, 1, 2, 5, 17, 100, 5000]) if rng.random() < 0.8 else rng.randrange(0, cur_len + 50)
        rv.append([o, l])
    return rv
