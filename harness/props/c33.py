"""C33 — grid-manager certificates grant permission only when valid (grid_manager.py)."""
import io
import json
from datetime import datetime, timedelta, timezone

ID = "C33"
LEAN_PROPS = "Tahoe.Props.C33"
DRIVER = "C33"
GENERATED = []
SOURCES = ["src/allmydata/grid_manager.py", "src/allmydata/crypto/ed25519.py"]
DESIGN_REF = "DESIGN.md §2 C33"
TECHNIQUE = ("Lean 4 theorems over an executable model of create_grid_manager_verifier / validate_grid_manager_certificate "
             "with symbolic Ed25519; differential correspondence on real Ed25519 keys and certificates, signatures mapped to "
             "symbolic (key, message) ids; independent monitor of the documented predicate")
LEVEL_TEXT = ("permitted_iff / granted_only_if / tampered_or_foreign_never_grants / no_keys_all_permitted proved in Lean for all key "
              "lists, certificate lists and times; the model is tied to grid_manager.py by comparing the verifier's answers, "
              "bad_cert calls and the internal valid_certs count on seeded certificate mixes evaluated at seeded times "
              "(including the instant of expiry and one microsecond around it).")
LEVEL_NOTE = ("Lean kernel + standard axioms; Ed25519 unforgeability is an explicit hypothesis (symbolic instance given); "
              "json/datetime parsing abstracted as a classifier computed by the harness.")
RULE = ("seeded (key set, certificate list, server, times) tuples against allmydata.grid_manager.create_grid_manager_verifier; "
        "a case is one call of the returned predicate; distinct = distinct (symbolic verifier line, time); non-trivial = at "
        "least one key configured and at least one certificate present")
TRUSTED = ["lean/Tahoe/GridManager/Model.lean is a hand transcription of create_grid_manager_verifier / validate_grid_manager_certificate",
           "harness classify(): json.loads / datetime.fromisoformat / str.encode('ascii') outcomes are computed with the same library calls the code uses",
           "mapping of real Ed25519 signatures to symbolic ids (checked on every (key, cert) pair against ed25519.verify_signature)"]
ASSUMPTIONS = ["Ed25519: verification succeeds only for a signature produced with the matching private key on exactly those bytes (sampled on every pair of every case)",
               "the grid manager (trust root) signs only well-formed certificates (object with timezone-aware ISO-8601 'expires' and ASCII 'public_key'); "
               "for a correctly signed malformed certificate the code raises (json/KeyError/TypeError/...) — modelled and compared, and the monitor then demands only soundness (never True without a valid certificate)",
               "now_fn returns a timezone-aware datetime (a naive one makes the comparison raise TypeError; modelled and compared)"]

EPOCH = datetime(1970, 1, 1, tzinfo=timezone.utc)
EPOCH_NAIVE = datetime(1970, 1, 1)
BASE_US = 1_700_000_000_000_000
N_GM = 5
N_SRV = 4


def _keys(seed_hex_list):
    from allmydata.crypto import ed25519
    from allmydata.util.base32 import b2a
    res = []
    for h in seed_hex_list:
        sk, pk = ed25519.signing_keypair_from_string(b"priv-v0-" + b2a(bytes.fromhex(h)))
        res.append((sk, pk))
    return res


def us_of(dt):
    if dt.tzinfo is not None and dt.utcoffset() is not None:
        return "a%d" % ((dt - EPOCH) // timedelta(microseconds=1))
    return "n%d" % ((dt - EPOCH_NAIVE) // timedelta(microseconds=1))


def dt_of(tok):
    us = int(tok[1:])
    if tok[0] == "a":
        return EPOCH + timedelta(microseconds=us)
    return EPOCH_NAIVE + timedelta(microseconds=us)


class Intern:
    def __init__(self):
        self.d = {}

    def __call__(self, x):
        if x not in self.d:
            self.d[x] = len(self.d)
        return self.d[x]


def classify(b, pkid):
    """The model's abstract `parse`: which branch json.loads / fromisoformat / encode take on these bytes."""
    try:
        js = json.loads(b)
    except Exception:
        return "I"
    if js is None:
        return "N"
    if not isinstance(js, dict):
        return "O"
    if "expires" not in js:
        e = "A"
    elif not isinstance(js["expires"], str):
        e = "S"
    else:
        try:
            e = us_of(datetime.fromisoformat(js["expires"]))
        except ValueError:
            e = "U"
    if "public_key" not in js:
        p = "A"
    elif not isinstance(js["public_key"], str):
        p = "S"
    else:
        try:
            p = "k%d" % pkid(js["public_key"].encode("ascii"))
        except UnicodeEncodeError:
            p = "U"
    return "D.%s.%s" % (e, p)


ERR = {"JSONDecodeError": "json", "UnicodeDecodeError": "json", "KeyError": "key", "TypeError": "type", "ValueError": "value",
       "AttributeError": "attr", "UnicodeEncodeError": "unicode"}


def errname(e):
    return ERR.get(type(e).__name__, "other:" + type(e).__name__)


# ----------------------------------------------------------------------------- generation

def iso(us, off_min):
    return (EPOCH + timedelta(microseconds=us)).astimezone(timezone(timedelta(minutes=off_min))).isoformat()


MALFORMED = [
    ("raw", "garbage"), ("raw", "null"), ("raw", "[1]"), ("raw", "5"), ("raw", "\"s\""), ("raw", "true"), ("raw", "{}"),
    ("obj", {"expires": 5, "public_key": "x"}), ("obj", {"expires": "zz", "public_key": "x"}),
    ("obj", {"expires": "2025-01-01T00:00:00+00:00"}), ("obj", {"expires": "2025-01-01T00:00:00+00:00", "public_key": 5}),
    ("obj", {"expires": "2025-01-01T00:00:00+00:00", "public_key": "é"}),
    ("me-naive", None), ("other-naive", None), ("obj", {"expires": None, "public_key": "x"}),
]


def gen_case(rng, srv_strings):
    """A case is a JSON dict holding real key seeds, certificate bytes/signatures (hex) and the
    construction metadata the monitor uses (who signed what, untouched or not)."""
    from allmydata.crypto import ed25519
    gm_seeds = [rng.randbytes(32).hex() for _ in range(N_GM)]
    gms = _keys(gm_seeds)
    me = rng.randrange(N_SRV)
    r = rng.random()
    if r < 0.1:
        keys = []
    else:
        keys = rng.sample(range(N_GM), rng.choice([1, 1, 2, 3]))
        if rng.random() < 0.05:
            keys.append(keys[0])
    ncert = rng.choice([0, 1, 1, 2, 3, 4, 6])
    exps = []
    certs = []

    def body(server, exp_us):
        off = rng.choice([0, 0, 0, 60, -300, 330, 765])
        return json.dumps({"expires": iso(exp_us, off), "public_key": srv_strings[server].decode("ascii"), "version": 1},
                          separators=(",", ":"), sort_keys=True).encode("utf-8")

    def pick_exp():
        if exps and rng.random() < 0.3:
            return rng.choice(exps) + rng.choice([0, 0, 1, -1, 1000])
        return BASE_US + rng.randrange(-10**9, 10**9) * rng.choice([1, 1000, 10**6])

    for _ in range(ncert):
        kind = rng.choices(["valid", "valid-other-server", "foreign-key", "tamper-field", "tamper-flip", "tamper-sig",
                            "swap-sig", "garbage", "signed-malformed"],
                           [30, 10, 10, 12, 8, 10, 6, 6, 3 if keys else 0])[0]
        g = rng.choice(keys) if (keys and kind != "foreign-key") else rng.randrange(N_GM)
        if kind == "foreign-key":
            others = [x for x in range(N_GM) if x not in keys]
            g = rng.choice(others) if others else g
        server = me if kind not in ("valid-other-server",) else rng.choice([s for s in range(N_SRV) if s != me])
        if kind in ("tamper-field", "foreign-key") and rng.random() < 0.3:
            server = rng.randrange(N_SRV)
        exp = pick_exp()
        exps.append(exp)
        b = body(server, exp)
        sig = ed25519.sign_data(gms[g][0], b)
        meta = {"kind": kind, "signer": g, "intact": True, "server": server, "exp": exp, "wellformed": True}
        if kind in ("tamper-field", "tamper-flip"):
            meta["sig_of"] = b.hex()
        if kind == "tamper-field":
            # re-encode with a later expiry or with our own key, keep the old signature
            if rng.random() < 0.5:
                exp2 = exp + rng.choice([1, 10**6, 10**12])
                b2 = body(server, exp2)
                meta.update(exp=exp2)
            else:
                b2 = body(me, exp)
                meta.update(server=me)
            if b2 == b:
                b2 = b + b" "
            b = b2
            meta["intact"] = False
        elif kind == "tamper-flip":
            i = rng.randrange(len(b))
            b = b[:i] + bytes([b[i] ^ (1 << rng.randrange(8))]) + b[i + 1:]
            meta["intact"] = False
        elif kind == "tamper-sig":
            m = rng.random()
            if m < 0.6:
                i = rng.randrange(len(sig))
                sig = sig[:i] + bytes([sig[i] ^ (1 << rng.randrange(8))]) + sig[i + 1:]
            elif m < 0.75:
                sig = sig[:-1]
            elif m < 0.9:
                sig = b""
            else:
                sig = rng.randbytes(64)
            meta["intact"] = False
        elif kind == "swap-sig":
            other = body(server, exp + 1 + rng.randrange(10**6))
            sig = ed25519.sign_data(gms[g][0], other)
            meta["intact"] = False
            meta["sig_of"] = other.hex()
        elif kind == "garbage":
            b = rng.choice([b"", b"{", b"not json", rng.randbytes(rng.randrange(1, 40)), b"null", b"[]"])
            sig = rng.randbytes(64)
            meta.update(intact=False, signer=None, wellformed=False)
        elif kind == "signed-malformed":
            k, v = rng.choice(MALFORMED)
            if k == "raw":
                b = v.encode()
            elif k == "obj":
                b = json.dumps(v, separators=(",", ":"), sort_keys=True).encode("utf-8")
            else:
                srv = me if k == "me-naive" else (me + 1) % N_SRV
                naive = (EPOCH_NAIVE + timedelta(microseconds=exp)).isoformat()
                b = json.dumps({"expires": naive, "public_key": srv_strings[srv].decode("ascii")}).encode("utf-8")
                meta.update(server=srv, naive=True)
            sig = ed25519.sign_data(gms[g][0], b)
            meta.update(wellformed=False)
        certs.append({"certificate": b.hex(), "signature": sig.hex(), "meta": meta})
    if certs and rng.random() < 0.1:
        certs.append(dict(rng.choice(certs)))      # the same certificate listed twice
    rng.shuffle(certs)
    times = []
    for _ in range(rng.choice([1, 2, 3, 5])):
        if exps and rng.random() < 0.6:
            t = rng.choice(exps) + rng.choice([0, 0, 0, 1, -1, -10**6, 10**6])
        else:
            t = BASE_US + rng.randrange(-2 * 10**15, 2 * 10**15)
        times.append(("n" if rng.random() < 0.02 else "a") + str(t))
    return {"gm_seeds": gm_seeds, "keys": keys, "me": me, "certs": certs, "times": times}


# ----------------------------------------------------------------------------- execution

def run_case(ctx, case, srv_strings):
    """Run one case on the real verifier; returns (impl_output, driver_line, per-time results)."""
    from allmydata.crypto import ed25519
    from allmydata.grid_manager import create_grid_manager_verifier, SignedCertificate
    gms = _keys(case["gm_seeds"])
    keys = case["keys"]
    me = case["me"]
    msgid, sigid_junk, pkid = Intern(), Intern(), Intern()
    for s in srv_strings:
        pkid(s)
    honest = {}
    certs = []
    # honest signatures known in this case: every (gm, message) the generator signed
    for c in case["certs"]:
        b = bytes.fromhex(c["certificate"])
        m = c["meta"]
        if m.get("signer") is not None:
            for msg in [b] + ([bytes.fromhex(m["sig_of"])] if "sig_of" in m else []):
                honest[ed25519.sign_data(gms[m["signer"]][0], msg)] = (m["signer"], msgid(msg))

    def symsig(sig):
        if sig in honest:
            return "s%d_%d" % honest[sig]
        return "j%d" % sigid_junk(sig)

    toks = []
    objs = []
    for c in case["certs"]:
        b, sig = bytes.fromhex(c["certificate"]), bytes.fromhex(c["signature"])
        sc = SignedCertificate(certificate=b, signature=sig)
        objs.append(sc)
        tok = "%d/%s/%s" % (msgid(b), symsig(sig), classify(b, pkid))
        toks.append(tok)
        certs.append((sc, tok))
        m = c["meta"]
        if m["wellformed"] and m["kind"] != "tamper-flip":
            want = "D.a%d.k%d" % (m["exp"], m["server"])
            if classify(b, pkid) != want:
                raise AssertionError("harness self-check: constructed certificate %r classifies as %s, expected %s" % (b, classify(b, pkid), want))
    line = "gmv %s %d %d %s %s" % (",".join(map(str, keys)) or "-", me, len(toks), " ".join(toks), " ".join(case["times"]))
    line = " ".join(line.split())
    # Ed25519 assumption, sampled: the symbolic relation agrees with the real verification on every pair
    for g in sorted(set(keys)):
        for (sc, tok) in certs:
            sym = tok.split("/")[1] == "s%d_%s" % (g, tok.split("/")[0])
            try:
                ed25519.verify_signature(gms[g][1], sc.signature, sc.certificate)
                real = True
            except ed25519.BadSignature:
                real = False
            ctx.count("verify-pair:" + ("ok" if real else "bad"))
            if real != sym:
                ctx.disagree("Ed25519 assumption: real verification differs from the symbolic relation", case, real, sym)
    # the real verifier
    bad = []
    tok_of = {id(sc): tok for (sc, tok) in certs}
    key_of = {id(gms[g][1]): g for g in range(N_GM)}
    cur = [None]
    try:
        v = create_grid_manager_verifier([gms[g][1] for g in keys], objs, srv_strings[me], now_fn=lambda: cur[0],
                                         bad_cert=lambda k, c: bad.append("%d@%s" % (key_of[id(k)], "/".join(tok_of[id(c)].split("/")[:2]))))
    except Exception as e:
        return "X:" + errname(e), line, None
    nvalid = 0
    if "valid_certs" in v.__code__.co_freevars:
        nvalid = len(v.__closure__[v.__code__.co_freevars.index("valid_certs")].cell_contents)
    elif keys:
        nvalid = None
    res = []
    for t in case["times"]:
        cur[0] = dt_of(t)
        try:
            r = v()
            res.append("T" if r is True else "F" if r is False else "other:%r" % (r,))
        except Exception as e:
            res.append("E:" + errname(e))
    out = "bad=%s;valid=%s;%s" % (",".join(bad) or "-", "?" if nvalid is None else nvalid, ",".join(res))
    return out, line, res


def monitor(ctx, case, res):
    """The property statement, evaluated from the construction metadata only."""
    keys, me = case["keys"], case["me"]
    metas = [c["meta"] for c in case["certs"]]
    gm_signed_malformed = any(m["intact"] and m.get("signer") in keys and not m["wellformed"] for m in metas)
    if res is None:
        # creating the verifier raised: only allowed under the excluded assumption (correctly signed non-JSON)
        if not gm_signed_malformed:
            ctx.violation("create_grid_manager_verifier raised although no configured key signed a malformed certificate",
                          case, "ctor-raises-without-signed-malformed")
        else:
            ctx.count("assumption-excluded:ctor")
        return
    for t, r in zip(case["times"], res):
        now = int(t[1:])
        want = (not keys) or any(m["intact"] and m.get("signer") in keys and m["wellformed"] and m["server"] == me and m["exp"] > now
                                 for m in metas)
        at_expiry = any(m["intact"] and m.get("signer") in keys and m["wellformed"] and m["server"] == me and m["exp"] == now for m in metas)
        cls = []
        for m in metas:
            ok_sig = m["intact"] and m.get("signer") in keys
            if not ok_sig:
                cls.append("foreign-key" if (m["intact"] and m.get("signer") is not None) else m["kind"])
            elif not m["wellformed"]:
                cls.append("signed-malformed")
            elif m["server"] != me:
                cls.append("other-server")
            elif m["exp"] <= now:
                cls.append("expired")
            else:
                cls.append("good")
        sigslug = "+".join(sorted(set(cls))) or "no-certs"
        ctx.count("want:" + ("T" if want else "F"))
        if at_expiry:
            ctx.count("now==expires")
        # soundness also in the assumption-excluded region: a correctly signed certificate for this server whose
        # 'expires' is a naive timestamp counts as unexpired when the clock is naive too and earlier
        sound = want or any(m["intact"] and m.get("signer") in keys and m["server"] == me and m["exp"] > now and
                            ((m["wellformed"] and t[0] == "a") or (m.get("naive") and t[0] == "n")) for m in metas)
        if r == "T" and not sound:
            ctx.violation("permission granted without a valid, unexpired certificate for this server",
                          dict(case, at=t), "granted-wrongly:" + sigslug)
            continue
        if gm_signed_malformed or (keys and t[0] == "n"):
            ctx.count("assumption-excluded:call")
            continue
        if r != ("T" if want else "F"):
            ctx.violation("verifier answer differs from the documented predicate (want %s, got %s)" % (want, r),
                          dict(case, at=t), ("denied-wrongly:" if want else "wrong-answer:") + sigslug)


def server_strings(rng):
    from allmydata.crypto import ed25519
    return [ed25519.string_from_verifying_key(pk) for (_, pk) in _keys([rng.randbytes(32).hex() for _ in range(N_SRV)])]


CORPUS_KINDS = 40


def run(ctx):
    srv_rng = ctx.subrng("servers")
    srv_strings = server_strings(srv_rng)
    if ctx.replay:
        case = dict(ctx.replay["case"])
        case.pop("at", None)
        srv_strings = [s.encode("ascii") for s in case.get("srv_strings", [x.decode() for x in srv_strings])]
        cases = [case]
    else:
        n = ctx.budget(700, 25000)
        cases = []
        for _ in range(n):
            c = gen_case(ctx.rng, srv_strings)
            c["srv_strings"] = [s.decode("ascii") for s in srv_strings]
            cases.append(c)
    impl, lines = [], []
    for case in cases:
        out, line, res = run_case(ctx, case, srv_strings)
        impl.append(out)
        lines.append(line)
        monitor(ctx, case, res)
        nontrivial = bool(case["keys"]) and bool(case["certs"])
        if res is None:
            ctx.case(("ctor", line) if nontrivial else None)
            ctx.count("result:ctor-error")
        else:
            for t, r in zip(case["times"], res):
                ctx.case((line.rsplit(" ", len(case["times"]))[0], t) if nontrivial else None)
                ctx.count("result:" + r)
        for c in case["certs"]:
            ctx.count("cert:" + c["meta"]["kind"])
        ctx.count("keys:%d" % len(case["keys"]))
    model = ctx.model(lines)
    if model is not None:
        model = [m if "valid=?" not in i else m.replace(m.split(";")[1], "valid=?") for m, i in zip(model, impl)]
    ctx.compare("create_grid_manager_verifier (bad_cert calls, len(valid_certs), answers at each time)",
                [{k: v for k, v in c.items()} for c in cases], impl, model)
    ctx.sample({"line": lines[0], "impl": impl[0]})
    if len(lines) > 1:
        ctx.sample({"line": lines[1], "impl": impl[1]})
