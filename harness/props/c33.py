"""C33 — grid-manager certificates grant permission only when valid (grid_manager.py)."""
import io
import os
import json
from datetime import datetime, timedelta, timezone

ID = "C33"
LEAN_PROPS = "Tahoe.Props.C33"
DRIVER = "C33"
GENERATED = []
SOURCES = ["src/allmydata/grid_manager.py", "src/allmydata/crypto/ed25519.py", "src/allmydata/storage_client.py"]
DESIGN_REF = "DESIGN.md §2 C33"
TECHNIQUE = ("Lean 4 theorems over an executable model of create_grid_manager_verifier / validate_grid_manager_certificate with symbolic "
             "Ed25519, composed with the broker's use of it (announcement -> server object -> upload_permitted() -> get_servers_for_psi); "
             "differential correspondence on real Ed25519 keys and certificates (signatures mapped to symbolic (key, message) ids) and on a "
             "long-lived real StorageFarmBroker driven through a virtual clock and re-announcements; independent monitor of the documented "
             "predicate evaluated from the construction metadata")
LEVEL_TEXT = ("10 theorems in Tahoe.Props.C33, for all key lists, certificate lists, announcements and times: permitted_iff (exactly the "
              "documented predicate, strict at the instant of expiry), expired_at_instant_not_permitted, permission_only_expires, "
              "more_certificates_never_revoke, granted_only_if (soundness with no assumption on what was signed), "
              "tampered_or_foreign_never_grants (under the explicit Unforgeable hypothesis), no_keys_all_permitted, upload_verdict_iff / "
              "upload_verdict_no_keys (upload_permitted() of an announced server is that predicate at the current time, no call history), "
              "undecodable_entry_never_grants (an announcement entry that cannot be decoded grants nothing and never switches the key check "
              "off).  Tied to grid_manager.py by the verifier's answers, bad_cert calls and len(valid_certs) on seeded certificate mixes at "
              "seeded times (gmv lines), and to storage_client.py by the offered list of every broker query (offer lines).")
LEVEL_NOTE = ("Lean kernel + standard axioms only; Ed25519 unforgeability is an explicit hypothesis with a symbolic instance "
              "(symVerify_unforgeable); json.loads / datetime.fromisoformat / str.encode outcomes are the model parameter `parse`, computed by "
              "the harness with the library calls the code uses.  No defect of /repo is open for this property.")
RULE = ("(1) seeded (key set, certificate list, server, times) tuples against allmydata.grid_manager.create_grid_manager_verifier; "
        "a case is one call of the returned predicate; distinct = distinct (symbolic verifier line, time); non-trivial = at "
        "least one key configured and at least one certificate present; a fixed corpus (same signature on other bytes, own certificate "
        "expired while another server's runs on) runs first.  (2) seeded HISTORIES on a long-lived real StorageFarmBroker "
        "(grid-manager keys and preferred peers from tahoe.cfg text; servers announced with certificate sets valid-1h / valid-2h / "
        "expired+valid / expired / none / wrong key / other server's / tampered / entries SignedCertificate.load cannot decode, alone and "
        "mixed) driven through a virtual clock patched into allmydata.grid_manager.current_datetime_with_zone: at expiry-1us, expiry, "
        "expiry+1us and later instants get_servers_for_psi(for_upload=True/False), IServer.upload_permitted() and Publish.update_goal "
        "(every server already holding a share) are called repeatedly, with identical, renewed and undecodable re-announcements in "
        "between; the model's permitted(t) is a pure function of (latest announcement's certificates, keys, t) and the broker's offered "
        "list must equal it at every instant regardless of the call history; a case is one (query, server) pair; three fixed corpus "
        "histories run first; VERIF_CORPUS_ONLY=1 runs only the corpora")
TRUSTED = ["lean/Tahoe/GridManager/Model.lean and lean/Tahoe/StorageClient/Upload.lean are hand transcriptions of create_grid_manager_verifier / validate_grid_manager_certificate and of _make_storage_server / upload_permitted / the for_upload filter",
           "harness classify(): json.loads / datetime.fromisoformat / str.encode('ascii') outcomes are computed with the same library calls the code uses",
           "mapping of real Ed25519 signatures to symbolic ids (checked on every (key, cert) pair against ed25519.verify_signature)"]
ASSUMPTIONS = ["Ed25519: verification succeeds only for a signature produced with the matching private key on exactly those bytes (explicit hypothesis Unforgeable; sampled on every pair of every case)",
               "the grid manager (trust root) signs only well-formed certificates (object with timezone-aware ISO-8601 'expires' and ASCII 'public_key') — hypothesis SignedWellFormed of permitted_iff; "
               "for a correctly signed malformed certificate the code raises (json/KeyError/TypeError/...) — modelled and compared, never a True (granted_only_if), and the monitor then demands only soundness",
               "broker histories: servers enter through StorageFarmBroker._got_announcement with a stand-in Tub (connectTo returns an inert reconnector; no real Tub can be created in this sandbox) and are marked connected the way test_add_rref does; the only clock the code reads on this path is allmydata.grid_manager.current_datetime_with_zone",
               "now_fn returns a timezone-aware datetime (a naive one makes the comparison raise TypeError; modelled and compared)"]

EPOCH = datetime(1970, 1, 1, tzinfo=timezone.utc)
EPOCH_NAIVE = datetime(1970, 1, 1)
BASE_US = 1_700_000_000_000_000
N_GM = 5
N_SRV = 4


def _keys(seed_hex_list):
    from allmydata.crypto import ed25519
    from allmydata.util.base32 import b2a
    res = []
    for h in seed_hex_list:
        sk, pk = ed25519.signing_keypair_from_string(b"priv-v0-" + b2a(bytes.fromhex(h)))
        res.append((sk, pk))
    return res


def us_of(dt):
    if dt.tzinfo is not None and dt.utcoffset() is not None:
        return "a%d" % ((dt - EPOCH) // timedelta(microseconds=1))
    return "n%d" % ((dt - EPOCH_NAIVE) // timedelta(microseconds=1))


def dt_of(tok):
    us = int(tok[1:])
    if tok[0] == "a":
        return EPOCH + timedelta(microseconds=us)
    return EPOCH_NAIVE + timedelta(microseconds=us)


class Intern:
    def __init__(self):
        self.d = {}

    def __call__(self, x):
        if x not in self.d:
            self.d[x] = len(self.d)
        return self.d[x]


def classify(b, pkid):
    """The model's abstract `parse`: which branch json.loads / fromisoformat / encode take on these bytes."""
    try:
        js = json.loads(b)
    except Exception:
        return "I"
    if js is None:
        return "N"
    if not isinstance(js, dict):
        return "O"
    if "expires" not in js:
        e = "A"
    elif not isinstance(js["expires"], str):
        e = "S"
    else:
        try:
            e = us_of(datetime.fromisoformat(js["expires"]))
        except ValueError:
            e = "U"
    if "public_key" not in js:
        p = "A"
    elif not isinstance(js["public_key"], str):
        p = "S"
    else:
        try:
            p = "k%d" % pkid(js["public_key"].encode("ascii"))
        except UnicodeEncodeError:
            p = "U"
    return "D.%s.%s" % (e, p)


ERR = {"JSONDecodeError": "json", "UnicodeDecodeError": "json", "KeyError": "key", "TypeError": "type", "ValueError": "value",
       "AttributeError": "attr", "UnicodeEncodeError": "unicode"}


def errname(e):
    return ERR.get(type(e).__name__, "other:" + type(e).__name__)


# ----------------------------------------------------------------------------- generation

def iso(us, off_min):
    return (EPOCH + timedelta(microseconds=us)).astimezone(timezone(timedelta(minutes=off_min))).isoformat()


MALFORMED = [
    ("raw", "garbage"), ("raw", "null"), ("raw", "[1]"), ("raw", "5"), ("raw", "\"s\""), ("raw", "true"), ("raw", "{}"),
    ("obj", {"expires": 5, "public_key": "x"}), ("obj", {"expires": "zz", "public_key": "x"}),
    ("obj", {"expires": "2025-01-01T00:00:00+00:00"}), ("obj", {"expires": "2025-01-01T00:00:00+00:00", "public_key": 5}),
    ("obj", {"expires": "2025-01-01T00:00:00+00:00", "public_key": "é"}),
    ("me-naive", None), ("other-naive", None), ("obj", {"expires": None, "public_key": "x"}),
]


def gen_case(rng, srv_strings):
    """A case is a JSON dict holding real key seeds, certificate bytes/signatures (hex) and the
    construction metadata the monitor uses (who signed what, untouched or not)."""
    from allmydata.crypto import ed25519
    gm_seeds = [rng.randbytes(32).hex() for _ in range(N_GM)]
    gms = _keys(gm_seeds)
    me = rng.randrange(N_SRV)
    r = rng.random()
    if r < 0.1:
        keys = []
    else:
        keys = rng.sample(range(N_GM), rng.choice([1, 1, 2, 3]))
        if rng.random() < 0.05:
            keys.append(keys[0])
    ncert = rng.choice([0, 1, 1, 2, 3, 4, 6])
    exps = []
    certs = []

    def body(server, exp_us):
        off = rng.choice([0, 0, 0, 60, -300, 330, 765])
        return json.dumps({"expires": iso(exp_us, off), "public_key": srv_strings[server].decode("ascii"), "version": 1},
                          separators=(",", ":"), sort_keys=True).encode("utf-8")

    def pick_exp():
        if exps and rng.random() < 0.3:
            return rng.choice(exps) + rng.choice([0, 0, 1, -1, 1000])
        return BASE_US + rng.randrange(-10**9, 10**9) * rng.choice([1, 1000, 10**6])

    for _ in range(ncert):
        kind = rng.choices(["valid", "valid-other-server", "foreign-key", "tamper-field", "tamper-flip", "tamper-sig",
                            "swap-sig", "garbage", "signed-malformed"],
                           [30, 10, 10, 12, 8, 10, 6, 6, 3 if keys else 0])[0]
        g = rng.choice(keys) if (keys and kind != "foreign-key") else rng.randrange(N_GM)
        if kind == "foreign-key":
            others = [x for x in range(N_GM) if x not in keys]
            g = rng.choice(others) if others else g
        server = me if kind not in ("valid-other-server",) else rng.choice([s for s in range(N_SRV) if s != me])
        if kind in ("tamper-field", "foreign-key") and rng.random() < 0.3:
            server = rng.randrange(N_SRV)
        exp = pick_exp()
        exps.append(exp)
        b = body(server, exp)
        sig = ed25519.sign_data(gms[g][0], b)
        meta = {"kind": kind, "signer": g, "intact": True, "server": server, "exp": exp, "wellformed": True}
        if kind in ("tamper-field", "tamper-flip"):
            meta["sig_of"] = b.hex()
        if kind == "tamper-field":
            # re-encode with a later expiry or with our own key, keep the old signature
            if rng.random() < 0.5:
                exp2 = exp + rng.choice([1, 10**6, 10**12])
                b2 = body(server, exp2)
                meta.update(exp=exp2)
            else:
                b2 = body(me, exp)
                meta.update(server=me)
            if b2 == b:
                b2 = b + b" "
            b = b2
            meta["intact"] = False
        elif kind == "tamper-flip":
            i = rng.randrange(len(b))
            b = b[:i] + bytes([b[i] ^ (1 << rng.randrange(8))]) + b[i + 1:]
            meta["intact"] = False
        elif kind == "tamper-sig":
            m = rng.random()
            if m < 0.6:
                i = rng.randrange(len(sig))
                sig = sig[:i] + bytes([sig[i] ^ (1 << rng.randrange(8))]) + sig[i + 1:]
            elif m < 0.75:
                sig = sig[:-1]
            elif m < 0.9:
                sig = b""
            else:
                sig = rng.randbytes(64)
            meta["intact"] = False
        elif kind == "swap-sig":
            other = body(server, exp + 1 + rng.randrange(10**6))
            sig = ed25519.sign_data(gms[g][0], other)
            meta["intact"] = False
            meta["sig_of"] = other.hex()
        elif kind == "garbage":
            b = rng.choice([b"", b"{", b"not json", rng.randbytes(rng.randrange(1, 40)), b"null", b"[]"])
            sig = rng.randbytes(64)
            meta.update(intact=False, signer=None, wellformed=False)
        elif kind == "signed-malformed":
            k, v = rng.choice(MALFORMED)
            if k == "raw":
                b = v.encode()
            elif k == "obj":
                b = json.dumps(v, separators=(",", ":"), sort_keys=True).encode("utf-8")
            else:
                srv = me if k == "me-naive" else (me + 1) % N_SRV
                naive = (EPOCH_NAIVE + timedelta(microseconds=exp)).isoformat()
                b = json.dumps({"expires": naive, "public_key": srv_strings[srv].decode("ascii")}).encode("utf-8")
                meta.update(server=srv, naive=True)
            sig = ed25519.sign_data(gms[g][0], b)
            meta.update(wellformed=False)
        certs.append({"certificate": b.hex(), "signature": sig.hex(), "meta": meta})
    if certs and rng.random() < 0.1:
        certs.append(dict(rng.choice(certs)))      # the same certificate listed twice
    rng.shuffle(certs)
    times = []
    for _ in range(rng.choice([1, 2, 3, 5])):
        if exps and rng.random() < 0.6:
            t = rng.choice(exps) + rng.choice([0, 0, 0, 1, -1, -10**6, 10**6])
        else:
            t = BASE_US + rng.randrange(-2 * 10**15, 2 * 10**15)
        times.append(("n" if rng.random() < 0.02 else "a") + str(t))
    return {"gm_seeds": gm_seeds, "keys": keys, "me": me, "certs": certs, "times": times}


# ----------------------------------------------------------------------------- execution

class Tokeniser:
    """symbolic tokens `<msg>/<sig>/<parsed>` for certificate dicts, with interning shared over one driver line"""

    def __init__(self, gms, srv_strings, sigcache=None):
        self.gms = gms
        self.sigcache = {} if sigcache is None else sigcache
        self.msgid, self.junk, self.pkid = Intern(), Intern(), Intern()
        for s in srv_strings:
            self.pkid(s)
        self.honest = {}

    def learn(self, certs):
        from allmydata.crypto import ed25519
        for c in certs:
            b = bytes.fromhex(c["certificate"])
            m = c["meta"]
            if m.get("signer") is not None:
                for msg in [b] + ([bytes.fromhex(m["sig_of"])] if "sig_of" in m else []):
                    ck = (m["signer"], msg)
                    if ck not in self.sigcache:
                        self.sigcache[ck] = ed25519.sign_data(self.gms[m["signer"]][0], msg)
                    self.honest[self.sigcache[ck]] = (m["signer"], self.msgid(msg))

    def tok(self, c):
        b, sig = bytes.fromhex(c["certificate"]), bytes.fromhex(c["signature"])
        sg = ("s%d_%d" % self.honest[sig]) if sig in self.honest else "j%d" % self.junk(sig)
        return "%d/%s/%s" % (self.msgid(b), sg, classify(b, self.pkid))


def run_case(ctx, case, srv_strings):
    """Run one case on the real verifier; returns (impl_output, driver_line, per-time results)."""
    from allmydata.crypto import ed25519
    from allmydata.grid_manager import create_grid_manager_verifier, SignedCertificate
    gms = _keys(case["gm_seeds"])
    keys = case["keys"]
    me = case["me"]
    msgid, sigid_junk, pkid = Intern(), Intern(), Intern()
    for s in srv_strings:
        pkid(s)
    honest = {}
    certs = []
    # honest signatures known in this case: every (gm, message) the generator signed
    for c in case["certs"]:
        b = bytes.fromhex(c["certificate"])
        m = c["meta"]
        if m.get("signer") is not None:
            for msg in [b] + ([bytes.fromhex(m["sig_of"])] if "sig_of" in m else []):
                honest[ed25519.sign_data(gms[m["signer"]][0], msg)] = (m["signer"], msgid(msg))

    def symsig(sig):
        if sig in honest:
            return "s%d_%d" % honest[sig]
        return "j%d" % sigid_junk(sig)

    toks = []
    objs = []
    for c in case["certs"]:
        b, sig = bytes.fromhex(c["certificate"]), bytes.fromhex(c["signature"])
        sc = SignedCertificate(certificate=b, signature=sig)
        objs.append(sc)
        tok = "%d/%s/%s" % (msgid(b), symsig(sig), classify(b, pkid))
        toks.append(tok)
        certs.append((sc, tok))
        m = c["meta"]
        if m["wellformed"] and m["kind"] != "tamper-flip":
            want = "D.a%d.k%d" % (m["exp"], m["server"])
            if classify(b, pkid) != want:
                raise AssertionError("harness self-check: constructed certificate %r classifies as %s, expected %s" % (b, classify(b, pkid), want))
    line = "gmv %s %d %d %s %s" % (",".join(map(str, keys)) or "-", me, len(toks), " ".join(toks), " ".join(case["times"]))
    line = " ".join(line.split())
    # Ed25519 assumption, sampled: the symbolic relation agrees with the real verification on every pair
    for g in sorted(set(keys)):
        for (sc, tok) in certs:
            sym = tok.split("/")[1] == "s%d_%s" % (g, tok.split("/")[0])
            try:
                ed25519.verify_signature(gms[g][1], sc.signature, sc.certificate)
                real = True
            except ed25519.BadSignature:
                real = False
            ctx.count("verify-pair:" + ("ok" if real else "bad"))
            if real != sym:
                ctx.disagree("Ed25519 assumption: real verification differs from the symbolic relation", case, real, sym)
    # the real verifier
    bad = []
    tok_of = {id(sc): tok for (sc, tok) in certs}
    key_of = {id(gms[g][1]): g for g in range(N_GM)}
    cur = [None]
    try:
        v = create_grid_manager_verifier([gms[g][1] for g in keys], objs, srv_strings[me], now_fn=lambda: cur[0],
                                         bad_cert=lambda k, c: bad.append("%d@%s" % (key_of[id(k)], "/".join(tok_of[id(c)].split("/")[:2]))))
    except Exception as e:
        return "X:" + errname(e), line, None
    nvalid = 0
    if "valid_certs" in v.__code__.co_freevars:
        nvalid = len(v.__closure__[v.__code__.co_freevars.index("valid_certs")].cell_contents)
    elif keys:
        nvalid = None
    res = []
    for t in case["times"]:
        cur[0] = dt_of(t)
        try:
            r = v()
            res.append("T" if r is True else "F" if r is False else "other:%r" % (r,))
        except Exception as e:
            res.append("E:" + errname(e))
    out = "bad=%s;valid=%s;%s" % (",".join(bad) or "-", "?" if nvalid is None else nvalid, ",".join(res))
    return out, line, res


def monitor(ctx, case, res):
    """The property statement, evaluated from the construction metadata only."""
    keys, me = case["keys"], case["me"]
    metas = [c["meta"] for c in case["certs"]]
    gm_signed_malformed = any(m["intact"] and m.get("signer") in keys and not m["wellformed"] for m in metas)
    if res is None:
        # creating the verifier raised: only allowed under the excluded assumption (correctly signed non-JSON)
        if not gm_signed_malformed:
            ctx.violation("create_grid_manager_verifier raised although no configured key signed a malformed certificate",
                          case, "ctor-raises-without-signed-malformed")
        else:
            ctx.count("assumption-excluded:ctor")
        return
    for t, r in zip(case["times"], res):
        now = int(t[1:])
        want = (not keys) or any(m["intact"] and m.get("signer") in keys and m["wellformed"] and m["server"] == me and m["exp"] > now
                                 for m in metas)
        at_expiry = any(m["intact"] and m.get("signer") in keys and m["wellformed"] and m["server"] == me and m["exp"] == now for m in metas)
        cls = []
        for m in metas:
            ok_sig = m["intact"] and m.get("signer") in keys
            if not ok_sig:
                cls.append("foreign-key" if (m["intact"] and m.get("signer") is not None) else m["kind"])
            elif not m["wellformed"]:
                cls.append("signed-malformed")
            elif m["server"] != me:
                cls.append("other-server")
            elif m["exp"] <= now:
                cls.append("expired")
            else:
                cls.append("good")
        sigslug = "+".join(sorted(set(cls))) or "no-certs"
        ctx.count("want:" + ("T" if want else "F"))
        if at_expiry:
            ctx.count("now==expires")
        # soundness also in the assumption-excluded region: a correctly signed certificate for this server whose
        # 'expires' is a naive timestamp counts as unexpired when the clock is naive too and earlier
        sound = want or any(m["intact"] and m.get("signer") in keys and m["server"] == me and m["exp"] > now and
                            ((m["wellformed"] and t[0] == "a") or (m.get("naive") and t[0] == "n")) for m in metas)
        if r == "T" and not sound:
            ctx.violation("permission granted without a valid, unexpired certificate for this server",
                          dict(case, at=t), "granted-wrongly:" + sigslug)
            continue
        if gm_signed_malformed or (keys and t[0] == "n"):
            ctx.count("assumption-excluded:call")
            continue
        if r != ("T" if want else "F"):
            ctx.violation("verifier answer differs from the documented predicate (want %s, got %s)" % (want, r),
                          dict(case, at=t), ("denied-wrongly:" if want else "wrong-answer:") + sigslug)


def server_strings(rng):
    from allmydata.crypto import ed25519
    return [ed25519.string_from_verifying_key(pk) for (_, pk) in _keys([rng.randbytes(32).hex() for _ in range(N_SRV)])]


# ----------------------------------------------------------------------------- (2) histories on a long-lived StorageFarmBroker

FURL = "pb://62ubehyunnyhzs7r6vdonnm2hpi52w6y@127.0.0.1:1/x"
CLOCK = [None]
H = 3600 * 10**6
UNDEC = ["sig-not-base32", "no-signature", "no-certificate", "signature-not-string", "certificate-not-string", "signature-null",
         "entry-not-object", "sig-non-ascii"]
TEMPLATES = ["undecodable", "undecodable+", "valid-1h", "valid-2h", "expired+valid", "expired", "none", "wrong-key", "other-server", "tampered", "valid-short", "two-valid"]


def _b32(b):
    import base64
    return base64.b32encode(b).decode("ascii").lower().rstrip("=")


def certset(rng, template, i, n, keys, t0):
    """cert specs {k, gm, for, exp}; k in valid | tampered"""
    g = lambda: rng.choice(keys) if keys else rng.randrange(N_GM)
    foreign = [x for x in range(N_GM) if x not in keys] or [0]
    short = t0 + rng.choice([1, 2, 1000, 10**6])
    if template in ("undecodable", "undecodable+"):
        # an entry SignedCertificate.load cannot decode, alone or at a random position among invalid (rarely valid) certificates
        rest = []
        if template == "undecodable+":
            for _ in range(rng.choice([1, 1, 2])):
                rest += certset(rng, rng.choice(["expired", "wrong-key", "other-server", "tampered", "expired", "valid-1h"]), i, n, keys, t0)
        rest.insert(rng.randrange(len(rest) + 1), {"k": "undecodable", "how": rng.choice(UNDEC), "gm": g(), "for": i, "exp": t0 + H})
        return rest
    if template == "valid-1h":
        return [{"k": "valid", "gm": g(), "for": i, "exp": t0 + H}]
    if template == "valid-2h":
        return [{"k": "valid", "gm": g(), "for": i, "exp": t0 + 2 * H}]
    if template == "expired+valid":
        return [{"k": "valid", "gm": g(), "for": i, "exp": t0 - rng.choice([1, H, 400 * 24 * H])}, {"k": "valid", "gm": g(), "for": i, "exp": t0 + H}]
    if template == "expired":
        return [{"k": "valid", "gm": g(), "for": i, "exp": t0 - rng.choice([0, 1, H])}]
    if template == "none":
        return []
    if template == "wrong-key":
        return [{"k": "valid", "gm": rng.choice(foreign), "for": i, "exp": t0 + H}]
    if template == "other-server":
        return [{"k": "valid", "gm": g(), "for": (i + 1 + rng.randrange(max(n - 1, 1))) % n if n > 1 else i, "exp": t0 + H}]
    if template == "tampered":
        return [{"k": "tampered", "gm": g(), "for": i, "exp": t0 + rng.choice([H, 2 * H])}]
    if template == "valid-short":
        return [{"k": "valid", "gm": g(), "for": i, "exp": short}]
    return [{"k": "valid", "gm": g(), "for": i, "exp": short}, {"k": "valid", "gm": g(), "for": i, "exp": short + rng.choice([1, 5, H])}]


def gen_history(rng, fixed=None):
    n = fixed["n"] if fixed else rng.choice([2, 3, 4, 6, 8])
    keys = rng.sample(range(N_GM), rng.choice([1, 1, 2])) if (fixed or rng.random() < 0.9) else []
    t0 = BASE_US
    templ = fixed["templates"] if fixed else [rng.choice(TEMPLATES) for _ in range(n)]
    versions = [[certset(rng, templ[i], i, n, keys, t0)] for i in range(n)]
    exps = sorted(set(c["exp"] for v in versions for c in v[0] if c["exp"] > t0))
    instants = {t0}
    for e in (exps if fixed else rng.sample(exps, min(len(exps), 3))):
        for d in ([-1, 0, 1, 1000] if fixed else rng.sample([-1, 0, 1, 7, 10**6], rng.choice([2, 3, 4]))):
            if e + d >= t0:
                instants.add(e + d)
    if exps:
        instants.add(max(exps) + rng.choice([1, 24 * H]))
    events = []
    for t in sorted(instants):
        events.append(["t", t])
        for _ in range(rng.choice([2, 3])):
            events.append(["q", rng.choice([1, 1, 0]), rng.randbytes(16).hex()])
        if rng.random() < 0.5:
            events.append(["p", rng.randrange(n)])
        if fixed or rng.random() < 0.4:
            # the mutable publisher's use of the verdict: every server already holds one share, five more need a home
            events.append(["g", n + 5, [[i, i] for i in range(n)]])
        if rng.random() < 0.4:
            i = rng.randrange(n)
            c = rng.random()
            if c < 0.4:
                events.append(["ann", i, len(versions[i]) - 1])           # identical re-announcement (ignored by the broker)
            else:
                if c < 0.75:
                    new = [{"k": "valid", "gm": rng.choice(keys) if keys else 0, "for": i, "exp": t + rng.choice([1, 2, H])}]   # renewed
                else:
                    new = certset(rng, rng.choice(TEMPLATES), i, n, keys, t)
                versions[i].append(new)
                events.append(["ann", i, len(versions[i]) - 1])
                for e in [c2["exp"] for c2 in new if c2["exp"] > t and c2["exp"] - t <= 5]:
                    pass
            for _ in range(rng.choice([1, 2])):
                events.append(["q", 1, rng.randbytes(16).hex()])
    # instants created by renewals: walk across their expiry too
    tmax = max(instants)
    late = sorted(set(c["exp"] + d for v in versions for cs in v[1:] for c in cs for d in (-1, 0, 1) if c["exp"] + d > tmax))
    for t in late[:6]:
        events.append(["t", t])
        events.append(["q", 1, rng.randbytes(16).hex()])
        events.append(["q", rng.choice([0, 1]), rng.randbytes(16).hex()])
    # [client] peers.preferred: being preferred must not exempt a server from the certificate requirement
    preferred = rng.sample(range(n), rng.choice([0, 1, 2, min(3, n)])) if rng.random() < 0.6 else []
    return {"kind": "broker", "preferred": preferred, "gm_seeds": [rng.randbytes(32).hex() for _ in range(N_GM)], "keys": keys,
            "srv_seeds": [rng.randbytes(32).hex() for _ in range(n)], "versions": versions, "events": events}


def cert_dicts(case, gms, srv_strings, i, v):
    """the certificate list of server i, version v, in the format of run_case (bytes + construction metadata)"""
    from allmydata.crypto import ed25519
    res = []
    for c in case["versions"][i][v]:
        def body(exp):
            return json.dumps({"expires": iso(exp, 0), "public_key": srv_strings[c["for"]].decode("ascii"), "version": 1},
                              separators=(",", ":"), sort_keys=True).encode("utf-8")
        b = body(c["exp"])
        meta = {"kind": "valid", "signer": c["gm"], "intact": True, "server": c["for"], "exp": c["exp"], "wellformed": True}
        if c["k"] == "undecodable":
            # what would be a perfectly valid certificate for this server, except that the entry cannot be decoded
            good = {"certificate": b.decode("utf-8"), "signature": _b32(ed25519.sign_data(gms[c["gm"]][0], b))}
            how = c["how"]
            if how == "sig-not-base32":
                j = (c["exp"] + c["for"]) % len(good["signature"])
                good["signature"] = good["signature"][:j] + "0189!_"[(c["exp"] + j) % 6] + good["signature"][j + 1:]
            elif how == "no-signature":
                del good["signature"]
            elif how == "no-certificate":
                del good["certificate"]
            elif how == "signature-not-string":
                good["signature"] = 5
            elif how == "certificate-not-string":
                good["certificate"] = [good["certificate"]]
            elif how == "signature-null":
                good["signature"] = None
            elif how == "sig-non-ascii":
                good["signature"] = good["signature"][:-1] + "\u00e9"
            else:
                good = "not an object"
            res.append({"undecodable": how, "entry": good})
            continue
        if c["k"] == "tampered":
            orig = body(c["exp"] - 400 * 24 * H)           # an old certificate, its expiry date rewritten under the old signature
            sig = ed25519.sign_data(gms[c["gm"]][0], orig)
            meta.update(kind="tamper-field", intact=False, sig_of=orig.hex())
        else:
            sig = ed25519.sign_data(gms[c["gm"]][0], b)
        res.append({"certificate": b.hex(), "signature": sig.hex(), "meta": meta})
    return res


def run_history(ctx, case, workdir, lines_b, impl_b, cases_b, direct, offers):
    import contextlib
    import io
    from twisted.application import service
    from allmydata.crypto import ed25519
    from allmydata.node import config_from_string
    from allmydata.client import _valid_config
    from allmydata.storage_client import StorageClientConfig, StorageFarmBroker

    class Reconnector:
        def stopConnecting(self):
            pass

        def reset(self):
            pass

    class StandInTub(service.MultiService):
        def connectTo(self, furl, cb):
            return Reconnector()

    gms = _keys(case["gm_seeds"])
    keys = case["keys"]
    srv_strings = [ed25519.string_from_verifying_key(pk) for (_, pk) in _keys(case["srv_seeds"])]
    sids = [s[len(b"pub-"):] for s in srv_strings]
    n = len(sids)
    txt = "[client]\n"
    if case.get("preferred"):
        txt += "peers.preferred = %s\n" % ", ".join(sids[i].decode("ascii") for i in case["preferred"])
    if keys:
        txt += "[grid_managers]\n" + "".join("gm%d = %s\n" % (g, ed25519.string_from_verifying_key(gms[g][1]).decode("ascii")) for g in keys)
    cfg = config_from_string(os.path.join(workdir, "no-such-basedir"), "tub.port", txt, _valid_config())
    sb = StorageFarmBroker(True, lambda overrides: StandInTub(), cfg, StorageClientConfig.from_node_config(cfg))
    certs = {}

    def announce(i, v, serial):
        cs = certs.setdefault((i, v), cert_dicts(case, gms, srv_strings, i, v))
        ann = {"service-name": "storage", "anonymous-storage-FURL": FURL, "nickname": "srv%d-v%d" % (i, v)}
        if cs:
            ann["grid-manager-certificates"] = [c["entry"] if "undecodable" in c else
                                                {"certificate": bytes.fromhex(c["certificate"]).decode("utf-8"),
                                                 "signature": _b32(bytes.fromhex(c["signature"]))} for c in cs]
        undec = [c["undecodable"] for c in cs if "undecodable" in c]
        try:
            with contextlib.redirect_stdout(io.StringIO()):
                sb._got_announcement(sids[i], ann)
        except Exception as e:
            # the unchanged tree: SignedCertificate.load raises, the whole announcement is refused, no (new) server object
            ctx.count("undecodable-entry:announcement-refused:" + type(e).__name__)
            if not undec:
                raise
            return None
        if undec:
            ctx.count("undecodable-entry:announcement-accepted")
        srv = sb.servers[sids[i]]
        srv._rref = object()            # as StorageFarmBroker.test_add_rref does
        srv._is_connected = True
        return srv

    def permitted(i, v, t):
        return (not keys) or any(c["meta"]["intact"] and c["meta"]["signer"] in keys and c["meta"]["server"] == i and c["meta"]["exp"] > t
                                 for c in good(i, v))

    def good(i, v):
        return [c for c in certs[(i, v)] if "undecodable" not in c]

    import base64
    import hashlib
    seeds = []
    for sid in sids:
        raw = sid[3:].decode("ascii").upper()
        seeds.append(base64.b32decode(raw + "=" * (-len(raw) % 8)))
    pref_ids = list(case.get("preferred", []))

    sigcache = {}

    def offer_line(fu, psi, t):
        tk = Tokeniser(gms, srv_strings, sigcache)
        for i in range(n):
            tk.learn(good(i, cur[i]))
        groups = []
        conn = [sids.index(s.get_serverid()) for s in sb.get_connected_servers()]
        for i in conn + [j for j in range(n) if j not in conn]:       # then the servers whose announcement was refused
            groups.append("S %d 1 %s %s" % (i, hashlib.sha1(psi + seeds[i]).hexdigest(),
                                            " ".join("U" if "undecodable" in c else tk.tok(c) for c in certs[(i, cur[i])])))
        return " ".join(("offer %s %s %d a%d %s" % (",".join(map(str, keys)) or "-", ",".join(map(str, pref_ids)) or "-",
                                                    1 if fu else 0, t, " ".join(groups))).split())

    CLOCK[0] = dt_of("a%d" % BASE_US)
    cur = [0] * n
    since = [BASE_US] * n          # when the current server object was created
    present = [announce(i, 0, 0) is not None for i in range(n)]
    obs = {}
    t = BASE_US
    for ei, ev in enumerate(case["events"]):
        if ev[0] == "t":
            t = ev[1]
            CLOCK[0] = dt_of("a%d" % t)
            at_exp = any(c["meta"]["exp"] == t for i in range(n) for c in good(i, cur[i]))
            ctx.count("broker-clock:" + ("at-an-expiry-instant" if at_exp else "other"))
        elif ev[0] == "ann":
            i, v = ev[1], ev[2]
            old = sb.servers.get(sids[i])
            new = announce(i, v, ei)
            ctx.count("broker-reannounce:" + ("refused" if new is None else "identical-ignored" if new is old else "replaced"))
            if new is not None:
                # expectations follow the LATEST accepted announcement, whether or not the broker replaced its server object
                # (seed C32-e kept the old object when only the certificates changed)
                if v != cur[i] or new is not old:
                    since[i] = t
                cur[i], present[i] = v, True
        elif ev[0] == "g":
            from allmydata.mutable.publish import Publish
            byidx = {sids.index(x.get_serverid()): x for x in sb.servers.values()}
            pub = Publish.__new__(Publish)
            pub._log_number, pub._new_seqnum, pub._first_write_error = None, 1, None
            pub.total_shares = ev[1]
            pub.goal = set((byidx[i], sh) for (i, sh) in ev[2] if i in byidx)
            pub.bad_servers = set()
            pub.full_serverlist = list(sb.get_servers_for_psi(b"\x07" * 16))
            before = set(pub.goal)
            try:
                pub.update_goal()
            except Exception as e:
                ctx.count("publish:" + type(e).__name__)
            for (srv, sh) in pub.goal - before:
                i = sids.index(srv.get_serverid())
                ctx.count("publish:new-placement")
                if not permitted(i, cur[i], t):
                    ctx.violation("Publish.update_goal directs a new share to a server without a currently valid grid-manager certificate "
                                  "(the server already holds a share of the file)", dict(case, at={"event": ei, "t": t, "server": i}),
                                  "publish-placed-share-without-valid-cert" + (":at-or-after-expiry" if permitted(i, cur[i], since[i]) else ":never-valid"))
        elif ev[0] == "p":
            i = ev[1]
            if not present[i]:
                continue
            got, want = sb.servers[sids[i]].upload_permitted(), permitted(i, cur[i], t)
            if got and not want and any("undecodable" in c for c in certs[(i, cur[i])]):
                ctx.violation("IServer.upload_permitted() is True for a server whose announcement holds an undecodable certificate entry "
                              "and no currently valid certificate", dict(case, at={"event": ei, "t": t, "server": i}),
                              "granted-wrongly:undecodable-entry")
            elif got is not want:
                ctx.violation("IServer.upload_permitted() = %r differs from the documented predicate at the current time" % (got,),
                              dict(case, at={"event": ei, "t": t, "server": i}), "upload-permitted-wrong:" + ("granted" if got else "denied"))
        else:
            fu = bool(ev[1])
            olist = [sids.index(s.get_serverid()) for s in sb.get_servers_for_psi(bytes.fromhex(ev[2]), for_upload=fu)]
            offered = set(olist)
            offers.append((offer_line(fu, bytes.fromhex(ev[2]), t), ",".join(map(str, olist)) or "-", dict(case, at={"event": ei, "t": t})))
            ctx.count("broker-query:for_upload=%d" % fu)
            for i in range(n):
                v = cur[i]
                undec = sorted(set(c["undecodable"] for c in certs[(i, v)] if "undecodable" in c))
                if not present[i]:
                    ctx.count("undecodable-entry:server-absent-at-query")
                    continue
                if undec:
                    # a tolerant implementation kept the server: fine, as long as the undecodable entry grants nothing
                    if fu and (i in offered) and not permitted(i, v, t):
                        ctx.violation("server offered for upload although its announcement holds an undecodable certificate entry (%s) and no "
                                      "currently valid certificate for it; grid-manager keys are configured" % "+".join(undec),
                                      dict(case, at={"event": ei, "t": t, "server": i}), "granted-wrongly:undecodable-entry")
                    continue
                if not fu:
                    if i not in offered:
                        ctx.violation("a connected server is missing from get_servers_for_psi(for_upload=False)",
                                      dict(case, at={"event": ei, "t": t, "server": i}), "connected-server-missing-without-for-upload")
                    continue
                want = permitted(i, v, t)
                obs.setdefault((i, v), []).append((t, i in offered))
                ctx.case(("broker", ei, i, json.dumps(case["versions"][i][v]), t - BASE_US))
                ctx.count("broker-want:" + ("offered" if want else "withheld"))
                if (i in offered) and not want:
                    kinds = sorted(set(("expired" if (c["meta"]["kind"] == "valid" and c["meta"]["signer"] in keys and c["meta"]["server"] == i) else
                                        "wrong-key" if (c["meta"]["kind"] == "valid" and c["meta"]["server"] == i) else
                                        "other-server" if c["meta"]["kind"] == "valid" else "tampered") for c in good(i, v))) or ["none"]
                    sig = "at-or-after-expiry" if permitted(i, v, since[i]) else "never-valid:" + "+".join(kinds)
                    if i in case.get("preferred", []):
                        sig += ":preferred-server"
                    ctx.violation("server offered for upload without a currently valid grid-manager certificate (%d us after its last "
                                  "certificate for this server expired or never valid; server object in use since T0+%dus, now T0+%dus)"
                                  % (t - max([c["meta"]["exp"] for c in good(i, v) if c["meta"]["intact"] and c["meta"]["signer"] in keys
                                              and c["meta"]["server"] == i] or [t]), since[i] - BASE_US, t - BASE_US),
                                  dict(case, at={"event": ei, "t": t, "server": i}), "offered-for-upload-without-valid-cert:" + sig)
                elif (i not in offered) and want:
                    ctx.violation("server holding a currently valid grid-manager certificate is not offered for upload",
                                  dict(case, at={"event": ei, "t": t, "server": i}), "valid-cert-not-offered-for-upload")
    # the same (certificates, keys, instants) through the direct verifier and the Lean model: the broker must equal both
    for (i, v), ol in sorted(obs.items()):
        dcase = {"gm_seeds": case["gm_seeds"], "keys": keys, "me": i, "certs": good(i, v), "times": ["a%d" % tt for (tt, _) in ol],
                 "srv_strings": [s.decode("ascii") for s in srv_strings]}
        out, line, res = run_case(ctx, dcase, srv_strings)
        monitor(ctx, dcase, res)
        direct.append((dcase, line, out))
        lines_b.append(line)
        impl_b.append(",".join("T" if o else "F" for (_, o) in ol))
        cases_b.append(dict(case, at={"server": i, "version": v}))


def direct_corpus(srv_strings):
    """fixed cases for the direct verifier that run first (mechanisms of the seeded changes C33-a / C33-b, kept so that catching
    them does not depend on the random stream)"""
    from allmydata.crypto import ed25519
    seeds = ["%02x" % (0x11 * (i + 1)) * 32 for i in range(N_GM)]
    gms = _keys(seeds)
    T = BASE_US

    def body(server, exp):
        return json.dumps({"expires": iso(exp, 0), "public_key": srv_strings[server].decode("ascii"), "version": 1},
                          separators=(",", ":"), sort_keys=True).encode("utf-8")

    def cert(g, server, exp, sig_of=None, kind="valid"):
        b = body(server, exp)
        signed = b if sig_of is None else sig_of
        meta = {"kind": kind, "signer": g, "intact": sig_of is None, "server": server, "exp": exp, "wellformed": True}
        if sig_of is not None:
            meta["sig_of"] = sig_of.hex()
        return {"certificate": b.hex(), "signature": ed25519.sign_data(gms[g][0], signed).hex(), "meta": meta}

    def case(me, certs, times):
        return {"gm_seeds": seeds, "keys": [0], "me": me, "certs": certs, "times": ["a%d" % t for t in times],
                "srv_strings": [x.decode("ascii") for x in srv_strings]}
    res = []
    # C33-b mechanism: a genuine certificate and, in the same set, other bytes carrying the *same* signature (an expired one
    # re-dated; another server's re-targeted) — listed after, and listed before, the genuine one; then the forged one alone in
    # a later verifier for the same key
    old = body(0, T - 10**9)
    other = body(1, T + 10**9)
    for certs in ([cert(0, 0, T - 10**9), cert(0, 0, T + 10**9, sig_of=old, kind="tamper-field")],
                  [cert(0, 0, T + 10**9, sig_of=old, kind="tamper-field"), cert(0, 0, T - 10**9)],
                  [cert(0, 1, T + 10**9), cert(0, 0, T + 10**9, sig_of=other, kind="tamper-field")],
                  [cert(0, 0, T + 10**9, sig_of=old, kind="tamper-field")],
                  [cert(0, 0, T + 10**9, sig_of=other, kind="tamper-field")]):
        res.append(case(0, certs, [T - 2 * 10**9, T, T + 10**9 - 1, T + 10**9]))
    # C33-a mechanism: this server's own certificate expires at T while another server's (same grid manager) runs on
    res.append(case(0, [cert(0, 0, T), cert(0, 1, T + 10**9)], [T - 1, T, T + 1, T + 10**9 - 1, T + 10**9]))
    res.append(case(0, [cert(0, 1, T + 10**9), cert(0, 0, T - 5)], [T - 6, T - 5, T]))
    return res


def undecodable_history():
    """every kind of undecodable certificate entry — alone, and before / between / after expired, wrong-key, other-server and
    tampered certificates — each on its own server, plus clean servers; queried at T0 and later (seed C33-d turned such an
    announcement into 'no grid-manager keys configured')"""
    import random
    rng = random.Random("C33-undecodable")
    t0 = BASE_US
    keys = [0]
    und = lambda how, i: {"k": "undecodable", "how": how, "gm": 0, "for": i, "exp": t0 + H}
    exp = lambda i: {"k": "valid", "gm": 0, "for": i, "exp": t0 - 5}
    foreign = lambda i: {"k": "valid", "gm": 3, "for": i, "exp": t0 + H}
    versions = []
    for how in UNDEC:
        versions.append([[und(how, len(versions))]])
    k = len(versions)
    versions.append([[und("sig-not-base32", k), exp(k)]])
    versions.append([[exp(k + 1), und("no-signature", k + 1)]])
    versions.append([[foreign(k + 2), und("no-certificate", k + 2), {"k": "valid", "gm": 0, "for": 0, "exp": t0 + H}]])
    versions.append([[{"k": "tampered", "gm": 0, "for": k + 3, "exp": t0 + H}, und("signature-null", k + 3), exp(k + 3)]])
    versions.append([[{"k": "valid", "gm": 0, "for": k + 4, "exp": t0 + H}]])           # clean and valid
    versions.append([[]])                                                              # clean, no certificates
    n = len(versions)
    events = [["t", t0]]
    for i in range(n):
        events.append(["p", i])
    events += [["q", 1, "11" * 16], ["q", 0, "22" * 16], ["q", 1, "33" * 16]]
    # a clean server re-announces with an undecodable entry (refused: the old object stays), an undecodable one re-announces clean
    versions[k + 4].append([und("sig-not-base32", k + 4)])
    versions[0].append([{"k": "valid", "gm": 0, "for": 0, "exp": t0 + 2 * H}])
    events += [["ann", k + 4, 1], ["q", 1, "44" * 16], ["ann", 0, 1], ["q", 1, "55" * 16],
               ["t", t0 + H], ["q", 1, "66" * 16], ["p", k + 4], ["t", t0 + 2 * H + 1], ["q", 1, "77" * 16], ["q", 0, "88" * 16]]
    return {"kind": "broker", "preferred": [1, k], "gm_seeds": ["%02x" % (0x21 + i) * 32 for i in range(N_GM)], "keys": keys,
            "srv_seeds": ["%02x" % (0x61 + i) * 32 for i in range(n)], "versions": versions, "events": events}


def history_corpus():
    """one server per documented certificate situation, every expiry walked (expiry-1us, expiry, +1us, +1ms)"""
    import random
    return [undecodable_history()] + [gen_history(random.Random("C33-corpus-%d" % k), fixed={"n": 8, "templates": ["valid-1h", "valid-2h", "expired+valid", "expired", "none",
                                                                                          "wrong-key", "other-server", "tampered"]})
            for k in range(2)]


CORPUS_KINDS = 40


def run(ctx):
    import allmydata.grid_manager as gm_mod
    srv_rng = ctx.subrng("servers")
    srv_strings = server_strings(srv_rng)
    histories = []
    if ctx.replay:
        case = dict(ctx.replay["case"])
        case.pop("at", None)
        if case.get("kind") == "broker":
            histories, cases = [case], []
        else:
            srv_strings = [s.encode("ascii") for s in case.get("srv_strings", [x.decode() for x in srv_strings])]
            cases = [case]
    else:
        corpus_only = bool(os.environ.get("VERIF_CORPUS_ONLY"))
        n = 0 if corpus_only else ctx.budget(600, 25000)
        cases = direct_corpus(srv_strings)
        for _ in range(n):
            c = gen_case(ctx.rng, srv_strings)
            c["srv_strings"] = [s.decode("ascii") for s in srv_strings]
            cases.append(c)
        hrng = ctx.subrng("histories")
        histories = history_corpus() + ([] if corpus_only else [gen_history(hrng) for _ in range(ctx.budget(150, 2500))])
    # (2) broker histories on the virtual clock
    lines_b, impl_b, cases_b, direct, offers = [], [], [], [], []
    workdir = os.path.join(os.path.dirname(os.path.dirname(os.path.dirname(os.path.abspath(__file__)))), ".work")
    real_clock = gm_mod.current_datetime_with_zone
    gm_mod.current_datetime_with_zone = lambda: CLOCK[0]
    try:
        for h in histories:
            run_history(ctx, h, workdir, lines_b, impl_b, cases_b, direct, offers)
    finally:
        gm_mod.current_datetime_with_zone = real_clock
    model_b = ctx.model(lines_b)
    if model_b is not None:
        model_b = [m.split(";", 2)[2] if m.count(";") >= 2 else m for m in model_b]
    ctx.compare("StorageFarmBroker.get_servers_for_psi(for_upload=True) membership over a history vs permitted(t) of the model", cases_b, impl_b, model_b)
    model_o = ctx.model([o[0] for o in offers])
    ctx.compare("get_servers_for_psi on the long-lived broker at each instant vs serversAt (C32 selection composed with the C33 verifier)",
                [o[2] for o in offers], [o[1] for o in offers], model_o)
    if offers:
        ctx.sample({"offer-line": offers[len(offers) // 2][0][:500], "impl": offers[len(offers) // 2][1]})
    model_d = ctx.model([d[1] for d in direct])
    ctx.compare("create_grid_manager_verifier on the certificate sets and instants of the broker histories",
                [d[0] for d in direct], [d[2] for d in direct], model_d)
    if lines_b:
        ctx.sample({"broker-line": lines_b[0][:400], "offered": impl_b[0]})
    if not cases:
        return
    impl, lines = [], []
    for case in cases:
        out, line, res = run_case(ctx, case, srv_strings)
        impl.append(out)
        lines.append(line)
        monitor(ctx, case, res)
        nontrivial = bool(case["keys"]) and bool(case["certs"])
        if res is None:
            ctx.case(("ctor", line) if nontrivial else None)
            ctx.count("result:ctor-error")
        else:
            for t, r in zip(case["times"], res):
                ctx.case((line.rsplit(" ", len(case["times"]))[0], t) if nontrivial else None)
                ctx.count("result:" + r)
        for c in case["certs"]:
            ctx.count("cert:" + c["meta"]["kind"])
        ctx.count("keys:%d" % len(case["keys"]))
    model = ctx.model(lines)
    if model is not None:
        model = [m if "valid=?" not in i else m.replace(m.split(";")[1], "valid=?") for m, i in zip(model, impl)]
    ctx.compare("create_grid_manager_verifier (bad_cert calls, len(valid_certs), answers at each time)",
                [{k: v for k, v in c.items()} for c in cases], impl, model)
    ctx.sample({"line": lines[0], "impl": impl[0]})
    if len(lines) > 1:
        ctx.sample({"line": lines[1], "impl": impl[1]})
