"""C44 — helper-assisted uploads are equivalent to direct uploads."""
import os

ID = "C44"
LEAN_PROPS = "Tahoe.Props.C44"
DRIVER = "C44"
GENERATED = ["immutable"]
SOURCES = ["src/allmydata/immutable/offloaded.py", "src/allmydata/immutable/upload.py"]
DESIGN_REF = "DESIGN.md §2 C44"
TECHNIQUE = ("Lean 4 model of the helper's ciphertext fetch (append-only partial file, resume offset = its size, rename when complete, "
             "bypass when the complete file exists, tail of the partial file lost when the helper dies), of the client-side reader "
             "(EncryptAnUploadable as a plaintext position and a keystream position behind RemoteEncryptedUploadable, skips done in "
             "CHUNKSIZE pieces), of the client's choice of uploader (literal threshold before helper) and cap assembly, and of the "
             "already-present decision as a function of the servers' current get_buckets answers; invariant proofs (partial file is a "
             "prefix of the ciphertext; keystream position = plaintext position) over every interruption pattern and read sequence; "
             "correspondence and monitor on a real offloaded.Helper + AssistedUploader running in-process on harness/grid.py, always "
             "with a twin grid for the direct upload")
LEVEL_TEXT = ("PARTIAL (timing and concurrent clients not modelled; encoder abstract). Proved: for every ciphertext, positive chunk size "
              "and every list of disturbed attempts (n-th read_encrypted fails, helper dies there and loses the tail of the partial file, "
              "failure after the fetch) followed by an undisturbed one, the file the helper encodes from equals the client's ciphertext "
              "(resumed_fetch_eq_ciphertext, incoming_file_is_prefix); the client-side reader returns exactly the ciphertext bytes asked "
              "for, for every sequence of forward reads and every client chunk size, also when a resume makes it skip ahead in several "
              "pieces (client_reader_returns_ciphertext); hence, for any encoder that is a function of ciphertext and parameters, shares, "
              "read-cap and verify-cap equal those of the direct upload (helper_cap_eq_direct_cap), and for files of EVERY size incl. "
              "LIT-sized ones the client with a helper returns the same cap as the client without (upload_with_helper_eq_upload_without, "
              "literal_sizes_bypass_helper, lit_threshold_is_55 pinned to the extracted constant); a file reported present is answered "
              "with no upload helper and no share write (present_not_reuploaded), 'present' implies that every one of the N share numbers "
              "exists on some server now, whatever duplicates exist and whatever the helper placed earlier (present_implies_all_shares, "
              "present_answer_reflects_current_grid, absent_needs_upload). Counterexample theorems show what each seeded change broke "
              "(zero_chunk_counterexample, keystream_lag_counterexample, counting_files_counterexample, helper_first_counterexample, "
              "memory_counterexample). Assumed, not proved here: key and storage index are derived identically on both paths (same client "
              "code, C17); encoding is a function of ciphertext and parameters (C01/C36). Not covered: several clients uploading one "
              "storage index at once (reader pool of AskUntilSuccessMixin), wall-clock timing.")
LEVEL_NOTE = ("Lean kernel + standard axioms (16 theorems, no _partial, no Mathlib); hand-written model; no defect found in /repo for this "
              "property; the harness shrinks CHKCiphertextFetcher.CHUNK_SIZE and EncryptAnUploadable.CHUNKSIZE for most random scenarios "
              "so that small files have many interruption points (the fixed corpus uses the production 50 KiB on both sides).")
RULE = ("fixed families first, independent of the seed (VERIF_CORPUS_ONLY=1 runs only these): 25 histories of remote_read_encrypted on "
        "the real client reader; twin grids at sizes 0, 1, 54, 55, 56, 57 and around segment boundaries for three parameter sets (cap "
        "string, verify-cap, shares, which uploader was picked, literal uploads contact nobody); 6 re-upload scenarios (twin grids, one "
        "reused production Helper: upload, lose share numbers (one / some / below k / all / none) on both grids, upload again); the "
        "interrupted-upload corpus (a 217145-byte file with production 50 KiB chunks on both sides cut before every read 0..last and "
        "after the complete fetch, by error / disconnect / helper restart, a resume of a resume, and a 7-chunk variant with both chunk "
        "sizes 1000 incl. helper crashes losing the tail of the partial file), each resumed and compared with the direct upload (caps, "
        "shares, ciphertext handed to the encoder, downloaded plaintext); 9 pre-existing-copy layouts (healthy / lacking / share "
        "numbers duplicated across servers while others are lost, files >= N with distinct < N and distinct < k / duplicates with all "
        "present / none). Then the same families with random parameters: reader histories, sizes, re-uploads (up to three rounds), "
        "pre-existing copies, and main scenarios k/N/servers/segment size/file size x helper chunk x client chunk x a list of 0..3 "
        "disturbed attempts (error on the i-th read_encrypted, error after the fetch, disconnect at the i-th read, helper crash with "
        "tail loss, helper restart) then a clean attempt, then the same file again (already present), then again after deleting "
        "shares. A case is one scenario or history; distinct = distinct parameters and fault list; non-trivial = at least one "
        "disturbance fired, or a pre-existing / re-upload / boundary-size situation.")
TRUSTED = ["harness/grid.py (LocalWrapper standing in for foolscap references; fault hook)",
           "attach_helper / HelperProxy in harness/props/c44.py that wraps the returned CHKUploadHelper like foolscap would",
           "AES-CTR from `cryptography` as reference for ciphertext and keystream",
           "file-level manipulation of share directories (copy / delete / truncate) to stage churn and crashes",
           "lean/Drv/C44.lean parsers"]
ASSUMPTIONS = ["key and storage index are the same on the helper and the direct path (derived by the same client code before the paths "
               "diverge; caps are compared on every scenario)",
               "encoding is a function of (ciphertext, parameters) (share bytes are compared with the direct upload on every scenario)",
               "shrinking CHKCiphertextFetcher.CHUNK_SIZE and EncryptAnUploadable.CHUNKSIZE changes only the number of reads (the fixed "
               "corpus runs with the production values)",
               "a helper crash leaves a prefix of what was appended (the file is opened in append mode)",
               "share data read through ShareFile.read_share_data is the grid state (leases ignored)"]


class Scenario:
    pass


def gen_scenario(rng, big=False):
    s = Scenario()
    s.n = rng.choice([2, 3, 4, 5])
    s.k = rng.randrange(1, s.n + 1)
    s.num_servers = rng.randrange(1, 7)
    s.maxseg = rng.choice([64, 128, 1000, 131072])
    s.size = rng.choice([56, 57, 100, 199, 256, 333, 500, 777])
    s.chunk = rng.choice([7, 16, 33, 50, 64, 100, 200, 1000])
    if s.chunk >= s.size and rng.random() < 0.7:
        s.chunk = rng.choice([7, 16, 33, 50])
    if big:
        s.size, s.chunk, s.maxseg = 120000 + rng.randrange(5000), 51200, 131072
    nreads = -(-s.size // s.chunk)
    s.faults = []
    for _ in range(rng.choice([0, 1, 1, 2, 2, 3])):
        kind = rng.choice(["r", "r", "r", "e", "d", "c"])
        if kind == "c":
            # helper process dies at that read; only the first `keep` bytes of the partial file survive
            i = rng.randrange(0, nreads + 1)
            s.faults.append(["c", i, "restart", rng.randrange(0, min(s.size, (i + 1) * s.chunk) + 1)])
            continue
        if kind == "e":
            s.faults.append(["e", 0, rng.choice(["keep", "restart"])])
        else:
            s.faults.append([kind, rng.randrange(0, nreads + 1) if rng.random() < 0.9 else nreads + 3, rng.choice(["keep", "keep", "restart"])])
    s.delete = rng.choice(["one", "some", "all"])
    s.policy = rng.choice(["random", "random", "fifo", "lifo"])
    s.seed = rng.randrange(1 << 30)
    # the client reads (and, when the helper resumes, skips) its plaintext in pieces of EncryptAnUploadable.CHUNKSIZE
    # (50 KiB in production = the helper's chunk size): shrink it along, so that a resume offset spans several client reads
    s.enc_chunk = None if big else rng.choice([None, s.chunk, s.chunk, max(1, s.chunk // 2), s.chunk * 2, 13, 64])
    return s


def corpus():
    """Fixed corpus, run first: one multi-chunk file with the production chunk sizes (50 KiB on both sides), the helper
    upload cut after every chunk 0,1,…,last (and after the complete fetch), by error / disconnect / helper restart, then resumed."""
    res = []
    size, chunk = 217145, 51200
    nreads = -(-size // chunk)
    cuts = [("r", i, "keep") for i in range(nreads + 1)] + [("e", 0, "keep"), ("d", 2, "keep"), ("r", 3, "restart")]
    for j, cut in enumerate(cuts):
        s = Scenario()
        s.k, s.n, s.num_servers, s.maxseg = 2, 3, 3, 131072
        s.size, s.chunk, s.enc_chunk = size, chunk, None
        s.faults = [list(cut)]
        s.delete, s.policy, s.seed = "one", "fifo", 4400 + j
        s.corpus = True
        res.append(s)
    # two interruptions in a row (resume of a resume), and a smaller honest variant: both chunk sizes 1000, 7 chunks
    s = Scenario()
    s.k, s.n, s.num_servers, s.maxseg = 2, 3, 3, 131072
    s.size, s.chunk, s.enc_chunk = size, chunk, None
    s.faults = [["r", 2, "keep"], ["r", 1, "restart"]]
    s.delete, s.policy, s.seed, s.corpus = "one", "random", 4490, True
    res.append(s)
    for i in range(8):
        s = Scenario()
        s.k, s.n, s.num_servers, s.maxseg = 3, 4, 4, 1024
        s.size, s.chunk, s.enc_chunk = 6500, 1000, 1000
        s.faults = [["r", i, "keep"]] if i % 3 else [["c", i, "restart", max(0, i * 1000 - 700)]]
        s.delete, s.policy, s.seed, s.corpus = "some", "random", 4500 + i, True
        res.append(s)
    return res


def scenario_dict(s):
    return dict(k=s.k, n=s.n, num_servers=s.num_servers, maxseg=s.maxseg, size=s.size, chunk=s.chunk,
                enc_chunk=getattr(s, "enc_chunk", None),
                faults=[list(f) for f in s.faults], delete=s.delete, policy=s.policy, seed=s.seed)


def scenario_from(d):
    s = Scenario()
    s.__dict__.update({k: d[k] for k in ("k", "n", "num_servers", "maxseg", "size", "chunk", "faults", "delete", "policy", "seed")})
    s.enc_chunk = d.get("enc_chunk")
    return s


def short_used(out):
    """long ciphertexts are compared by digest (keeps replay files small)"""
    import hashlib
    head, sep, used = out.partition(" used=")
    if sep and len(used) > 4000:
        used = "sha256:" + hashlib.sha256(used.encode()).hexdigest()
    return head + sep + used


def share_data(path):
    from allmydata.storage.immutable import ShareFile
    return ShareFile(path).read_share_data(0, 1 << 30)


def write_counts(g):
    tot = {}
    for w in g.wrappers.values():
        for m in ("allocate_buckets", "write", "close", "abort"):
            tot[m] = tot.get(m, 0) + w.counter_by_methname.get(m, 0)
    return tot


def file_len(path):
    return os.path.getsize(path) if os.path.exists(path) else None


def run_scenario(ctx, s):
    import random
    import grid
    from twisted.internet import defer
    from allmydata.immutable import upload, offloaded
    from allmydata import uri as _uri
    from allmydata.storage.server import si_b2a
    from cryptography.hazmat.primitives.ciphers import Cipher, algorithms, modes

    case = scenario_dict(s)
    data = bytes((i * 13 + s.seed) % 251 for i in range(s.size))
    conv = b"c44-convergence!"

    class HelperProxy:
        """the object behind the client's helper reference; the CHKUploadHelper it returns is wrapped like foolscap would"""

        def __init__(self, helper, rt):
            self.h, self.rt, self.owner = helper, rt, None

        def remote_get_version(self):
            return self.h.remote_get_version()

        def remote_upload_chk(self, si):
            d = defer.maybeDeferred(self.h.remote_upload_chk, si)

            def _wrap(res):
                hur, uh = res
                if uh is not None:
                    uh = grid.LocalWrapper(uh, self.rt, self.owner, "uploadhelper")
                return (hur, uh)
            return d.addCallback(_wrap)

    saved_chunk = offloaded.CHKCiphertextFetcher.CHUNK_SIZE
    saved_enc_chunk = upload.EncryptAnUploadable.CHUNKSIZE
    orig_start = offloaded.LocalCiphertextReader.start
    used_ct = []

    def start_spy(self):
        with open(self._encoding_file, "rb") as f:
            used_ct.append(f.read())
        return orig_start(self)
    with grid.Runtime(seed=s.seed, policy=s.policy) as rt:
        g = grid.Grid(grid.fresh_dir("c44"), rt, num_servers=s.num_servers, k=s.k, happy=1, n=s.n, max_segment_size=s.maxseg)
        g2 = grid.Grid(grid.fresh_dir("c44twin"), rt, num_servers=s.num_servers, k=s.k, happy=1, n=s.n, max_segment_size=s.maxseg)
        offloaded.CHKCiphertextFetcher.CHUNK_SIZE = s.chunk
        offloaded.LocalCiphertextReader.start = start_spy
        try:
            c = g.clients[0]
            g.broker.get_stub_server = lambda sid: [x for x in g.broker.servers if x.get_serverid() == sid][0]
            hdir = os.path.join(g.basedir, "helper")
            up = c.getServiceNamed("uploader")
            state = {"helper": None, "w": None}

            def attach(new_helper):
                if new_helper or state["helper"] is None:
                    state["helper"] = offloaded.Helper(hdir, g.broker, c._secret_holder, None, None)
                px = HelperProxy(state["helper"], rt)
                w = grid.LocalWrapper(px, rt, name="helper")
                px.owner = w
                w.version = state["helper"].remote_get_version()
                up._got_versioned_helper(w)
                state["w"] = w
                return w
            # ---- direct upload on the twin grid: the reference
            rd = rt.wait(g2.clients[0].upload(upload.Data(data, convergence=conv)))
            ucap = _uri.from_string(rd.get_uri())
            si = ucap.get_storage_index()
            ref_shares = {shnum: share_data(p) for (_, shnum, p) in g2.share_files(si)}
            enc = Cipher(algorithms.AES(ucap.key), modes.CTR(b"\x00" * 16)).encryptor()
            ct = enc.update(data) + enc.finalize()
            inc_path = os.path.join(hdir, "CHK_incoming", si_b2a(si).decode())
            enc_path = os.path.join(hdir, "CHK_encoding", si_b2a(si).decode())
            # ---- attempts through the helper (the direct reference above ran with the production client-side chunking)
            if getattr(s, "enc_chunk", None):
                upload.EncryptAnUploadable.CHUNKSIZE = s.enc_chunk
            attach(True)
            trace, model_faults, fired_any = [], [], False
            result = None
            for flt in [tuple(f) for f in s.faults] + [("n", 0, "keep")]:
                kind, idx, after = flt[0], flt[1], flt[2]
                keep_bytes = flt[3] if len(flt) > 3 else None
                w = state["w"] if up._helper is not None else attach(False)
                reads = [0]
                fired = [False]

                def fault(methname, args, kwargs, kind=kind, idx=idx, reads=reads, fired=fired, w=w):
                    if methname == "read_encrypted":
                        i = reads[0]
                        reads[0] += 1
                        if kind in ("r", "d", "c") and i == idx:
                            fired[0] = True
                            if kind == "d":
                                w.disconnect()
                            return "error"
                    if methname == "get_all_encoding_parameters" and kind == "e":
                        fired[0] = True
                        return "error"
                    return None
                w.fault = fault
                ok = True
                try:
                    result = rt.wait(c.upload(upload.Data(data, convergence=conv)))
                except grid.Stuck:
                    ok = False
                    ctx.violation("helper-assisted upload never completed", dict(case, attempt=len(trace)), "helper-upload-stuck:%s" % kind)
                except Exception:
                    ok = False
                rt.settle()
                w.fault = None
                if kind == "c" and not ok and os.path.exists(inc_path) and os.path.getsize(inc_path) > keep_bytes:
                    os.truncate(inc_path, keep_bytes)      # the tail that had not reached the disk is gone
                fired_any = fired_any or fired[0]
                trace.append("%s/%s/%d" % tuple(("x" if v is None else v) if not isinstance(v, bool) else int(v)
                                                for v in (file_len(inc_path), file_len(enc_path), ok)))
                model_faults.append({"r": "r%d" % idx, "d": "r%d" % idx, "e": "e", "n": "n", "c": "x%d.%s" % (idx, keep_bytes)}[kind])
                ctx.count("attempt:%s:%s:%s" % (kind, "fired" if fired[0] else "not-fired", "ok" if ok else "failed"))
                if ok:
                    break
                if after == "restart" or up._helper is None:
                    attach(after == "restart")
            case["trace"] = trace
            line = "fetch %d %s %s" % (s.chunk, ct.hex(), ",".join(model_faults))
            want = short_used(";".join(trace) + " used=" + (used_ct[-1].hex() if used_ct else "none"))
            # ---- monitor (from the statement)
            if result is None:
                ctx.violation("the resumed, undisturbed helper upload failed", case, "resumed-upload-failed")
            else:
                if result.get_uri() != rd.get_uri():
                    ctx.violation("read-cap through the helper differs from the direct upload's", dict(case, helper=result.get_uri().decode(),
                                  direct=rd.get_uri().decode()), "helper-readcap-differs")
                if result.get_verifycapstr() != rd.get_verifycapstr():
                    ctx.violation("verify-cap through the helper differs from the direct upload's", case, "helper-verifycap-differs")
                got = {}
                for (srv, shnum, p) in g.share_files(si):
                    body = share_data(p)
                    if shnum in got and got[shnum] != body:
                        ctx.violation("two copies of one share differ", dict(case, shnum=shnum), "share-copies-differ")
                    got[shnum] = body
                if got != ref_shares:
                    bad = sorted(k for k in set(got) | set(ref_shares) if got.get(k) != ref_shares.get(k))
                    ctx.violation("shares produced through the helper%s differ from the direct upload's (shnums %s)" % (
                        " after a resumed transfer" if fired_any else "", bad), dict(case, shnums=bad),
                        "helper-shares-differ:%s" % ("resumed" if fired_any else "uninterrupted"))
                saved_policy = rt.policy
                rt.policy = "fifo"       # the download is only the observer here: deliver in order (lifo can starve it)
                try:
                    from allmydata.util.consumer import MemoryConsumer
                    node = c.create_node_from_uri(result.get_uri())
                    mc = rt.wait(node.read(MemoryConsumer(), 0, s.size), max_steps=300000)
                    back = b"".join(mc.chunks)
                except grid.Stuck:
                    back = None
                    ctx.count("download-inconclusive (scheduler)")
                except Exception as e:
                    back = "download failed: %s" % type(e).__name__
                rt.policy = saved_policy
                if back is not None and back != data:
                    firstbad = next((i for i in range(min(len(back), len(data))) if back[i] != data[i]), min(len(back), len(data))) \
                        if isinstance(back, bytes) else None
                    ctx.violation("downloading the cap returned by the helper-assisted upload%s does not give the file back (%s)" % (
                        " after a resumed transfer" if fired_any else "",
                        "first wrong byte at offset %s" % firstbad if firstbad is not None else back), dict(case, first_wrong_offset=firstbad),
                        "helper-upload-download-differs:%s" % ("resumed" if fired_any else "uninterrupted"))
                if used_ct and used_ct[-1] != ct:
                    ctx.violation("the ciphertext file the helper encoded from differs from the ciphertext", case, "helper-ciphertext-differs")
                if file_len(inc_path) is not None or file_len(enc_path) is not None:
                    ctx.count("helper-files-left-behind")
                # ---- already present: same file again through the helper
                helper = state["helper"]
                if up._helper is None:
                    attach(False)
                c0 = dict(helper._counters)
                w0 = write_counts(g)
                snap0 = {(a, b): share_data(p) for (a, b, p) in g.share_files(si)}
                r2 = rt.wait(c.upload(upload.Data(data, convergence=conv)))
                rt.settle()
                w1 = write_counts(g)
                present = helper._counters["chk_upload_helper.upload_already_present"] - c0["chk_upload_helper.upload_already_present"]
                shn = [b for (a, b, p) in g.share_files(si)]
                plines = ["present 0 %s %d" % (",".join(map(str, shn)) or "-", s.n)]
                pwant = ["present" if present else "need-new"]
                pcases = [dict(case, probe="again", shnums=shn)]
                if len(set(shn)) >= s.n:
                    if not present:
                        ctx.violation("all %d shares are on the grid but the helper did not report the file as already present" % s.n,
                                      case, "present-file-not-reported-present")
                    if w1 != w0:
                        ctx.violation("the helper re-uploaded an already present file (storage write calls %s -> %s)" % (w0, w1),
                                      case, "present-file-reuploaded")
                    if {(a, b): share_data(p) for (a, b, p) in g.share_files(si)} != snap0:
                        ctx.violation("share files changed while the file was reported already present", case, "present-file-shares-changed")
                    ctx.count("already-present-checked")
                if r2.get_uri() != rd.get_uri():
                    ctx.violation("read-cap of the already-present answer differs from the direct upload's", case, "present-readcap-differs")
                # ---- not (fully) present: delete shares, upload again
                prng = random.Random(s.seed)
                files = g.share_files(si)
                if s.delete == "all":
                    doomed = files
                elif s.delete == "one":
                    victim = prng.choice(sorted({b for (a, b, p) in files}))
                    doomed = [f for f in files if f[1] == victim]
                else:
                    doomed = [f for f in files if prng.random() < 0.5]
                for (a, b, p) in doomed:
                    os.unlink(p)
                shn = [b for (a, b, p) in g.share_files(si)]
                c1 = dict(helper._counters)
                r3 = rt.wait(c.upload(upload.Data(data, convergence=conv)))
                rt.settle()
                present3 = helper._counters["chk_upload_helper.upload_already_present"] - c1["chk_upload_helper.upload_already_present"]
                plines.append("present 0 %s %s" % (",".join(map(str, shn)) or "-", s.n if shn else "none"))
                pwant.append("present" if present3 else "need-new")
                pcases.append(dict(case, probe="after-delete", shnums=shn))
                if r3.get_uri() != rd.get_uri():
                    ctx.violation("read-cap after re-upload of a damaged file differs from the direct upload's", case, "reupload-readcap-differs")
                got3 = {b: share_data(p) for (a, b, p) in g.share_files(si)}
                if present3 and len(set(shn)) < s.n:
                    ctx.violation("after shares were deleted the helper still reported the file as already present: share number(s) %s "
                                  "exist on no server and were not restored" % [x for x in range(s.n) if x not in shn],
                                  dict(case, shnums_before_reupload=sorted(set(shn)), shnums_after=sorted(got3)),
                                  "helper-reported-present-but-shares-missing")
                if len(set(shn)) < s.n:
                    ctx.count("reupload-after-delete:%s" % ("present" if present3 else "uploaded"))
                    if not present3 and got3 != ref_shares:
                        ctx.violation("shares after the helper re-uploaded a damaged file differ from the direct upload's", case, "reupload-shares-differ")
                ctx._c44_present = getattr(ctx, "_c44_present", [])
                ctx._c44_present.append((plines, pwant, pcases))
            ctx.case(repr(sorted((k, repr(v)) for k, v in case.items() if k != "trace")) if fired_any else None)
            ctx.count("faults-fired" if fired_any else "no-fault-fired")
            ctx.count("chunks:%d" % min(20, -(-s.size // s.chunk)))
            return case, line, want
        finally:
            offloaded.CHKCiphertextFetcher.CHUNK_SIZE = saved_chunk
            upload.EncryptAnUploadable.CHUNKSIZE = saved_enc_chunk
            offloaded.LocalCiphertextReader.start = orig_start
            g.close()
            g2.close()


# ----------------------------------------------------------------------------- pre-existing copies of the file

LAYOUTS = ["healthy", "lacking", "dup-missing", "dup-missing", "dup-missing-below-k", "dup-all", "none"]


def gen_pre(rng):
    s = Scenario()
    s.n = rng.choice([2, 3, 4, 5])
    s.k = rng.randrange(1, s.n + 1)
    s.num_servers = rng.randrange(2, 7)
    s.maxseg = rng.choice([64, 128, 131072])
    s.size = rng.choice([56, 100, 256, 500])
    s.layout = rng.choice(LAYOUTS)
    s.policy = rng.choice(["random", "random", "fifo", "lifo"])
    s.seed = rng.randrange(1 << 30)
    return s


def pre_corpus():
    """fixed pre-existing-copy cases (independent of VERIF_SEED): share numbers doubled across servers while others are lost
    (files >= N, distinct < N, also distinct < k), plus healthy / lacking / doubled-but-complete / empty grids"""
    res = []
    for j, (k, n, srv, layout) in enumerate([(2, 3, 4, "dup-missing"), (3, 4, 4, "dup-missing"), (3, 5, 6, "dup-missing-below-k"),
                                             (1, 2, 3, "dup-missing"), (2, 4, 5, "dup-missing-below-k"), (2, 3, 4, "healthy"),
                                             (2, 3, 4, "lacking"), (2, 3, 4, "dup-all"), (2, 3, 4, "none")]):
        s = Scenario()
        s.k, s.n, s.num_servers, s.maxseg, s.size = k, n, srv, 128, 300
        s.layout, s.policy, s.seed, s.corpus = layout, "fifo", 4460 + j, True
        res.append(s)
    return res


def pre_dict(s):
    return dict(pre=True, k=s.k, n=s.n, num_servers=s.num_servers, maxseg=s.maxseg, size=s.size, layout=s.layout,
                policy=s.policy, seed=s.seed)


def pre_from(d):
    s = Scenario()
    s.__dict__.update({k: d[k] for k in ("k", "n", "num_servers", "maxseg", "size", "layout", "policy", "seed")})
    return s


def run_preexisting(ctx, s):
    """The grid already holds a copy of the file in some state of (dis)repair; one twin uploads through the real Helper,
    the other directly.  Decision, resulting grid state and caps are compared."""
    import random
    import shutil
    import grid
    from twisted.internet import defer
    from allmydata.immutable import upload, offloaded
    from allmydata import uri as _uri
    from allmydata.storage.server import storage_index_to_dir

    case = pre_dict(s)
    data = bytes((i * 17 + s.seed) % 251 for i in range(s.size))
    conv = b"c44-convergence!"
    prng = random.Random("c44pre-%d" % s.seed)

    class HelperProxy:
        def __init__(self, helper, rt):
            self.h, self.rt, self.owner = helper, rt, None

        def remote_get_version(self):
            return self.h.remote_get_version()

        def remote_upload_chk(self, si):
            d = defer.maybeDeferred(self.h.remote_upload_chk, si)

            def _wrap(res):
                hur, uh = res
                if uh is not None:
                    uh = grid.LocalWrapper(uh, self.rt, self.owner, "uploadhelper")
                return (hur, uh)
            return d.addCallback(_wrap)

    with grid.Runtime(seed=s.seed, policy=s.policy) as rt:
        gH = grid.Grid(grid.fresh_dir("c44preH"), rt, num_servers=s.num_servers, k=s.k, happy=1, n=s.n, max_segment_size=s.maxseg)
        gD = grid.Grid(grid.fresh_dir("c44preD"), rt, num_servers=s.num_servers, k=s.k, happy=1, n=s.n, max_segment_size=s.maxseg)
        try:
            cH, cD = gH.clients[0], gD.clients[0]
            # reference: a direct upload onto gH (no helper attached yet)
            r0 = rt.wait(cH.upload(upload.Data(data, convergence=conv)))
            rt.settle()
            si = _uri.from_string(r0.get_uri()).get_storage_index()
            files = gH.share_files(si)
            ref = {shnum: share_data(p) for (_, shnum, p) in files}
            sidir = storage_index_to_dir(si)
            # ---- bring the copy into the wanted state (ordinary churn: shares got second homes, others were lost)
            allsh = sorted(ref)
            if s.layout == "healthy":
                keep, want_files = set(allsh), 0
            elif s.layout == "none":
                keep, want_files = set(), 0
            elif s.layout == "lacking":
                keep, want_files = set(prng.sample(allsh, prng.randrange(0, len(allsh)))), 0
            elif s.layout == "dup-all":
                keep, want_files = set(allsh), len(files) + prng.randrange(1, 4)
            elif s.layout == "dup-missing-below-k":
                keep = set(prng.sample(allsh, max(1, min(len(allsh) - 1, prng.randrange(1, max(2, s.k))))))
                want_files = s.n + prng.randrange(0, 3)
            else:
                keep = set(prng.sample(allsh, prng.randrange(1, len(allsh)))) if len(allsh) > 1 else set(allsh)
                want_files = s.n + prng.randrange(0, 3)
            for (srv, shnum, path) in files:
                if shnum not in keep:
                    os.unlink(path)
            held = {(srv, shnum): path for (srv, shnum, path) in gH.share_files(si)}
            slots = [(j, sh) for sh in sorted(keep) for j in range(s.num_servers) if (j, sh) not in held]
            prng.shuffle(slots)
            while len(held) < want_files and slots:
                j, sh = slots.pop()
                src = next(pth for (sv, x), pth in sorted(held.items()) if x == sh)
                ddir = os.path.join(gH.storage[j].sharedir, sidir)
                os.makedirs(ddir, exist_ok=True)
                shutil.copyfile(src, os.path.join(ddir, str(sh)))
                held[(j, sh)] = os.path.join(ddir, str(sh))
            # ---- the twin gets a file-level clone of exactly this state
            for i in range(s.num_servers):
                srcd = os.path.join(gH.storage[i].sharedir, sidir)
                dstd = os.path.join(gD.storage[i].sharedir, sidir)
                if os.path.isdir(srcd) and os.listdir(srcd):
                    os.makedirs(os.path.dirname(dstd), exist_ok=True)
                    shutil.copytree(srcd, dstd)
            answers = sorted((srv, sh) for (srv, sh, p) in gH.share_files(si))
            if answers != sorted((srv, sh) for (srv, sh, p) in gD.share_files(si)):
                raise common_infra("twin grid clone differs")
            distinct0 = sorted({sh for (_, sh) in answers})
            case["answers"] = [list(a) for a in answers]
            shape = "%s files%sN distinct%sN%s" % (s.layout, ">=" if len(answers) >= s.n else "<", "=" if len(distinct0) >= s.n else "<",
                                                  " distinct<k" if len(distinct0) < s.k else "")
            ctx.count("pre:" + shape)
            if getattr(s, "corpus", False) and s.layout.startswith("dup-missing") and not (len(answers) >= s.n and len(distinct0) < s.n):
                raise common_infra("pre-existing corpus case %s does not have files >= N with distinct < N: %s" % (s.seed, answers))
            # ---- helper on gH
            gH.broker.get_stub_server = lambda sid: [x for x in gH.broker.servers if x.get_serverid() == sid][0]
            helper = offloaded.Helper(os.path.join(gH.basedir, "helper"), gH.broker, cH._secret_holder, None, None)
            px = HelperProxy(helper, rt)
            w = grid.LocalWrapper(px, rt, name="helper")
            px.owner = w
            w.version = helper.remote_get_version()
            cH.getServiceNamed("uploader")._got_versioned_helper(w)
            w0 = write_counts(gH)
            rH = rD = None
            try:
                rH = rt.wait(cH.upload(upload.Data(data, convergence=conv)))
            except Exception as e:
                ctx.count("pre-helper-upload-failed:" + type(e).__name__)
            rt.settle()
            try:
                rD = rt.wait(cD.upload(upload.Data(data, convergence=conv)))
            except Exception as e:
                ctx.count("pre-direct-upload-failed:" + type(e).__name__)
            rt.settle()
            present = helper._counters["chk_upload_helper.upload_already_present"]
            fetched = helper._counters["chk_upload_helper.fetched_bytes"]
            wrote = write_counts(gH) != w0
            afterH = {}
            for (srv, sh, p) in gH.share_files(si):
                afterH.setdefault(sh, []).append(share_data(p))
            afterD = {}
            for (srv, sh, p) in gD.share_files(si):
                afterD.setdefault(sh, []).append(share_data(p))
            case.update(present=bool(present), fetched=fetched, distinct_before=distinct0,
                        helper_after=sorted(afterH), direct_after=sorted(afterD))
            # ---- monitor (from the statement: helper upload == direct upload; "already present" only for a present file)
            if present and len(distinct0) < s.n:
                missing = [x for x in range(s.n) if x not in distinct0]
                ctx.violation("the helper reported the file as already present (nothing fetched, nothing pushed) although share number(s) %s "
                              "exist on no server (%d share files, %d distinct of N=%d, k=%d)" % (missing, len(answers), len(distinct0), s.n, s.k),
                              case, "helper-reported-present-but-shares-missing")
            if (rH is None) != (rD is None):
                ctx.violation("helper-assisted and direct upload disagree on success (%s vs %s)" % (rH is not None, rD is not None),
                              case, "helper-direct-outcome-differs:" + s.layout)
            if rH is not None and rD is not None:
                if sorted(afterH) != sorted(afterD):
                    ctx.violation("after the upload the helper grid holds share numbers %s, the direct-upload twin %s" % (sorted(afterH), sorted(afterD)),
                                  case, "helper-grid-state-differs-from-direct:" + ("present" if present else "uploaded"))
                if rH.get_uri() != rD.get_uri() or rH.get_uri() != r0.get_uri():
                    ctx.violation("read-cap differs between helper and direct upload onto a pre-existing copy", case, "pre-readcap-differs")
                if rH.get_verifycapstr() != rD.get_verifycapstr():
                    ctx.violation("verify-cap differs between helper and direct upload onto a pre-existing copy", case, "pre-verifycap-differs")
                for name, after in (("helper", afterH), ("direct", afterD)):
                    bad = sorted(sh for sh, bodies in after.items() if any(b != ref.get(sh) for b in bodies))
                    if bad:
                        ctx.violation("share(s) %s on the %s grid differ from the correct share bytes" % (bad, name), case, "pre-share-bytes-differ:" + name)
                if present and (wrote or fetched):
                    ctx.violation("the helper reported already-present but fetched ciphertext or wrote shares", case, "present-but-transferred")
            ctx.case(repr(sorted((k, repr(v)) for k, v in case.items() if k in ("k", "n", "num_servers", "layout", "answers"))))
            ctx.count("pre-decision:%s:%s" % (s.layout, "present" if present else "need-upload"))
            line = "presentp 0 %s %s" % (",".join("%d.%d" % a for a in answers) or "-", s.n if answers else "none")
            return case, line, "present" if present else "need-new"
        finally:
            gH.close()
            gD.close()


def attach_helper(rt, g, c, hdir):
    """a real offloaded.Helper behind LocalWrappers, injected into the client's Uploader"""
    import grid
    from twisted.internet import defer
    from allmydata.immutable import offloaded

    class HelperProxy:
        def __init__(self, helper):
            self.h, self.owner = helper, None

        def remote_get_version(self):
            return self.h.remote_get_version()

        def remote_upload_chk(self, si):
            d = defer.maybeDeferred(self.h.remote_upload_chk, si)

            def _wrap(res):
                hur, uh = res
                if uh is not None:
                    uh = grid.LocalWrapper(uh, rt, self.owner, "uploadhelper")
                return (hur, uh)
            return d.addCallback(_wrap)
    g.broker.get_stub_server = lambda sid: [x for x in g.broker.servers if x.get_serverid() == sid][0]
    helper = offloaded.Helper(hdir, g.broker, c._secret_holder, None, None)
    px = HelperProxy(helper)
    w = grid.LocalWrapper(px, rt, name="helper")
    px.owner = w
    w.version = helper.remote_get_version()
    c.getServiceNamed("uploader")._got_versioned_helper(w)
    return helper, w


def all_calls(g):
    return sum(sum(w.counter_by_methname.values()) for w in g.wrappers.values())


def size_probe(ctx, paramsets, label):
    """Twin grids (one client with the real Helper attached, one without) uploading the same bytes at the LIT/CHK boundary and
    around segment boundaries: same kind of cap, same cap string, same shares; a literal upload contacts neither helper nor servers."""
    import grid
    from allmydata.immutable import upload, offloaded
    from allmydata import uri as _uri
    lines, wants, cases = [], [], []
    saved_chunk = offloaded.CHKCiphertextFetcher.CHUNK_SIZE
    for (k, n, servers, maxseg, seed) in paramsets:
        with grid.Runtime(seed=seed, policy="random") as rt:
            gH = grid.Grid(grid.fresh_dir("c44szH"), rt, num_servers=servers, k=k, happy=1, n=n, max_segment_size=maxseg)
            gD = grid.Grid(grid.fresh_dir("c44szD"), rt, num_servers=servers, k=k, happy=1, n=n, max_segment_size=maxseg)
            offloaded.CHKCiphertextFetcher.CHUNK_SIZE = 50
            try:
                cH, cD = gH.clients[0], gD.clients[0]
                helper, w = attach_helper(rt, gH, cH, os.path.join(gH.basedir, "helper"))
                sizes = [0, 1, 54, 55, 56, 57, maxseg - 1, maxseg, maxseg + 1, 2 * maxseg, 2 * maxseg + 1]
                for size in sorted(set(x for x in sizes if x >= 0)):
                    case = {"probe": "size", "k": k, "n": n, "num_servers": servers, "maxseg": maxseg, "seed": seed, "size": size}
                    data = bytes((i * 7 + size * 31 + seed) % 251 for i in range(size))
                    h0, hw0, sH0, sD0 = helper._counters["chk_upload_helper.upload_requests"], sum(w.counter_by_methname.values()), all_calls(gH), all_calls(gD)
                    rH = rt.wait(cH.upload(upload.Data(data, convergence=b"c44-sizes-conv!!")))
                    rt.settle()
                    rD = rt.wait(cD.upload(upload.Data(data, convergence=b"c44-sizes-conv!!")))
                    rt.settle()
                    asked = helper._counters["chk_upload_helper.upload_requests"] - h0 + sum(w.counter_by_methname.values()) - hw0
                    callsH, callsD = all_calls(gH) - sH0, all_calls(gD) - sD0
                    capH, capD = rH.get_uri(), rD.get_uri()
                    kindH = "literal" if capH.startswith(b"URI:LIT:") else ("assisted" if asked else "direct")
                    kindD = "literal" if capD.startswith(b"URI:LIT:") else "direct"
                    case.update(helper_cap=capH.decode()[:40], direct_cap=capD.decode()[:40], helper_asked=asked)
                    if capH != capD:
                        ctx.violation("a %d-byte file uploaded by a client with a helper got %s, the same client without a helper got %s" % (
                                      size, capH.decode()[:60], capD.decode()[:60]), case, "helper-cap-differs-from-direct:size-%d" % size)
                    if rH.get_verifycapstr() != rD.get_verifycapstr():
                        ctx.violation("verify-cap differs between the helper and the direct path for a %d-byte file" % size, case,
                                      "helper-verifycap-differs-from-direct:size-%d" % size)
                    if kindD == "literal" and (asked or callsH or callsD):
                        ctx.violation("a literal-sized upload (%d bytes) contacted the helper (%d calls) or storage servers (%d / %d calls)" % (
                                      size, asked, callsH, callsD), case, "literal-upload-contacted-helper-or-servers:size-%d" % size)
                    if not capD.startswith(b"URI:LIT:") and not capH.startswith(b"URI:LIT:"):
                        si = _uri.from_string(capD).get_storage_index()
                        sh_h = {b: share_data(p) for (a, b, p) in gH.share_files(si)}
                        sh_d = {b: share_data(p) for (a, b, p) in gD.share_files(si)}
                        if sh_h != sh_d:
                            ctx.violation("shares of a %d-byte file differ between the helper and the direct path" % size, case,
                                          "helper-shares-differ-from-direct:size-%d" % size)
                    elif capD.startswith(b"URI:LIT:") != capH.startswith(b"URI:LIT:"):
                        pass   # already reported as differing caps
                    lines += ["pick 1 %d" % size, "pick 0 %d" % size]
                    wants += [kindH, kindD]
                    cases += [dict(case, path="with-helper"), dict(case, path="without-helper")]
                    ctx.case(("size", label, k, n, maxseg, size))
                    ctx.count("size-probe:%s:%s" % ("lit" if kindD == "literal" else "chk", kindH))
            finally:
                offloaded.CHKCiphertextFetcher.CHUNK_SIZE = saved_chunk
                gH.close()
                gD.close()
    ctx.compare("choice of uploader (literal / helper-assisted / direct) by size", cases, wants, ctx.model(lines))


SIZE_CORPUS = [(1, 2, 2, 64, 4470), (2, 3, 3, 128, 4471), (3, 5, 4, 60, 4472)]


def reader_probe(ctx, rng, n):
    """function-level correspondence for the client-side reader: real EncryptAnUploadable (CHUNKSIZE patched per case) behind a
    real RemoteEncryptedUploadable, answering forward (sometimes backward / beyond-EOF) remote_read_encrypted calls"""
    import grid
    from allmydata.immutable import upload
    from cryptography.hazmat.primitives.ciphers import Cipher, algorithms, modes
    lines, wants, cases = [], [], []
    with grid.Runtime(seed=rng.randrange(1 << 30)) as rt:
        for _ in range(n):
            size = rng.choice([56, 60, 100, 150, 257])
            chunk = rng.choice([1, 3, 7, 16, 50, 64, 300])
            data = bytes(rng.randrange(256) for _ in range(size))
            u = upload.Data(data, convergence=b"c44-reader-probe")
            u.set_default_encoding_parameters({"k": 2, "happy": 1, "n": 3, "max_segment_size": 64})
            eu = upload.EncryptAnUploadable(u, chunk_size=chunk)
            reu = upload.RemoteEncryptedUploadable(eu, upload.UploadStatus())
            key = rt.wait(u.get_encryption_key())
            ks = Cipher(algorithms.AES(key), modes.CTR(b"\x00" * 16)).encryptor().update(b"\x00" * size)
            ct = bytes(a ^ b for a, b in zip(data, ks))
            reads, outs, pos = [], [], 0
            first = True
            for _ in range(rng.randrange(1, 6)):
                if rng.random() < 0.1 and pos > 0:
                    off = rng.randrange(0, pos)                       # backwards: refused
                else:
                    off = pos + (rng.choice([0, 0, 1, 5, 20, 60, 120]) if not first or rng.random() < 0.7 else 0)
                first = False
                ln = rng.choice([0, 1, 7, 16, 50, 100])
                if off > size and rng.random() < 0.8:
                    off = min(off, size)
                try:
                    got = b"".join(rt.wait(reu.remote_read_encrypted(off, ln)))
                    outs.append(got.hex() or "-")
                    if off + ln <= size and got != ct[off:off + ln]:
                        ctx.violation("the client-side reader returned wrong ciphertext for bytes [%d, %d) after skipping from %d" % (off, off + ln, pos),
                                      {"probe": "reader", "size": size, "chunk": chunk, "reads": reads + [[off, ln]]}, "client-reader-wrong-ciphertext")
                    pos = off + len(got)
                except AssertionError:
                    outs.append("N")
                reads.append([off, ln])
            lines.append("reader %d %s %s %s" % (chunk, data.hex(), ks.hex(), ",".join("%d:%d" % tuple(r) for r in reads)))
            wants.append(";".join(outs))
            cases.append({"probe": "reader", "size": size, "chunk": chunk, "reads": reads})
            ctx.case(("reader", size, chunk, tuple(map(tuple, reads))))
            ctx.count("reader-histories")
    ctx.compare("client-side reader: bytes returned by remote_read_encrypted for a sequence of (offset, length)", cases, wants, ctx.model(lines))


# ----------------------------------------------------------------------------- re-upload through one long-lived helper

def reupload_corpus():
    res = []
    for j, (k, n, srv, lose) in enumerate([(2, 3, 3, "one"), (3, 4, 4, "below-k"), (1, 2, 2, "one"), (2, 4, 5, "all"),
                                           (3, 5, 4, "some"), (2, 3, 3, "none")]):
        s = Scenario()
        s.k, s.n, s.num_servers, s.maxseg, s.size, s.lose, s.rounds = k, n, srv, 128, 300, lose, 2
        s.policy, s.seed, s.corpus = "fifo", 4480 + j, True
        res.append(s)
    return res


def gen_reupload(rng):
    s = Scenario()
    s.n = rng.choice([2, 3, 4, 5])
    s.k = rng.randrange(1, s.n + 1)
    s.num_servers = rng.randrange(1, 7)
    s.maxseg = rng.choice([64, 128, 131072])
    s.size = rng.choice([56, 100, 300, 700])
    s.lose = rng.choice(["one", "some", "below-k", "all", "none"])
    s.rounds = rng.choice([1, 2, 2, 3])
    s.policy = rng.choice(["random", "random", "fifo", "lifo"])
    s.seed = rng.randrange(1 << 30)
    return s


def reupload_dict(s):
    return dict(reupload=True, k=s.k, n=s.n, num_servers=s.num_servers, maxseg=s.maxseg, size=s.size, lose=s.lose, rounds=s.rounds,
                policy=s.policy, seed=s.seed)


def reupload_from(d):
    s = Scenario()
    s.__dict__.update({k: d[k] for k in ("k", "n", "num_servers", "maxseg", "size", "lose", "rounds", "policy", "seed")})
    return s


def run_reupload(ctx, s):
    """Two identical grids; the file is uploaded directly on one and through ONE long-lived production Helper on the other; then,
    `rounds` times: the same share numbers disappear from both grids and the same file is uploaded again on both.  After every
    re-upload both grids must hold the same shares and the file must download from both."""
    import random
    import grid
    from allmydata.immutable import upload
    from allmydata import uri as _uri
    from allmydata.util.consumer import MemoryConsumer
    case = reupload_dict(s)
    data = bytes((i * 19 + s.seed) % 251 for i in range(s.size))
    conv = b"c44-convergence!"
    prng = random.Random("c44re-%d" % s.seed)
    events, queries = [], []

    def download(rt, c, cap):
        saved = rt.policy
        rt.policy = "fifo"
        try:
            mc = rt.wait(c.create_node_from_uri(cap).read(MemoryConsumer(), 0, s.size), max_steps=300000)
            return b"".join(mc.chunks)
        except grid.Stuck:
            return None
        except Exception as e:
            return "download failed: %s" % type(e).__name__
        finally:
            rt.policy = saved
    with grid.Runtime(seed=s.seed, policy=s.policy) as rt:
        gH = grid.Grid(grid.fresh_dir("c44reH"), rt, num_servers=s.num_servers, k=s.k, happy=1, n=s.n, max_segment_size=s.maxseg)
        gD = grid.Grid(grid.fresh_dir("c44reD"), rt, num_servers=s.num_servers, k=s.k, happy=1, n=s.n, max_segment_size=s.maxseg)
        try:
            cH, cD = gH.clients[0], gD.clients[0]
            helper, w = attach_helper(rt, gH, cH, os.path.join(gH.basedir, "helper"))     # one helper for the whole scenario
            known = set()

            def note_grid(si):
                now = {(a, b) for (a, b, p) in gH.share_files(si)}
                for (a, b) in sorted(known - now):
                    events.append("l.%d.%d" % (a, b))
                for (a, b) in sorted(now - known):
                    events.append("p.%d.%d" % (a, b))
                known.clear()
                known.update(now)
            rD = rt.wait(cD.upload(upload.Data(data, convergence=conv)))
            si = _uri.from_string(rD.get_uri()).get_storage_index()
            ref = {b: share_data(p) for (a, b, p) in gD.share_files(si)}
            for rnd in range(s.rounds + 1):
                if rnd > 0:
                    # the same share numbers disappear from both grids
                    allsh = sorted(ref)
                    if s.lose == "none":
                        victims = []
                    elif s.lose == "one":
                        victims = [prng.choice(allsh)]
                    elif s.lose == "all":
                        victims = allsh
                    elif s.lose == "below-k":
                        victims = prng.sample(allsh, min(len(allsh), len(allsh) - s.k + 1))
                    else:
                        victims = [x for x in allsh if prng.random() < 0.5]
                    for g in (gH, gD):
                        for (a, b, p) in g.share_files(si):
                            if b in victims:
                                os.unlink(p)
                    case["lost_round_%d" % rnd] = victims
                    rD = rt.wait(cD.upload(upload.Data(data, convergence=conv)))
                    rt.settle()
                note_grid(si)
                before = sorted({b for (a, b, p) in gH.share_files(si)})
                c0 = helper._counters["chk_upload_helper.upload_already_present"]
                rH = rt.wait(cH.upload(upload.Data(data, convergence=conv)))
                rt.settle()
                present = helper._counters["chk_upload_helper.upload_already_present"] - c0
                events.append("q")
                queries.append("present" if present else "need")
                note_grid(si)
                shH = {}
                for (a, b, p) in gH.share_files(si):
                    shH.setdefault(b, []).append(share_data(p))
                shD = {}
                for (a, b, p) in gD.share_files(si):
                    shD.setdefault(b, []).append(share_data(p))
                cs = dict(case, round=rnd, helper_grid_before=before, helper_grid_after=sorted(shH), direct_grid_after=sorted(shD),
                          reported_present=bool(present))
                what = "first upload" if rnd == 0 else "re-upload %d after losing share numbers %s" % (rnd, case["lost_round_%d" % rnd])
                # ---- monitor (statement level): helper-assisted == direct
                if rH.get_uri() != rD.get_uri() or rH.get_verifycapstr() != rD.get_verifycapstr():
                    ctx.violation("%s: caps differ between the helper and the direct path" % what, cs, "reupload-caps-differ")
                if sorted(shH) != sorted(shD):
                    ctx.violation("%s: the helper grid holds share numbers %s, the direct-upload twin %s (reported already present: %s)" % (
                                  what, sorted(shH), sorted(shD), bool(present)), cs,
                                  "helper-reupload-grid-state-differs-from-direct:%s" % ("present" if present else "uploaded"))
                if present and len(before) < s.n:
                    ctx.violation("%s: the helper reported the file as already present although only share numbers %s of N=%d existed" % (
                                  what, before, s.n), cs, "helper-reported-present-but-shares-missing")
                for name, sh in (("helper", shH), ("direct", shD)):
                    bad = sorted(b for b, bodies in sh.items() if any(x != ref.get(b) for x in bodies))
                    if bad:
                        ctx.violation("%s: share(s) %s on the %s grid differ from the correct bytes" % (what, bad, name), cs, "reupload-share-bytes-differ:" + name)
                backD = download(rt, cD, rD.get_uri())
                backH = download(rt, cH, rH.get_uri())
                if backD is not None and backD == data and backH is not None and backH != data:
                    ctx.violation("%s: the file downloads from the direct-upload grid but not from the helper grid (%s; %d distinct shares, k=%d)" % (
                                  what, backH if isinstance(backH, str) else "wrong bytes", len(shH), s.k), cs, "helper-reupload-not-downloadable")
                ctx.count("reupload:%s:round%d:%s" % (s.lose, min(rnd, 1), "present" if present else "uploaded"))
            ctx.case(repr(sorted(case.items())))
            return case, "hist %d %s" % (s.n, ",".join(events)), ",".join(queries)
        finally:
            gH.close()
            gD.close()


def common_infra(msg):
    import common
    return common.InfraError(msg)


def run(ctx):
    import common
    common.setup_impl_path()
    try:
        from twisted.logger import globalLogBeginner
        globalLogBeginner.beginLoggingTo([lambda event: None], redirectStandardIO=False, discardBuffer=True)
    except Exception:
        pass
    pre = []
    if ctx.replay and isinstance(ctx.replay.get("case"), dict) and ctx.replay["case"].get("reupload"):
        case, line, want = run_reupload(ctx, reupload_from(ctx.replay["case"]))
        ctx.compare("already-present answers over a history of the grid (one long-lived helper)", [case], [want], ctx.model([line]))
        return
    if ctx.replay and isinstance(ctx.replay.get("case"), dict) and ctx.replay["case"].get("probe") == "size":
        cs = ctx.replay["case"]
        size_probe(ctx, [(cs["k"], cs["n"], cs["num_servers"], cs["maxseg"], cs["seed"])], "replay")
        return
    if ctx.replay and isinstance(ctx.replay.get("case"), dict) and ctx.replay["case"].get("probe") == "reader":
        import random
        reader_probe(ctx, random.Random("c44-reader-corpus"), 25)
        reader_probe(ctx, ctx.subrng("reader"), ctx.budget(60, 1500))
        return
    if ctx.replay and isinstance(ctx.replay.get("case"), dict) and ctx.replay["case"].get("pre"):
        scen, pre = [], [pre_from(ctx.replay["case"])]
    elif ctx.replay and isinstance(ctx.replay.get("case"), dict) and "chunk" in ctx.replay["case"]:
        scen = [scenario_from(ctx.replay["case"])]
    else:
        prng = ctx.subrng("pre")
        pre = [gen_pre(prng) for _ in range(ctx.budget(50, 1000))]
        scen = [gen_scenario(ctx.rng) for _ in range(ctx.budget(60, 2000))]
        scen.append(gen_scenario(ctx.rng, big=True))
    lines, wants, cases = [], [], []

    def run_main(lst):
        for s in lst:
            if len(ctx.violations) >= 50:
                break          # the report is capped at 50
            case, line, want = run_scenario(ctx, s)
            if line:
                lines.append(line)
                wants.append(want)
                cases.append(dict(case, line=line if len(line) < 600 else line[:600] + "…"))
                if getattr(s, "corpus", False):
                    ctx.count("corpus-scenarios")
    corpus_only = bool(os.environ.get("VERIF_CORPUS_ONLY"))
    if not ctx.replay:
        import random
        reader_probe(ctx, random.Random("c44-reader-corpus"), 25)        # fixed
        size_probe(ctx, SIZE_CORPUS, "corpus")                           # fixed: LIT/CHK boundary and segment boundaries
        relist = reupload_corpus()                                       # fixed: lose shares, re-upload through the same helper
        if not corpus_only:
            rr = ctx.subrng("reupload")
            relist += [gen_reupload(rr) for _ in range(ctx.budget(14, 800))]
        rl, rw, rc = [], [], []
        for rs in relist:
            if len(ctx.violations) >= 50:
                break
            case, line, want = run_reupload(ctx, rs)
            rl.append(line)
            rw.append(want)
            rc.append(case)
        ctx.compare("already-present answers over a history of the grid (one long-lived helper)", rc, rw, ctx.model(rl))
        if not corpus_only:
            zr = ctx.subrng("sizes")
            size_probe(ctx, [(kk, nn, zr.randrange(1, 6), zr.choice([56, 64, 100, 128, 1000]), zr.randrange(1 << 30))
                             for (kk, nn) in [(lambda n_: (zr.randrange(1, n_ + 1), n_))(zr.choice([2, 3, 4, 5]))
                                              for _ in range(ctx.budget(2, 60))]], "random")
            reader_probe(ctx, ctx.subrng("reader"), ctx.budget(60, 1500))
        run_main(corpus())       # fixed corpus first: every cut point of a multi-chunk file, production chunk sizes
        pre = pre_corpus() + ([] if corpus_only else pre)
        if corpus_only:
            scen = []
            ctx.note("VERIF_CORPUS_ONLY: random families skipped")
    ql, qw, qc = [], [], []
    for s in pre:
        if len(ctx.violations) >= 50:
            break
        case, line, want = run_preexisting(ctx, s)
        ql.append(line)
        qw.append(want)
        qc.append(case)
    ctx.compare("already-present decision on a pre-existing copy (get_buckets answers as (server, share number) pairs)",
                qc, qw, ctx.model(ql))
    run_main(scen)
    outs = ctx.model(lines)
    ctx.compare("helper ciphertext fetch: incoming/encoding file sizes after every attempt and the ciphertext handed to the encoder",
                cases, wants, None if outs is None else [short_used(o) for o in outs])
    pl, pw, pc = [], [], []
    for (a, b, c) in getattr(ctx, "_c44_present", []):
        pl += a
        pw += b
        pc += c
    ctx.compare("already-present decision of Helper.remote_upload_chk", pc, pw, ctx.model(pl))
    if cases:
        ctx.sample({k: v for k, v in cases[0].items() if k != "line"})


def replay(ctx, replay_obj):
    ctx.replay = replay_obj
    return run(ctx)
