"""C05 — convergent capabilities and literal files."""
ID = "C05"
LEAN_PROPS = "Tahoe.Props.C05"
DRIVER = "C05"
GENERATED = ["immutable"]
SOURCES = ["src/allmydata/immutable/upload.py", "src/allmydata/util/hashutil.py", "src/allmydata/util/netstring.py",
           "src/allmydata/immutable/literal.py", "src/allmydata/uri.py"]
DESIGN_REF = "DESIGN.md §2 C05"
TECHNIQUE = ("Lean 4 theorems over an executable model of _convergence_hasher_tag (decimal rendering, netstring framing), the "
             "chunked key-hashing loop over an abstract incremental hasher (law update(update(s,a),b) = update(s,a++b)), what "
             "Uploader.upload asks of an IUploadable (size, read in any piece sizes incl. short reads on the literal path, keys), "
             "the literal threshold with the broker's server list as an input, and cap assembly; differential correspondence of "
             "tags, keys, storage indexes, read(pos,len) calls and caps against hashutil and the real Uploader (Data, "
             "FileHandle over BytesIO / rb files / unflushed w+b and temporary files / descriptor-less wrappers, FileName, "
             "piece-list uploadables, varied CHUNKSIZE, grids with and without servers) with the driver running an executable "
             "SHA-256d and an independent hashlib re-derivation; a fixed corpus runs first; implementation-side monitor "
             "(same data+secret+params -> same cap from every source; different secret/k/N/segment size -> different storage "
             "index; <= 55 bytes -> LIT cap, no server call, also with zero servers; no secret -> distinct random keys)")
LEVEL_TEXT = ("cap_deterministic, cap_source_independent, source_cap_is_uploadCap (any uploadable keeping the IUploadable "
              "contract), chunking_irrelevant, params_separate (tag and hashed-input injectivity), lit_threshold, "
              "literal_any_source, lit_needs_no_servers (literal result for every server count incl. zero; CHK without "
              "servers fails), random_key_is_input, constants_pinned - all proved for all inputs over an abstract lawful "
              "hasher.  Not theorems: that distinct hashed inputs give distinct 16-byte keys / storage indexes (collision "
              "resistance of truncated SHA-256d) and freshness of os.urandom - monitored only.")
LEVEL_NOTE = ("Lean kernel + standard axioms; SHA-256d is a parameter in the theorems (hashlib's incremental-update law is an "
              "explicit hypothesis with a satisfying instance) and an executable implementation in the driver; collision "
              "resistance is never assumed: params_separate is about the hashed byte strings.")
RULE = ("fixed corpus first (independent of VERIF_SEED; VERIF_CORPUS_ONLY=1 stops here): convergent keys for one (k,N,secret) "
        "and changing segment sizes in one process, empty secret b\"\" re-uploads, multi-piece IUploadable.read vs Data, "
        "literal uploads on clients without servers, unflushed / repositioned / descriptor-less file objects vs Data. Then: "
        "one case = one upload through the real Uploader (or one hashutil tag/key evaluation); sources as in the corpus plus "
        "short-reading key-hash reads and odd-sized chunk lists; sizes 0..~100 KiB (thorough 300 KiB) concentrated on "
        "54/55/56, 8191..8193 and segment boundaries; parameter variations of secret, k, N, max_segment_size; zero-server "
        "grids (never had servers / all removed / broker emptied); distinct = distinct (data seed, size, source, secret, k, "
        "n, maxSeg); non-trivial = CHK path or a literal with non-empty data")
TRUSTED = ["lean/Tahoe/Immutable/Convergence.lean and Uploadable.lean are hand transcriptions of hashutil."
           "_convergence_hasher_tag / convergence_hasher, FileHandle._get_encryption_key_convergent/_random, "
           "read_this_many_bytes, EncryptAnUploadable.read_encrypted and Uploader.upload's LIT/CHK decision (threshold first, "
           "servers consulted only on the CHK branch)",
           "lean/Tahoe/Base/Sha256.lean (executable SHA-256 used only by the driver; compared with hashlib on every case)"]
ASSUMPTIONS = ["hashlib objects satisfy update(a); update(b) == update(a+b) (hypothesis Hasher.Lawful)",
               "uploadables keep the IUploadable contract (hypotheses Supplies / SuppliesShort): get_size() is the byte count, "
               "read(length) returns the next bytes (exactly `length` unless at EOF when the encoder reads; any non-empty "
               "prefix on the literal path)",
               "os.urandom output is an input of the model; 'fresh' means only that two uploads without a convergence secret "
               "observed different keys",
               "distinct hashed inputs giving distinct truncated hashes is not assumed and not proved (monitored)",
               "observed outside the contract: a file object that short-reads the encoder's reads makes a multi-segment "
               "upload fail with a precondition AssertionError and a single-segment upload return a cap whose file cannot "
               "be downloaded (BadCiphertextHashError)"]

import io
import random

from common import hx


class ShortFile:
    """file object whose read(n) is short (never empty before EOF) for the request sizes in `short_for` (None = all)"""

    def __init__(self, data, rng, short_for=(65536,)):
        self.b = io.BytesIO(data)
        self.n = len(data)
        self.rng = rng
        self.short_for = short_for
        self.reads = []

    def seek(self, *a):
        return self.b.seek(*a)

    def tell(self):
        return self.b.tell()

    def read(self, n=-1):
        rem = self.n - self.b.tell()
        m = rem if (n is None or n < 0) else min(n, rem)
        if m > 1 and (self.short_for is None or n in self.short_for):
            m = self.rng.choice([1, m, self.rng.randrange(1, m + 1), self.rng.randrange(1, m + 1)])
        r = self.b.read(m)
        if n == 65536:
            self.reads.append(r)
        return r

    def close(self):
        pass


def make_chunky(upload):
    class ChunkyFileHandle(upload.FileHandle):
        """IUploadable.read returning a *list* of odd-sized chunks that add up to the requested length"""

        def __init__(self, fh, convergence, rng):
            upload.FileHandle.__init__(self, fh, convergence)
            self._rng = rng

        def read(self, length):
            from twisted.internet import defer
            data = self._filehandle.read(length)
            out = []
            i = 0
            while i < len(data):
                step = self._rng.choice([1, 3, 7, 15, 17, 33, 1023, 4097, len(data)])
                out.append(data[i:i + step])
                i += step
            if self._rng.random() < 0.3:
                out.insert(self._rng.randrange(0, len(out) + 1), b"")     # empty strings are legal list members
            return defer.succeed(out)
    return ChunkyFileHandle


def run_hashutil(ctx):
    """tag bytes and convergence_hash vs the driver; hashlib reference for the chunked hasher"""
    from allmydata.util import hashutil
    import hashlib
    rng = ctx.rng
    lines, impl, metas = [], [], []
    for _ in range(ctx.budget(400, 6000)):
        k = rng.choice([0, 1, 2, 3, 10, 255, 256, 257, rng.randrange(0, 300)])
        n = rng.choice([k, k, max(0, k - 1), 10, 256, 257, rng.randrange(0, 300)])
        seg = rng.choice([0, 1, 9, 10, 99, 100, 1024, 131072, 1048576, 10 ** 9, rng.randrange(0, 10 ** 7)])
        secret = bytes(rng.randrange(256) for _ in range(rng.choice([0, 1, 9, 10, 16, 32, 99, 100, 101])))
        case = {"kind": "tag", "t": [k, n, seg, secret.hex()]}
        try:
            tag = hashutil._convergence_hasher_tag(k, n, seg, secret)
            out = hx(tag)
        except ValueError:
            tag, out = None, "ValueError"
        lines.append("tag %d %d %d %s" % (k, n, seg, hx(secret)))
        impl.append(out)
        metas.append(case)
        ctx.count("tag:" + ("ok" if tag is not None else "ValueError"))
        if tag is None:
            ctx.case(None)
            continue
        size = rng.choice([0, 1, 55, 56, 100, rng.randrange(0, 3000)])
        data = bytes(rng.randrange(256) for _ in range(size))
        # arbitrary chunking of the data, fed to the real hasher
        h = hashutil.convergence_hasher(k, n, seg, secret)
        chunks = []
        i = 0
        while i < len(data):
            step = rng.choice([1, 2, 63, 64, 65, 1000, len(data)])
            chunks.append(data[i:i + step])
            i += step
        for c in chunks:
            h.update(c)
        key = h.digest()
        ref = hashlib.sha256(hashlib.sha256(b"%d:%s," % (len(tag), tag) + data).digest()).digest()[:16]
        if key != ref or key != hashutil.convergence_hash(k, n, seg, data, secret):
            ctx.violation("chunked convergence hasher differs from the one-shot hash of the same bytes", case, "hasher-chunking")
        lines.append("key %d %d %d %s %s" % (k, n, seg, hx(secret), ",".join(hx(c) for c in chunks) or "."))
        impl.append("%s;%s" % (hx(key), hx(hashutil.storage_index_hash(key))))
        metas.append(dict(case, size=size, chunks=len(chunks)))
        ctx.case(("tag", k, n, seg, secret.hex(), size))
    model = ctx.model(lines)
    if model is not None:
        ctx.compare("_convergence_hasher_tag bytes / convergent key + storage index", metas, impl, model)


def counters(g):
    return {i: dict(w.counter_by_methname) for i, w in g.wrappers.items()}


def run_uploads(ctx):
    import grid
    from allmydata.immutable import upload
    from allmydata import uri
    rng = ctx.rng
    thorough = ctx.tier == "thorough"
    Chunky = make_chunky(upload)
    lines, impl, metas = [], [], []
    n_grids = ctx.budget(14, 120)
    for gi in range(n_grids):
        k = rng.choice([1, 2, 3, 3, 4])
        n = rng.randrange(k, k + 4)
        max_seg = rng.choice([16, 48, 128, 1024, 4096, 131072, 1048576])
        secret = bytes(rng.randrange(256) for _ in range(rng.choice([0, 16, 32])))
        seed = rng.randrange(1 << 30)
        with grid.Runtime(seed=seed, policy=rng.choice(["random", "fifo"])) as rt:
            g = grid.Grid(grid.fresh_dir("c05"), rt, num_servers=n, num_clients=1, k=k, happy=1, n=n, max_segment_size=max_seg)
            try:
                c = g.clients[0]

                def do_upload(u, kk=None, nn=None, ms=None):
                    if kk is not None:
                        u.encoding_param_k, u.encoding_param_n, u.encoding_param_happy = kk, nn, 1
                    if ms is not None:
                        u.max_segment_size = ms
                    return rt.wait(c.upload(u))

                lim = 300 * 1024 if thorough else 100 * 1024
                sizes = [0, 1, 54, 55, 56, 57, max_seg, max_seg + 1, max(56, max_seg - 1), 2 * max_seg + 3, 65536, 65537,
                         rng.randrange(0, 56), rng.randrange(56, 3000), rng.randrange(56, lim)]
                rng.shuffle(sizes)
                for size in sizes[: ctx.budget(10, 15)]:
                    size = min(size, lim)
                    seg_eff = -(-min(max_seg, size) // k) * k
                    while seg_eff and -(-size // seg_eff) > 300:      # bound the number of segments
                        size //= 2
                        seg_eff = -(-min(max_seg, size) // k) * k
                    dseed = rng.randrange(1 << 30)
                    drng = random.Random(dseed)
                    data = bytes(drng.randrange(256) for _ in range(min(size, 2048)))
                    data = (data * (size // max(1, len(data)) + 1))[:size]
                    case = {"kind": "upload", "size": size, "dseed": dseed, "k": k, "n": n, "maxSeg": max_seg,
                            "secret": secret.hex(), "seed": seed}
                    before = counters(g)
                    sf = ShortFile(data, random.Random(dseed + 1), short_for=(65536,) if size > 55 else None)
                    sources = [("Data", lambda: upload.Data(data, convergence=secret)),
                               ("FileHandle", lambda: upload.FileHandle(io.BytesIO(data), convergence=secret)),
                               ("ShortReadFile", lambda: upload.FileHandle(sf, convergence=secret)),
                               ("ChunkLists", lambda: Chunky(io.BytesIO(data), secret, random.Random(dseed + 2)))]
                    caps = []
                    shares_seen = []
                    for name, mk in sources:
                        try:
                            res = do_upload(mk())
                        except Exception as ex:
                            ctx.violation("upload from source %s failed" % name, dict(case, source=name),
                                          "upload-failed-%s-%s" % (name, type(ex).__name__), repr(ex)[:300])
                            caps.append(None)
                            continue
                        caps.append(res.get_uri())
                        shares_seen.append(res.get_pushed_shares() + res.get_preexisting_shares())
                        ctx.case(("U", dseed, size, name, secret.hex(), k, n, max_seg) if size > 0 else None)
                        ctx.count("source:" + name)
                    good = [x for x in caps if x is not None]
                    if len(set(good)) > 1:
                        ctx.violation("the same data, secret and parameters give different caps from different sources / chunkings",
                                      dict(case, caps=[x.decode() if x else None for x in caps]),
                                      "cap-differs-by-source-" + ("lit" if size <= 55 else "chk"))
                    if not good:
                        continue
                    cap = uri.from_string(good[0])
                    if size <= 55:
                        ctx.count("cap:LIT")
                        if not isinstance(cap, uri.LiteralFileURI) or cap.data != data:
                            ctx.violation("a file of <= 55 bytes did not get a literal cap embedding its data", case, "lit-cap-size-%d" % size)
                        if counters(g) != before:
                            ctx.violation("a literal upload contacted a storage server", case, "lit-server-call")
                        out = "LIT;%s;0" % hx(getattr(cap, "data", b""))
                    else:
                        ctx.count("cap:CHK")
                        if not isinstance(cap, uri.CHKFileURI):
                            ctx.violation("a file of > 55 bytes got a literal cap", case, "chk-cap-size-%d" % size)
                            continue
                        if (cap.needed_shares, cap.total_shares, cap.size) != (k, n, size) or len(cap.key) != 16:
                            ctx.violation("CHK cap fields differ from the parameters", case, "chk-cap-fields")
                        out = "CHK;%s;%d;%d;%d;%s;%d" % (hx(cap.key), cap.needed_shares, cap.total_shares, cap.size,
                                                        hx(cap.get_storage_index()), shares_seen[0])
                        # ---- parameter separation / determinism (monitor, straight from the statement)
                        base = (secret, k, n, seg_eff)
                        variants = []
                        s2 = bytes(rng.randrange(256) for _ in range(16))
                        variants.append(("secret", s2, k, n, max_seg))
                        if k + 1 <= n:
                            variants.append(("k", secret, k + 1, n, max_seg))
                        variants.append(("N", secret, k, n + 1, max_seg))
                        ms2 = rng.choice([max(1, max_seg // 2), max_seg * 2, max_seg + k, max(1, max_seg - 1), max_seg + 1])
                        variants.append(("maxSeg", secret, k, n, ms2))
                        for what, sv, kv, nv, msv in variants[: 2 if not thorough else 4] if rng.random() < 0.7 else variants:
                            seg_v = -(-min(msv, size) // kv) * kv
                            if size and -(-size // seg_v) > 400:
                                continue
                            try:
                                rv = do_upload(upload.Data(data, convergence=sv), kv, nv, msv)
                            except Exception as ex:
                                ctx.violation("upload with varied %s failed" % what, dict(case, vary=what),
                                              "variant-upload-failed-" + type(ex).__name__, repr(ex)[:300])
                                continue
                            cv = uri.from_string(rv.get_uri())
                            same_tuple = (sv, kv, nv, seg_v) == base
                            ctx.count("variant:%s:%s" % (what, "same-tuple" if same_tuple else "different"))
                            ctx.case(("V", dseed, size, what, kv, nv, msv))
                            if same_tuple and rv.get_uri() != good[0]:
                                ctx.violation("same (plaintext, secret, k, N, segment size) but a different cap", dict(case, vary=what, to=msv),
                                              "cap-not-deterministic-" + what)
                            if not same_tuple and cv.get_storage_index() == cap.get_storage_index():
                                ctx.violation("changing %s left the storage index unchanged" % what,
                                              dict(case, vary=what, to=[sv.hex(), kv, nv, msv]), "si-not-separated-" + what)
                        # ---- no convergence secret: distinct random keys
                        if rng.random() < 0.4:
                            r1 = do_upload(upload.Data(data, convergence=None))
                            r2 = do_upload(upload.Data(data, convergence=None))
                            k1, k2 = uri.from_string(r1.get_uri()), uri.from_string(r2.get_uri())
                            ctx.count("random-key-pairs")
                            ctx.case(("Rnd", dseed, size))
                            if k1.key == k2.key or k1.key == cap.key or len(k1.key) != 16:
                                ctx.violation("uploads without a convergence secret did not get distinct random keys", case, "random-key-reused")
                    # the read pattern the key-hashing loop saw (only the CHK path hashes)
                    chunks = [r for r in sf.reads] if size > 55 else []
                    lines.append("capon %d %s 00 %d %d %d %s %s" % (n, hx(secret) if secret else "-", k, n, max_seg, hx(data),
                                                             ",".join(hx(ch) for ch in chunks) or "."))
                    impl.append(out)
                    metas.append(case)
            finally:
                g.close()
    model = ctx.model(lines)
    if model is not None:
        ctx.compare("Uploader.upload: LIT/CHK decision, key, cap fields, storage index, shares placed", metas, impl, model)
    if metas:
        ctx.sample({"upload": metas[0], "impl": impl[0][:200]})


def run_noservers(ctx, corpus=False):
    """literal-sized uploads need no servers: on a client with zero (connected) servers every file of <= 55 bytes still
    gets its LIT cap (data embedded, no server call), from every kind of uploadable, with and without a convergence
    secret; a file of > 55 bytes on the same client fails with a no-servers / unhappiness error"""
    import os
    import grid
    import common
    from allmydata.immutable import upload
    from allmydata.interfaces import NoServersError, UploadUnhappinessError
    from allmydata import uri
    rng = random.Random("c05-corpus-noservers") if corpus else ctx.rng
    Chunky = make_chunky(upload)
    lines, impl, metas = [], [], []
    modes = ["never-had-servers", "all-removed", "broker-cleared"]
    for gi in range(3 if corpus else ctx.budget(4, 30)):
        k = rng.choice([1, 2, 3])
        n = rng.randrange(k, k + 4)
        max_seg = rng.choice([16, 128, 131072])
        mode = modes[gi] if corpus else rng.choice(modes)
        seed = rng.randrange(1 << 30)
        with grid.Runtime(seed=seed, policy="random") as rt:
            nsrv = 0 if mode == "never-had-servers" else rng.randrange(1, n + 2)
            g = grid.Grid(grid.fresh_dir("c05n"), rt, num_servers=nsrv, num_clients=1, k=k, happy=1, n=n, max_segment_size=max_seg)
            try:
                c = g.clients[0]
                wrappers = dict(g.wrappers)
                if mode == "all-removed":
                    for i in list(g.servers):
                        g.remove_server(i)
                elif mode == "broker-cleared":
                    del g.broker.servers[:]
                sizes = [0, 1, 7, 54, 55, rng.randrange(0, 56), rng.randrange(0, 56), 56, 57, rng.randrange(56, 400)]
                if corpus:
                    sizes = [0, 1, 7, 54, 55, 56, 57]
                for size in sizes:
                    dseed = rng.randrange(1 << 30)
                    data = bytes(random.Random(dseed).randrange(256) for _ in range(size))
                    for conv in (bytes(rng.randrange(256) for _ in range(rng.choice([0, 16]))), None):
                        fn = os.path.join(common.WORK, "c05-file-%d" % os.getpid())
                        with open(fn, "wb") as f:
                            f.write(data)
                        sources = [("Data", lambda: upload.Data(data, convergence=conv)),
                                   ("FileHandle", lambda: upload.FileHandle(io.BytesIO(data), convergence=conv)),
                                   ("FileName", lambda: upload.FileName(fn, convergence=conv)),
                                   ("ShortReadFile", lambda: upload.FileHandle(ShortFile(data, random.Random(dseed + 1), None), convergence=conv)),
                                   ("ChunkLists", lambda: Chunky(io.BytesIO(data), conv, random.Random(dseed + 2)))]
                        if size > 55:
                            sources = sources[:2]
                        for name, mk in sources:
                            case = {"kind": "noservers", "mode": mode, "size": size, "dseed": dseed, "source": name,
                                    "conv": None if conv is None else conv.hex(), "k": k, "n": n, "maxSeg": max_seg, "seed": seed}
                            before = {i: dict(w.counter_by_methname) for i, w in wrappers.items()}
                            try:
                                res = rt.wait(c.upload(mk()))
                                err = None
                            except Exception as ex:
                                res, err = None, ex
                            called = {i: dict(w.counter_by_methname) for i, w in wrappers.items()} != before
                            ctx.case(("NS", mode, size, name, conv is None, dseed) if size else None)
                            if size <= 55:
                                ctx.count("noservers:lit:" + name)
                                if err is not None:
                                    ctx.violation("a literal-sized upload failed on a client without servers", case,
                                                  "lit-needs-servers-" + type(err).__name__, repr(err)[:200])
                                    continue
                                cap = uri.from_string(res.get_uri())
                                if not isinstance(cap, uri.LiteralFileURI) or cap.data != data:
                                    ctx.violation("a file of <= 55 bytes did not get a literal cap embedding its data", case,
                                                  "lit-cap-size-%d" % size)
                                if called:
                                    ctx.violation("a literal upload contacted a storage server", case, "lit-server-call")
                                lines.append("capon 0 %s 00 %d %d %d %s ." % ("N" if conv is None else (hx(conv) if conv else "-"),
                                                                                k, n, max_seg, hx(data)))
                                impl.append("LIT;%s;0" % hx(getattr(cap, "data", b"")))
                                metas.append(case)
                            else:
                                ctx.count("noservers:chk")
                                if err is None:
                                    ctx.violation("a file of > 55 bytes was uploaded although the client has no servers", case,
                                                  "chk-without-servers")
                                elif not isinstance(err, (NoServersError, UploadUnhappinessError)):
                                    ctx.violation("upload of > 55 bytes without servers failed with an unexpected error", case,
                                                  "chk-without-servers-error-" + type(err).__name__, repr(err)[:200])
                                if name == "Data":
                                    # the model with the server list as an input: NoServersError on the CHK branch only
                                    lines.append("capon 0 %s 00 %d %d %d %s %s" % ("N" if conv is None else (hx(conv) if conv else "-"),
                                                                                   k, n, max_seg, hx(data), hx(data)))
                                    impl.append("NoServersError" if isinstance(err, NoServersError) else
                                                ("uploaded" if err is None else type(err).__name__))
                                    metas.append(case)
                        try:
                            os.unlink(fn)
                        except OSError:
                            pass
            finally:
                g.close()
    model = ctx.model(lines)
    if model is not None:
        ctx.compare("literal uploads on a client without servers: LIT cap with the data embedded", metas, impl, model)


class NoFileno:
    """file-object wrapper without fileno() (like the SFTP EncryptedTemporaryFile) around any file object"""

    def __init__(self, f):
        self._f = f

    def seek(self, *a):
        return self._f.seek(*a)

    def tell(self):
        return self._f.tell()

    def read(self, *a):
        return self._f.read(*a)

    def close(self):
        pass


def file_sources(data, rng, workdir, tag):
    """[(name, make() -> (file object, cleanup))]: every way of handing the same bytes to upload.FileHandle"""
    import os
    import tempfile
    fn = os.path.join(workdir, "c05-src-%s-%d" % (tag, os.getpid()))

    def pieces():
        out, i = [], 0
        while i < len(data):
            step = rng.choice([1, 7, 100, 1000, 4000, 4096, 8192, 10000, 65536])
            out.append(data[i:i + step])
            i += step
        return out

    def write_file(mode_pieces, opener):
        f = opener()
        if mode_pieces:
            for p in pieces():
                f.write(p)
        else:
            f.write(data)
        return f                       # NOT flushed, NOT rewound: exactly as a caller that just filled it

    def rb():
        with open(fn, "wb") as w:
            w.write(data)
        return open(fn, "rb")

    def rb_at(pos):
        f = rb()
        f.seek(pos)
        return f

    def wplus():
        return open(fn, "w+b")

    def tmp():
        return tempfile.TemporaryFile(dir=workdir)

    def after(f, pos):
        f.seek(pos)
        return f

    mid = len(data) // 2
    return fn, [
        ("BytesIO", lambda: io.BytesIO(data)),
        ("BytesIO-at-end", lambda: after(io.BytesIO(data), len(data))),
        ("file-rb", rb),
        ("file-rb-mid", lambda: rb_at(mid)),
        ("file-rb-at-end", lambda: rb_at(len(data))),
        ("file-w+b-onepiece-unflushed", lambda: write_file(False, wplus)),
        ("file-w+b-pieces-unflushed", lambda: write_file(True, wplus)),
        ("tempfile-onepiece-unflushed", lambda: write_file(False, tmp)),
        ("tempfile-pieces-unflushed", lambda: write_file(True, tmp)),
        ("file-w+b-written-then-mid", lambda: after(write_file(True, wplus), mid)),
        ("tempfile-unbuffered-pieces", lambda: write_file(True, lambda: tempfile.TemporaryFile(dir=workdir, buffering=0))),
        ("nofileno-over-unflushed-file", lambda: NoFileno(write_file(True, wplus))),
        ("nofileno-over-BytesIO", lambda: NoFileno(io.BytesIO(data))),
    ]


def run_sources(ctx, corpus=False):
    """every way of supplying the same bytes (Data; FileHandle over BytesIO, a file opened 'rb', a just-written unflushed
    'w+b' file / TemporaryFile in one or several pieces, positioned mid-file or at the end, a wrapper without fileno;
    FileName) with the same secret and parameters gives the same cap, and the cap downloads to exactly the bytes"""
    import os
    import grid
    import common
    from allmydata.immutable import upload
    from allmydata import uri
    from allmydata.util.consumer import MemoryConsumer
    rng = random.Random("c05-corpus-sources") if corpus else ctx.rng
    thorough = ctx.tier == "thorough"
    base_sizes = [0, 1, 54, 55, 56, 57, 1000, 8191, 8192, 8193, 20000, 70000, 200000]
    for gi in range(1 if corpus else ctx.budget(3, 12)):
        k = rng.choice([1, 2, 3])
        n = rng.randrange(k, k + 3)
        max_seg = rng.choice([131072, 131072, 1048576, 65536])
        seed = rng.randrange(1 << 30)
        with grid.Runtime(seed=seed, policy="random") as rt:
            g = grid.Grid(grid.fresh_dir("c05s"), rt, num_servers=n, num_clients=1, k=k, happy=1, n=n, max_segment_size=max_seg)
            try:
                c = g.clients[0]
                sizes = list(base_sizes) + [rng.randrange(0, 56), rng.randrange(56, 9000), rng.randrange(9000, 100000)]
                if corpus:
                    sizes = [0, 30, 55, 56, 100, 1000, 8193, 200000]
                for size in sizes:
                    dseed = rng.randrange(1 << 30)
                    drng = random.Random(dseed)
                    data = bytes(drng.randrange(256) for _ in range(min(size, 4099)))
                    data = (data * (size // max(1, len(data)) + 1))[:size]
                    secret = rng.choice([b"", bytes(drng.randrange(256) for _ in range(16))])
                    case0 = {"kind": "sources", "size": size, "dseed": dseed, "secret": secret.hex(), "k": k, "n": n,
                             "maxSeg": max_seg, "seed": seed}
                    ref = rt.wait(c.upload(upload.Data(data, convergence=secret))).get_uri()
                    fn, sources = file_sources(data, random.Random(dseed + 3), common.WORK, "a")
                    picked = sources if (thorough or size in base_sizes) else rng.sample(sources, 5)
                    todo = [(name, (lambda mk=mk: upload.FileHandle(mk(), convergence=secret)), True) for name, mk in picked]

                    def filename_src():
                        with open(fn, "wb") as w:
                            w.write(data)
                        return upload.FileName(fn, convergence=secret)
                    todo.append(("FileName", filename_src, False))
                    for name, mk, is_fh in todo:
                        case = dict(case0, source=name)
                        u = None
                        try:
                            u = mk()
                            cap = rt.wait(c.upload(u)).get_uri()
                        except Exception as ex:
                            ctx.violation("upload from source %s failed" % name, case,
                                          "source-upload-failed:%s:%s" % (name, type(ex).__name__), repr(ex)[:300])
                            continue
                        finally:
                            fh = getattr(u, "_filehandle", None)
                            try:
                                if fh is not None and is_fh:
                                    getattr(fh, "_f", fh).close()
                            except Exception:
                                pass
                        ctx.case(("Src", name, size, dseed, secret.hex()) if size else None)
                        ctx.count("sources:" + name)
                        if cap != ref:
                            cu = uri.from_string(cap)
                            ctx.violation("the same bytes, secret and parameters give a different cap when supplied through %s "
                                          "than through upload.Data" % name, case, "source-dependent-cap:" + name,
                                          {"data_cap": ref.decode(), "source_cap": cap.decode(),
                                           "source_cap_size": cu.get_size(), "size": size})
                    # the (common) cap must read back to exactly the bytes
                    refu = uri.from_string(ref)
                    if size <= 55:
                        if not isinstance(refu, uri.LiteralFileURI) or refu.data != data:
                            ctx.violation("literal cap does not embed exactly the data", case0, "lit-cap-size-%d" % size)
                    else:
                        mc = MemoryConsumer()
                        try:
                            rt.wait(c.create_node_from_uri(ref).read(mc, 0, None))
                            got = b"".join(mc.chunks)
                        except Exception as ex:
                            got = None
                            ctx.violation("download of the uploaded cap failed", case0, "source-download-failed-" + type(ex).__name__)
                        if got is not None and got != data:
                            ctx.violation("the cap does not download to the uploaded bytes", case0, "source-roundtrip",
                                          {"got_len": len(got), "want_len": len(data)})
                    try:
                        os.unlink(fn)
                    except OSError:
                        pass
            finally:
                g.close()


CONV_TAG = b"allmydata_immutable_content_to_key_with_added_secret_v1+"


def ref_convergent_key(k, n, segsize, secret, data):
    """the documented derivation, computed independently with hashlib: SHA-256d over netstring(tag) + data, 16 bytes,
    tag = CONV_TAG + netstring(secret) + netstring("k,n,segsize")"""
    import hashlib

    def ns(b):
        return b"%d:%s," % (len(b), b)
    tag = CONV_TAG + ns(secret) + ns(b"%d,%d,%d" % (k, n, segsize))
    return hashlib.sha256(hashlib.sha256(ns(tag) + data).digest()).digest()[:16]


def run_segsize_corpus(ctx):
    """Fixed corpus (seeded C05-d): several convergent uploads in ONE process with the same k, N and secret but different
    effective segment sizes, in a fixed order.  Each cap's key must be the documented hash of (secret, k, N, segment size,
    plaintext) -- so it cannot depend on what was uploaded before -- and changing only the segment size must change the
    storage index, while going back to the first segment size gives the first cap again."""
    import grid
    from allmydata.immutable import upload
    from allmydata.util import hashutil
    from allmydata import uri
    secret = b"corpus-secret-16"
    k, n = 2, 3
    # hashutil level, no grid: same (k, n, secret), segment sizes in a fixed order
    lines, impl, metas = [], [], []
    for segsize, data in ((60, b"a" * 60), (100, b"a" * 60), (60, b"b" * 75), (1024, b""), (100, b"a" * 60)):
        key = hashutil.convergence_hash(k, n, segsize, data, secret)
        case = {"kind": "segsize-corpus", "level": "hashutil", "k": k, "n": n, "segsize": segsize, "data": data.hex()}
        if key != ref_convergent_key(k, n, segsize, secret, data):
            ctx.violation("convergence_hash differs from the documented derivation (depends on earlier calls?)", case,
                          "convergent-key-differs-from-spec:hashutil")
        lines.append("key %d %d %d %s %s" % (k, n, segsize, hx(secret), hx(data) if data else "."))
        impl.append("%s;%s" % (hx(key), hx(hashutil.storage_index_hash(key))))
        metas.append(case)
        ctx.case(("SegC", "hashutil", segsize, data.hex()))
    with grid.Runtime(seed=5, policy="random") as rt:
        g = grid.Grid(grid.fresh_dir("c05g"), rt, num_servers=n, num_clients=1, k=k, happy=1, n=n, max_segment_size=100)
        try:
            c = g.clients[0]
            data = bytes((i * 11 + 5) % 256 for i in range(200))
            seen = []
            for ms in (100, 50, 64, 100, 1048576, 50):
                u = upload.Data(data, convergence=secret)
                u.max_segment_size = ms
                case = {"kind": "segsize-corpus", "level": "upload", "k": k, "n": n, "maxSeg": ms, "size": len(data)}
                try:
                    cap = uri.from_string(rt.wait(c.upload(u)).get_uri())
                except Exception as ex:
                    ctx.violation("corpus upload failed", case, "segsize-corpus-upload-failed-" + type(ex).__name__, repr(ex)[:200])
                    continue
                seg = -(-min(ms, len(data)) // k) * k
                if cap.key != ref_convergent_key(k, n, seg, secret, data):
                    ctx.violation("the cap's key is not the documented hash of (secret, k, N, segment size, plaintext): it depends "
                                  "on what was uploaded earlier in the process", case, "convergent-key-differs-from-spec:upload")
                for (ms0, seg0, cap0) in seen:
                    if seg0 != seg and cap0.get_storage_index() == cap.get_storage_index():
                        ctx.violation("changing only the segment size left the storage index unchanged", dict(case, other=ms0),
                                      "si-not-separated-maxSeg")
                    if seg0 == seg and cap0.to_string() != cap.to_string():
                        ctx.violation("same (plaintext, secret, k, N, segment size) but a different cap", dict(case, other=ms0),
                                      "cap-not-deterministic-maxSeg")
                seen.append((ms, seg, cap))
                ctx.case(("SegC", "upload", ms))
                ctx.count("corpus:segsize")
            # the empty byte string is a valid convergence secret (seeded C05-e): uploading the same bytes twice with
            # convergence=b"" gives the same cap, whose key is the documented hash with an empty secret; from every stock source
            import io as _io
            data2 = bytes((i * 13 + 1) % 256 for i in range(150))
            caps = []
            for name, mk in (("Data", lambda: upload.Data(data2, convergence=b"")),
                             ("Data-again", lambda: upload.Data(data2, convergence=b"")),
                             ("FileHandle", lambda: upload.FileHandle(_io.BytesIO(data2), convergence=b""))):
                case = {"kind": "empty-secret-corpus", "source": name, "size": len(data2), "k": k, "n": n}
                try:
                    cap = uri.from_string(rt.wait(c.upload(mk())).get_uri())
                except Exception as ex:
                    ctx.violation("corpus upload with an empty convergence secret failed", case,
                                  "empty-secret-upload-failed-" + type(ex).__name__, repr(ex)[:200])
                    continue
                caps.append(cap.to_string())
                if cap.key != ref_convergent_key(k, n, 100, b"", data2):
                    ctx.violation("with convergence=b\"\" the cap's key is not the convergent hash for the empty secret", case,
                                  "convergent-key-differs-from-spec:empty-secret")
                ctx.case(("EmptySecret", name))
                ctx.count("corpus:empty-secret")
            if len(set(caps)) > 1:
                ctx.violation("re-uploading the same bytes with convergence=b\"\" gives a different cap", {"kind": "empty-secret-corpus"},
                              "cap-not-deterministic-empty-secret")
        finally:
            g.close()
    model = ctx.model(lines)
    if model is not None:
        ctx.compare("convergence_hash for one (k, N, secret) and changing segment sizes, in a fixed order", metas, impl, model)


def split_by(d, sizes):
    """the model's `splitBy`: pieces of the cycling sizes, the rest as one piece"""
    out, sizes = [], list(sizes)
    while sizes and sizes[0] != 0 and len(d) > sizes[0]:
        out.append(d[:sizes[0]])
        d = d[sizes[0]:]
        sizes = sizes[1:] + sizes[:1]
    out.append(d)
    return out


def run_via(ctx, corpus=False):
    """Uploader.upload on an IUploadable whose read() returns piece lists, with varied EncryptAnUploadable.CHUNKSIZE:
    the (position, length) of every read() call on the CHK path and the resulting cap vs the model's uploadCapVia"""
    import grid
    from twisted.internet import defer
    from allmydata.immutable import upload
    from allmydata import uri
    rng = random.Random("c05-corpus-via") if corpus else ctx.rng
    fixed = [(60, 51200, [5, 3], b""), (200, 51200, [7, 1, 33], b"s" * 16), (200, 64, [16], b""), (300, 7, [5, 3], b"s" * 16),
             (57, 51200, [1], b""), (30, 51200, [5, 3], b""), (1000, 100, [4096, 17], None)]

    class PieceSource(upload.FileHandle):
        def __init__(self, fh, convergence, spec):
            upload.FileHandle.__init__(self, fh, convergence)
            self._spec = spec
            self.calls = []

        def read(self, length):
            self.calls.append((self._filehandle.tell(), length))
            return defer.succeed(split_by(self._filehandle.read(length), self._spec))

    lines, impl, metas = [], [], []
    saved = upload.EncryptAnUploadable.CHUNKSIZE
    try:
        for gi in range(2 if corpus else ctx.budget(3, 20)):
            k = rng.choice([1, 2, 3])
            n = rng.randrange(k, k + 3)
            max_seg = rng.choice([16, 100, 4096, 131072])
            if corpus:
                k, n, max_seg = [(2, 3, 100), (3, 5, 131072)][gi]
            seed = rng.randrange(1 << 30)
            with grid.Runtime(seed=seed, policy="random") as rt:
                g = grid.Grid(grid.fresh_dir("c05v"), rt, num_servers=n, num_clients=1, k=k, happy=1, n=n, max_segment_size=max_seg)
                try:
                    c = g.clients[0]
                    for ci in range(len(fixed) if corpus else ctx.budget(12, 30)):
                        size = rng.choice([0, 1, 55, 56, 57, max_seg, max_seg + 1, 2 * max_seg - 1, rng.randrange(0, 56),
                                           rng.randrange(56, 3000), rng.randrange(56, 160000)])
                        seg_eff = -(-min(max_seg, max(size, 1)) // k) * k
                        while -(-size // seg_eff) > 200:
                            size //= 2
                        chunk = rng.choice([51200, 51200, 1, 7, 64, 1000, 4096, 65536])
                        while size // chunk > 200:
                            chunk *= 8
                        spec = rng.choice([[], [1], [5, 3], [7, 1, 33], [16], [4096, 17], [51200, 1], [0, 5]])
                        conv = rng.choice([None, b"", bytes(rng.randrange(256) for _ in range(16))])
                        if corpus:
                            size, chunk, spec, conv = fixed[ci]
                        data = bytes(rng.randrange(256) for _ in range(min(size, 3001)))
                        data = (data * (size // max(1, len(data)) + 1))[:size]
                        case = {"kind": "via", "size": size, "k": k, "n": n, "maxSeg": max_seg, "chunk": chunk, "spec": spec,
                                "conv": None if conv is None else conv.hex(), "seed": seed}
                        upload.EncryptAnUploadable.CHUNKSIZE = chunk
                        u = PieceSource(io.BytesIO(data), conv, spec)
                        try:
                            res = rt.wait(c.upload(u))
                        except Exception as ex:
                            ctx.violation("upload through a piece-list uploadable failed", case, "via-upload-failed-" + type(ex).__name__,
                                          repr(ex)[:300])
                            continue
                        finally:
                            upload.EncryptAnUploadable.CHUNKSIZE = saved
                        cap = uri.from_string(res.get_uri())
                        ref = rt.wait(c.upload(upload.Data(data, convergence=conv))).get_uri() if conv is not None else None
                        if ref is not None and ref != res.get_uri():
                            ctx.violation("a piece-list uploadable gives a different cap than upload.Data for the same bytes", case,
                                          "source-dependent-cap:PieceSource")
                        if isinstance(cap, uri.LiteralFileURI):
                            out = "-;LIT;%s;0" % hx(cap.data)
                            key = b""
                        else:
                            key = cap.key
                            if conv is not None and key != ref_convergent_key(k, n, -(-min(max_seg, size) // k) * k, conv, data):
                                ctx.violation("the cap's key is not the documented hash of (secret, k, N, segment size, plaintext)",
                                              case, "convergent-key-differs-from-spec:via")
                            out = "%s;CHK;%s;%d;%d;%d;%d" % (",".join("%d+%d" % x for x in u.calls) or "-", hx(key), cap.needed_shares,
                                                           cap.total_shares, cap.size, res.get_pushed_shares() + res.get_preexisting_shares())
                        lines.append("via %s %d %d %d %d %s %s" % (hx(key), k, n, max_seg, chunk, hx(data), ",".join(map(str, spec)) or "-"))
                        impl.append(out)
                        metas.append(case)
                        ctx.case(("via", size, k, n, max_seg, chunk, repr(spec), conv is None) if size else None)
                        ctx.count("via:" + ("LIT" if size <= 55 else "CHK"))
                finally:
                    g.close()
    finally:
        upload.EncryptAnUploadable.CHUNKSIZE = saved
    model = ctx.model(lines)
    if model is not None:
        ctx.compare("Uploader.upload through an IUploadable returning piece lists: read(pos,len) calls and result", metas, impl, model)


def run(ctx):
    import os
    import common
    common.setup_impl_path()
    import grid  # noqa: F401
    # fixed corpus first (independent of VERIF_SEED): one minimal input per known mechanism --
    #   multi-piece IUploadable.read vs Data (seeded C05-a), literal uploads without servers (C05-b),
    #   unflushed / repositioned / descriptor-less file objects vs Data (C05-c)
    #   convergent keys for one (k, N, secret) and changing segment sizes in one process (C05-d)
    run_segsize_corpus(ctx)
    run_via(ctx, corpus=True)
    run_noservers(ctx, corpus=True)
    run_sources(ctx, corpus=True)
    if os.environ.get("VERIF_CORPUS_ONLY"):
        return
    run_hashutil(ctx)
    run_via(ctx)
    run_sources(ctx)
    run_noservers(ctx)
    run_uploads(ctx)
