"""C30 — HTTP storage API authorization (storage/http_server.py, storage/http_common.py).

The real `HTTPServer` resource tree is driven in-process (treq.testing.StubTreq over
`HTTPServer(clock, StorageServer, swissnum).get_resource()`, no sockets, frozen clock) with raw requests whose
Authorization / X-Tahoe-Authorization headers are missing, wrong, duplicated, malformed or correct, interleaved
with legitimate uploads and mutable writes.  Status, body and (abstract) state change of every request are
compared with the Lean driver; the monitor compares the raw storage directory and the upload tables
before/after every request against the property statement.

The in-process stack (`Stack`) is also used by props/c31.py.
"""
ID = "C30"
LEAN_PROPS = "Tahoe.Props.C30"
DRIVER = "C30"
GENERATED = ["http"]
SOURCES = ["src/allmydata/storage/http_server.py", "src/allmydata/storage/http_common.py"]
DESIGN_REF = "DESIGN.md §2 C30"
TECHNIQUE = ("Lean 4 theorems over an executable state-machine model of HTTPServer (route table, secret names, auth prefix, "
             "whitespace table and the all-routes-wrapped fact generated from the live klein app; swissnum check; "
             "_extract_secrets with CPython's lenient base64 decoder and strict UTF-8; UploadsInProgress; write-enabler check "
             "with the recorded nodeid explicit; all twelve handlers over an abstract storage state; upload timeout / "
             "disconnect and share-directory migration as request-independent events); a declarative specification "
             "`Authorized` proved equivalent to the executable gate; differential correspondence of a fixed corpus and of "
             "seeded request histories through the real twisted.web resource tree — on fresh connections (StubTreq) and as "
             "sequences of raw HTTP/1.1 requests down persistent in-memory connections to a twisted.web Site — comparing "
             "status, body, state change and final state, plus _extract_secrets / b64decode / UTF-8 / the werkzeug URL map at "
             "function granularity; implementation-side monitor on the raw storage directory and the live BucketWriters")
LEVEL_TEXT = ("Proved for every request, route, state and history of the model: no_swissnum_no_effect (state unchanged, 401/400/404, "
              "no share byte, answer independent of the state), served_iff_authorized + authorization_is_pure (the handler runs "
              "iff the swissnum header is first and every secret value is well formed with exactly the required kinds; the "
              "decision does not depend on the state or on earlier requests), unauthorized_requests_are_noops (histories), "
              "bad_secrets_no_effect, upload_secret_required, uploads_change_only_by_their_own_secret / "
              "uploads_change_only_by_secret_or_timeout (an upload in progress is changed or removed only by a served write / "
              "abort presenting its secret or by its own timeout / disconnect — allocations included: "
              "allocate_leaves_uploads_alone), enabler_required, rtw_refused_iff_enabler_differs, "
              "enabler_decision_ignores_nodeid, rtw_refused_changes_nothing. The model is tied to http_server.py / server.py "
              "by the corpus and the random request histories (mutated headers, concurrent uploads with different secrets, "
              "re-allocations, wrong enablers, keep-alive retries, migrated share directories, timeouts).")
LEVEL_NOTE = ("Lean kernel + standard axioms; model hand-written, route / enum / whitespace tables generated from the live code "
              "and pinned by named theorems; timing_safe_compare = equality. Not covered by a theorem: that the real server "
              "keeps no per-connection memory (monitor + correspondence over keep-alive sequences only); TLS and the NURL "
              "certificate pin (out of scope).")
RULE = ("the model is per request and stateless with respect to connections: what preceded a request on its keep-alive "
        "connection must not matter, and every response is compared with the model's; "
        "a case is one HTTP request sent through HTTPServer.get_resource() — on a fresh connection (StubTreq) or as one of a "
        "sequence of raw HTTP/1.1 requests down a persistent in-memory connection to a twisted.web Site — or one control event "
        "(upload timeout / disconnect, share directory served by another node), or one call of _extract_secrets / b64decode / "
        "utf-8 decode / url_map.match at function level; the fixed corpus (one minimal history per known mechanism) runs first "
        "and alone under VERIF_CORPUS_ONLY=1; distinct = distinct (route, swissnum-mutation, secret-mutation, path-mutation, "
        "status, state-changed) tuples plus distinct function-level inputs; non-trivial = the server holds at least one share "
        "or upload when the request arrives, or the function-level input is non-empty")
TRUSTED = ["lean/Tahoe/Http/{Codec,Auth,Marshal,Server}.lean are hand transcriptions of http_server.py / server.py handlers over an "
           "abstract storage state (finished share = bytes + lease secrets, upload = cells + secret + lease, mutable share = "
           "enabler + bytes + lease secrets + recorded nodeid)",
           "twisted.web's HTTP parser, klein/werkzeug dispatch, werkzeug header parsers, cbor2 and pycddl are exercised, "
           "not modelled: the driver receives parsed Range / Content-Range values and decoded bodies",
           "harness/props/c30.py Stack: StubTreq / twisted.test.iosim connections to a twisted.web Site + a frozen twisted Clock "
           "replace the reactor; cputhreadpool is disabled; upload timeouts are fired by calling the BucketWriter's own delayed "
           "call; which upload secret created which upload is recorded by the harness from the answers to allocations"]
ASSUMPTIONS = ["timing_safe_compare(a, b) == (a == b) (it compares SHA-256d tags under a fresh random key)",
               "a storage index holds either immutable or mutable shares; the disk does not fill up; bodies <= 64 KiB",
               "header values reach the handler with optional whitespace stripped (Twisted) and contain no CR/LF",
               "share numbers in URLs are ASCII digits (werkzeug's \\d+ also matches other Unicode digits)",
               "lenient base64 (characters outside the alphabet skipped, text after the padding ignored) is accepted "
               "behaviour: the statement's 'malformed secret' is taken as: no key/value separator, unknown key, empty or "
               "undecodable value, lease secret of the wrong length, or a required secret absent",
               "write enablers of a length other than 32 are stored zero-padded / truncated (struct 32s): modelled as the code does",
               "that the running server keeps no state between requests other than the storage state (no per-connection "
               "memory) is checked by monitor and correspondence, not proved"]

import base64
import os
import shutil
import struct

from common import hx, WORK

_STACK_READY = False


def _prepare():
    global _STACK_READY
    if _STACK_READY:
        return
    import common
    common.setup_impl_path()
    from allmydata.util import cputhreadpool
    cputhreadpool._DISABLED = True
    # klein logs every handler exception (a 500 answer) through twisted.logger; keep stderr quiet
    from twisted.logger import globalLogBeginner
    try:
        globalLogBeginner.beginLoggingTo([lambda event: None], redirectStandardIO=False, discardBuffer=True)
    except Exception:
        pass
    _STACK_READY = True


class Stuck(Exception):
    pass


def make_clock():
    from queue import Queue
    from zope.interface import implementer
    from twisted.internet.interfaces import IReactorFromThreads
    from twisted.internet.task import Clock

    @implementer(IReactorFromThreads)
    class Reactor(Clock):
        """twisted Clock + callFromThread; time never moves (advance(0) runs what is due now)."""

        def __init__(self):
            Clock.__init__(self)
            self._queue = Queue()

        def callFromThread(self, f, *a, **k):
            self._queue.put((f, a, k))

        def pump(self):
            Clock.advance(self, 0)
            while not self._queue.empty():
                f, a, k = self._queue.get()
                f(*a, **k)
    return Reactor()


class Stack:
    """StorageServer + HTTPServer + StubTreq + StorageClient in one process, on a frozen clock."""

    def __init__(self, name, swissnum, clock=None, nodeid=b"\x00" * 20, from_dir=None, in_place=False):
        """from_dir: start from a copy of that storage directory (shares migrated to another node);
        in_place: serve the existing directory `name` again (the node's identity was regenerated)"""
        _prepare()
        from twisted.internet import task as ttask
        from twisted.internet.task import Cooperator
        from treq.testing import StubTreq
        from hyperlink import DecodedURL
        from allmydata.storage.server import StorageServer
        from allmydata.storage.http_server import HTTPServer
        from allmydata.storage.http_client import StorageClient
        self.dir = os.path.join(WORK, name)
        if not in_place:
            shutil.rmtree(self.dir, ignore_errors=True)
            if from_dir is not None:
                shutil.copytree(from_dir, self.dir)
            else:
                os.makedirs(self.dir)
        self.nodeid = nodeid
        self.clock = clock or make_clock()
        ttask._theCooperator = Cooperator(scheduler=lambda c: self.clock.callLater(0, c))
        self.swissnum = swissnum
        self.owner = {}
        self.site = None
        self.conns = {}
        self.conns_made = []
        self.ss = StorageServer(self.dir, nodeid, clock=self.clock)
        self.hs = HTTPServer(self.clock, self.ss, swissnum)
        self.treq = StubTreq(self.hs.get_resource())
        self.client = StorageClient(DecodedURL.from_text("http://127.0.0.1"), swissnum, treq=self.treq, pool=None,
                                    clock=self.clock)

    def migrated(self, swissnum, nodeid, copy):
        """the same shares served by another node: a copy of the storage directory on a server with another nodeid and
        swissnum (copy=True), or this directory served again after the node's identity was regenerated (copy=False).
        The old server object is dropped without aborting anything (its process is gone)."""
        for c in self.conns.values():
            c.close()
        for dc in self.clock.getDelayedCalls():
            dc.cancel()
        name = os.path.basename(self.dir)
        if copy:
            new = Stack(name + "-b", swissnum, nodeid=nodeid, from_dir=self.dir)
            shutil.rmtree(self.dir, ignore_errors=True)
        else:
            new = Stack(name, swissnum, nodeid=nodeid, in_place=True)
        return new

    def close(self):
        for c in self.conns.values():
            c.close()
        for bw in list(self.ss._bucket_writers.values()):
            try:
                bw.abort()
            except Exception:
                pass
        for dc in self.clock.getDelayedCalls():
            dc.cancel()
        shutil.rmtree(self.dir, ignore_errors=True)

    def wait(self, d):
        """Pump StubTreq and the clock until the Deferred/coroutine fires; re-raise its failure."""
        from twisted.internet.defer import ensureDeferred
        d = ensureDeferred(d)
        res, err = [], []
        d.addCallbacks(res.append, err.append)
        for _ in range(2000):
            if res or err:
                break
            self.clock.pump()
            self.treq.flush()
        if res:
            return res[0]
        if err:
            err[0].raiseException()
        raise Stuck("deferred did not fire")

    def raw(self, method, path, headers, data=None):
        """headers: list of (name bytes, value bytes).  Returns (code, response Headers, body bytes)."""
        from twisted.web.http_headers import Headers
        h = Headers()
        for k, v in headers:
            h.addRawHeader(k, v)
        resp = self.wait(self.treq.request(method, "http://127.0.0.1" + path, headers=h, data=data))
        body = self.wait(resp.content())
        return resp.code, resp.headers, body

    # ------------------------------------------------------------------ keep-alive connections

    def conn(self, cid):
        """the persistent connection with this id (a new one when it does not exist or the server closed it)"""
        c = self.conns.get(cid)
        if c is None or c.closed():
            if self.site is None:
                from twisted.web.server import Site
                self.site = Site(self.hs.get_resource(), reactor=self.clock)
            c = Connection(self, len(self.conns_made))
            self.conns_made.append(cid)
            self.conns[cid] = c
        return c

    def raw_on_connection(self, cid, method, path, headers, data=None):
        return self.conn(cid).request(method, path, headers, data)

    # ------------------------------------------------------------------ observation of the real state

    def raw_snapshot(self):
        """every file under the storage directory (bytes) + the upload tables (for the monitor)"""
        files = {}
        for root, dirs, fs in os.walk(self.dir):
            dirs.sort()
            rel = os.path.relpath(root, self.dir)
            files[rel + "/"] = None
            for f in fs:
                p = os.path.join(root, f)
                with open(p, "rb") as fh:
                    files[os.path.relpath(p, self.dir)] = fh.read()
        ups = {}
        for (si_s, n, bw, sec) in self.open_uploads():
            ups[(si_s, n)] = (sec, tuple((a, b) for (a, b, _) in bw._already_written.ranges()), bw.closed)
        return files, ups, tuple(sorted(self.ss._bucket_writers))

    def note_allocated(self, si_s, nums, secret):
        """the harness's own record of which upload secret created which upload (taken from the answers to
        allocation requests; HTTPServer's internal tables are deliberately not consulted)"""
        for n in nums:
            self.owner[(si_s, n)] = secret

    def open_uploads(self):
        """[(storage index string, share number, BucketWriter, creating upload secret)] of the uploads in progress,
        read off the StorageServer's bucket writers (incoming/<prefix>/<si>/<n>)"""
        res = []
        for home, bw in self.ss._bucket_writers.items():
            si_s = os.path.basename(os.path.dirname(home))
            n = int(os.path.basename(home))
            res.append((si_s, n, bw, self.owner.get((si_s, n), b"?")))
        live = {(a, b) for (a, b, _, _) in res}
        for k in [k for k in self.owner if k not in live]:
            del self.owner[k]
        return sorted(res, key=lambda x: (x[0], x[1]))

    def abstract(self):
        """the state in the vocabulary of the Lean model (see Tahoe.Http.Text.showState)"""
        from allmydata.storage.immutable import ShareFile
        from allmydata.storage.mutable import MutableShareFile
        from allmydata.storage.common import si_b2a
        items = []
        sharedir = self.ss.sharedir
        for pfx in sorted(os.listdir(sharedir)):
            if pfx == "incoming":
                continue
            for si_s in sorted(os.listdir(os.path.join(sharedir, pfx))):
                d = os.path.join(sharedir, pfx, si_s)
                for n in sorted(os.listdir(d)):
                    fn = os.path.join(d, n)
                    with open(fn, "rb") as f:
                        header = f.read(32)
                    if MutableShareFile.is_valid_header(header):
                        m = MutableShareFile(fn, self.ss)
                        with open(fn, "rb") as f:
                            (we, rec_nodeid) = m._read_write_enabler_and_nodeid(f)
                        data = m.readv([(0, m.get_length())])[0]
                        items.append("M%s/%d=%s:%s%s@%s" % (si_s, int(n), hx(we), hx(data), show_leases(m.get_leases()),
                                                            hx(rec_nodeid)))
                    else:
                        s = ShareFile(fn)
                        data = s.read_share_data(0, s.get_length())
                        items.append("I%s/%d=%s%s" % (si_s, int(n), hx(data), show_leases(s.get_leases())))
        for (si_s_u, n, bw, sec) in self.open_uploads():
            if True:
                size = bw._max_size
                content = bw._sharefile.read_share_data(0, size) if size else b""
                content = content + b"\x00" * (size - len(content))
                cells = [".."] * size
                for (a, b, _) in bw._already_written.ranges():
                    for i in range(a, b):
                        cells[i] = "%02x" % content[i]
                items.append("U%s/%d=%s:%s%s" % (si_s_u, n, hx(sec), "".join(cells) or "-",
                                                 show_leases(bw._sharefile.get_leases())))
        adv = len(os.listdir(self.ss.corruption_advisory_dir))
        return " ".join(sorted(items) + ["adv=%d" % adv])

    def share_datas(self, abstract=None):
        """data of every stored share / upload (for the 'no share byte in the response' monitor)"""
        res = []
        for it in (abstract or self.abstract()).split(" "):
            if it.startswith("adv="):
                continue
            if it[0] in "IM":
                payload = it.split("=", 1)[1].split("[")[0]
                payload = payload.split(":")[-1]
                res.append(b"" if payload == "-" else bytes.fromhex(payload))
            elif it[0] == "U":
                cells = it.split("=", 1)[1].split(":")[1].split("[")[0]
                if cells != "-":
                    run = bytearray()
                    for i in range(0, len(cells), 2):
                        c = cells[i:i + 2]
                        if c == "..":
                            if run:
                                res.append(bytes(run))
                            run = bytearray()
                        else:
                            run.append(int(c, 16))
                    if run:
                        res.append(bytes(run))
        return res


_HASH_CACHE = {}
_HASHED = set()
class _HeaderView:
    """just enough of twisted's Headers for canon_response"""

    def __init__(self, pairs):
        self.pairs = [(k.lower(), v) for k, v in pairs]

    def getRawHeaders(self, name, default=None):
        vals = [v for k, v in self.pairs if k == name.lower()]
        return vals or default


class Connection:
    """One keep-alive HTTP/1.1 connection (twisted.test.iosim in-memory transports) to a real twisted.web Site that wraps
    the real HTTPServer resource: raw requests go down the same HTTPChannel one after the other."""

    def __init__(self, stack, serial):
        from twisted.internet.address import IPv4Address
        from twisted.internet.protocol import Protocol
        from twisted.test import iosim

        class Collector(Protocol):
            buf = b""

            def dataReceived(self, data):
                self.buf += data
        self.stack = stack
        ca = IPv4Address("TCP", "127.0.0.1", 40000 + serial)
        sa = IPv4Address("TCP", "127.0.0.1", 443)
        self.server = stack.site.buildProtocol(ca)
        self.client = Collector()
        self.st = iosim.FakeTransport(self.server, isServer=True, hostAddress=sa, peerAddress=ca)
        self.ct = iosim.FakeTransport(self.client, isServer=False, hostAddress=ca, peerAddress=sa)
        self.pump = iosim.connect(self.server, self.st, self.client, self.ct, debug=False)
        self.sent = 0

    def closed(self):
        return self.st.disconnecting or self.st.disconnected or self.ct.disconnected or self.ct.disconnecting

    def close(self):
        try:
            self.ct.loseConnection()
            self.pump.flush()
        except Exception:
            pass

    def request(self, method, path, headers, data=None):
        """headers: [(name bytes, value bytes)]; returns (code, header view, body)"""
        import http.client
        import io
        body = data or b""
        raw = method.encode("ascii") + b" " + path.encode("ascii") + b" HTTP/1.1\r\nHost: 127.0.0.1\r\n"
        for k, v in headers:
            raw += k + b": " + v + b"\r\n"
        raw += b"Content-Length: %d\r\n\r\n" % len(body) + body
        self.client.buf = b""
        self.ct.write(raw)
        self.sent += 1
        clock = self.stack.clock
        for _ in range(3000):
            moved = self.pump.flush()
            due = any(dc.getTime() <= clock.seconds() for dc in clock.getDelayedCalls())
            clock.pump()
            if not moved and not due:
                break
        self.pump.flush()
        if not self.client.buf:
            raise Stuck("no response on connection to %s %s" % (method, path))

        class Sock:
            def __init__(self, d):
                self.d = d

            def makefile(self, *a, **kw):
                return io.BytesIO(self.d)
        resp = http.client.HTTPResponse(Sock(self.client.buf), method=method)
        resp.begin()
        payload = resp.read()
        return resp.status, _HeaderView(resp.getheaders()), payload


KNOWN_SECRETS = set()     # every secret value the harness ever sent (leases store only hashes of them)


def _unhash(lease, which):
    inner = getattr(lease, "_lease_info", None)
    if inner is None:
        return hx(getattr(lease, which))
    stored = getattr(inner, which)
    for s in KNOWN_SECRETS - _HASHED:
        _HASH_CACHE[lease._hash(s)] = s
        _HASHED.add(s)
    if stored in _HASH_CACHE:
        return hx(_HASH_CACHE[stored])
    return "?" + stored.hex()


def show_leases(leases):
    return "[" + ",".join("%s.%s" % (_unhash(l, "renew_secret"), _unhash(l, "cancel_secret")) for l in leases) + "]"


# ----------------------------------------------------------------------------- request description

SECRET_NAMES = {"r": "lease-renew-secret", "c": "lease-cancel-secret", "u": "upload-secret", "w": "write-enabler"}
REQUIRED = {"version": "", "allocate": "rcu", "abort": "u", "write": "u", "listImm": "", "readImm": "", "lease": "rc",
            "corruptImm": "", "rtw": "rcw", "readMut": "", "listMut": "", "corruptMut": ""}
METHOD = {"version": "GET", "allocate": "POST", "abort": "PUT", "write": "PATCH", "listImm": "GET", "readImm": "GET",
          "lease": "PUT", "corruptImm": "POST", "rtw": "POST", "readMut": "GET", "listMut": "GET", "corruptMut": "POST"}


def route_path(route, si_s, n):
    return {"version": "/storage/v1/version",
            "allocate": "/storage/v1/immutable/%s" % si_s,
            "abort": "/storage/v1/immutable/%s/%s/abort" % (si_s, n),
            "write": "/storage/v1/immutable/%s/%s" % (si_s, n),
            "listImm": "/storage/v1/immutable/%s/shares" % si_s,
            "readImm": "/storage/v1/immutable/%s/%s" % (si_s, n),
            "lease": "/storage/v1/lease/%s" % si_s,
            "corruptImm": "/storage/v1/immutable/%s/%s/corrupt" % (si_s, n),
            "rtw": "/storage/v1/mutable/%s/read-test-write" % si_s,
            "readMut": "/storage/v1/mutable/%s/%s" % (si_s, n),
            "listMut": "/storage/v1/mutable/%s/shares" % si_s,
            "corruptMut": "/storage/v1/mutable/%s/%s/corrupt" % (si_s, n)}[route]


def auth_value(swissnum):
    return b"Tahoe-LAFS " + base64.b64encode(swissnum)


def secret_header(kind, value):
    return SECRET_NAMES[kind].encode() + b" " + base64.b64encode(value)


def rtw_token(rtw):
    """rtw = {"tw": [[shnum, tests [[off,size,hex]], writes [[off,hex]], newlen|None]], "rv": [[off,size]]}"""
    shares = []
    for (n, tests, writes, nl) in rtw["tw"]:
        t = ",".join("%d+%d+%s" % (a, b, c or "-") for (a, b, c) in tests) or "-"
        w = ",".join("%d+%s" % (a, c or "-") for (a, c) in writes) or "-"
        shares.append("%d/%s/%s/%s" % (n, t, w, "N" if nl is None else str(nl)))
    rv = ",".join("%d+%d" % (a, b) for (a, b) in rtw["rv"]) or "-"
    return (";".join(shares) or "-") + "@" + rv


def rtw_message(rtw):
    return {"test-write-vectors": {n: {"test": [{"offset": a, "size": b, "specimen": bytes.fromhex(c)} for (a, b, c) in tests],
                                       "write": [{"offset": a, "data": bytes.fromhex(c)} for (a, c) in writes],
                                       "new-length": nl}
                                   for (n, tests, writes, nl) in rtw["tw"]},
            "read-vector": [{"offset": a, "size": b} for (a, b) in rtw["rv"]]}


def body_of(req):
    """(extra headers, data bytes or None, driver BODY token) of a request description"""
    from allmydata.util.cbor import dumps
    from werkzeug.http import parse_range_header, parse_content_range_header
    b = req["body"]
    k = b[0]
    cbor = [(b"Content-Type", b"application/cbor")]
    if k == "n":
        return [], None, "n"
    if k == "i":        # body the schema rejects
        return cbor, bytes.fromhex(b[1]), "i"
    if k == "t":        # wrong content type
        return [(b"Content-Type", b"text/plain")], b"hello", "t"
    if k == "c":
        return cbor, dumps({"reason": b[1]}), "c"
    if k == "a":
        return cbor, dumps({"share-numbers": set(b[1]), "allocated-size": b[2]}), \
            "a:%s:%d" % (",".join(str(x) for x in sorted(set(b[1]))) or "-", b[2])
    if k == "w":        # ["w", content-range header text or None, data hex]
        data = bytes.fromhex(b[2])
        hdr = [] if b[1] is None else [(b"Content-Range", b[1].encode("ascii"))]
        cr = parse_content_range_header(b[1])
        if cr is None:
            tok = "w:N:%s" % hx(data)
        elif cr.start is None:
            tok = "w:%s:*:%s" % (cr.units, hx(data))
        else:
            tok = "w:%s:%d-%d:%s" % (cr.units, cr.start, cr.stop, hx(data))
        return hdr, data, tok
    if k == "r":        # ["r", range header text]
        rh = parse_range_header(b[1])
        if rh is None:
            tok = "r:N"
        else:
            tok = "r:%s:%s" % (rh.units, ";".join("%d~%s" % (s, "N" if e is None else str(e)) for (s, e) in rh.ranges) or "-")
        return [(b"Range", b[1].encode("ascii"))], None, tok
    if k == "q":
        return cbor, dumps(rtw_message(b[1])), "q:" + rtw_token(b[1])
    raise ValueError(b)


def request_token(req, body_tok):
    def hl(vals):
        return ",".join(hx(bytes.fromhex(v).strip(b" \t")) for v in vals)
    return "%s|%s|A=%s|X=%s|%s" % (req["method"], req["path"], hl(req["auth"]), hl(req["xauth"]), body_tok)


def send(stack, req):
    """run one request description on the real server; returns (code, headers, body, driver token)"""
    extra, data, tok = body_of(req)
    for (_, v) in presented_secrets(req):
        KNOWN_SECRETS.add(v)
    headers = [(b"Authorization", bytes.fromhex(v)) for v in req["auth"]]
    headers += [(b"X-Tahoe-Authorization", bytes.fromhex(v)) for v in req["xauth"]]
    headers += extra
    if req.get("conn") is not None:
        code, rh, body = stack.raw_on_connection(req["conn"], req["method"], req["path"], headers, data)
    else:
        code, rh, body = stack.raw(req["method"], req["path"], headers, data)
    return code, rh, body, request_token(req, tok)


def canon_response(req, code, rh, body):
    """same vocabulary as Tahoe.Http.Text.showResponse"""
    from cbor2 import loads
    if req["method"] == "HEAD":
        return "%d:-" % (404 if code == 405 else code)     # no body to tell werkzeug's 405 from its 404
    ctype = (rh.getRawHeaders("content-type") or [""])[0]
    if ctype.startswith("application/octet-stream") and code in (200, 206):
        return "%d:share:%s" % (code, hx(body))
    if body.startswith(b"<!doctype html>") and code in (404, 405):
        return "404:html"                      # werkzeug NotFound / MethodNotAllowed, before any application code
    if code >= 500:
        return "%d:html" % code
    if code in (400, 401) and body and not ctype.startswith("application/cbor"):
        txt = body.decode("utf-8", "replace")
        first = txt.split(" ")[0]
        if first in ("Wrong", "Bad", "Failed", "Lease", "Expected"):
            return "%d:text:%s" % (code, first)
        return "%d:text:cddl" % code
    if body == b"":
        return "%d:empty" % code
    if ctype.startswith("application/cbor"):
        v = loads(body)
        if isinstance(v, dict) and "already-have" in v:
            return "%d:alloc:%s/%s" % (code, nats(v["already-have"]), nats(v["allocated"]))
        if isinstance(v, dict) and "required" in v:
            return "%d:req:%s" % (code, ",".join("%d-%d" % (r["begin"], r["end"]) for r in v["required"]) or "-")
        if isinstance(v, (set, frozenset, list)):
            return "%d:shares:%s" % (code, nats(v))
        if isinstance(v, dict) and "success" in v:
            reads = ";".join("%d=%s" % (n, "+".join(hx(x) for x in v["data"][n])) for n in sorted(v["data"])) or "-"
            return "%d:rtw:%s:%s" % (code, "T" if v["success"] else "F", reads)
        if isinstance(v, dict) and b"application-version" in v:
            return "%d:version" % code
        return "%d:cbor?%r" % (code, v)
    if ctype.startswith("application/octet-stream"):
        return "%d:share:%s" % (code, hx(body))
    return "%d:other:%s" % (code, hx(body[:40]))


def nats(xs):
    return ",".join(str(x) for x in sorted(xs)) or "-"


# ----------------------------------------------------------------------------- generators

def rbytes(rng, n):
    return bytes(rng.randrange(256) for _ in range(n))


class World:
    """the pools one history draws from"""

    def __init__(self, rng):
        from allmydata.storage.common import si_b2a
        self.rng = rng
        self.swissnum = rbytes(rng, rng.choice([1, 2, 3, 8, 16, 20, 32]))
        self.first_swissnum = self.swissnum      # `swissnum` moves on when the shares change hands (migrate_step)
        self.other_swissnum = rbytes(rng, len(self.swissnum))
        self.imm_si = [si_b2a(rbytes(rng, 16)).decode() for _ in range(2)]
        self.mut_si = [si_b2a(rbytes(rng, 16)).decode() for _ in range(2)]
        self.lease = [rbytes(rng, 32) for _ in range(3)]
        self.upload = []
        while len(self.upload) < 3:          # three distinct upload secrets (different clients)
            u = rbytes(rng, rng.choice([1, 16, 20, 32]))
            if u not in self.upload:
                self.upload.append(u)
        self.enabler = [rbytes(rng, 32) for _ in range(2)]
        self.size = {}          # si -> allocated size used by legit allocations
        self.target = {}        # (si, n) -> the bytes a well-behaved uploader writes

    def target_of(self, si, n):
        if si not in self.size:
            self.size[si] = self.rng.choice([1, 4, 9, 16, 24])
        if (si, n) not in self.target:
            self.target[(si, n)] = rbytes(self.rng, self.size[si])
        return self.target[(si, n)]


SW_MUT = ["ok", "ok", "ok", "ok", "ok", "ok", "missing", "wrong", "truncated", "extended", "lowercase", "noscheme",
          "ok+wrong", "wrong+ok", "nonutf8", "empty", "schemeonly", "raw", "ok+nonutf8", "padless"]


def mutate_swissnum(rng, w, kind):
    good = auth_value(w.swissnum)
    bad = auth_value(w.other_swissnum)
    if kind == "ok":
        return [good]
    if kind == "missing":
        return []
    if kind == "wrong":
        return [bad]
    if kind == "truncated":
        return [good[:-1]]
    if kind == "extended":
        return [good + rng.choice([b"A", b"=", b"!", b" x"])]
    if kind == "lowercase":
        return [good.lower()] if good.lower() != good else [bad]
    if kind == "noscheme":
        return [base64.b64encode(w.swissnum)]
    if kind == "ok+wrong":
        return [good, bad]
    if kind == "wrong+ok":
        return [bad, good]
    if kind == "nonutf8":
        return [rng.choice([b"\xff\xfe", b"Tahoe-LAFS \xc3", b"\xed\xa0\x80", b"\xc0\xaf", b"\xf4\x90\x80\x80"])]
    if kind == "empty":
        return [b""]
    if kind == "schemeonly":
        return [b"Tahoe-LAFS"]
    if kind == "raw":
        return [b"Tahoe-LAFS " + w.other_swissnum.hex().encode()]
    if kind == "ok+nonutf8":
        return [good, b"\xff"]
    if kind == "padless":
        return [good.rstrip(b"=")] if good.endswith(b"=") else [bad]
    raise ValueError(kind)


SEC_MUT = ["ok"] * 8 + ["drop", "extra", "dup-same", "dup-diff", "unknown-key", "nospace", "empty-value", "badpad", "junk",
                        "lease-short", "nonutf8", "nonascii", "wrong-value", "spaces", "upper-key", "after-pad", "pad-only",
                        "tab-sep"]


def mutate_secrets(rng, w, required, values, kind):
    """required: string of kinds; values: dict kind -> bytes.  Returns list of header values (bytes)."""
    hdrs = [secret_header(k, values[k]) for k in required]
    rng.shuffle(hdrs)
    if kind == "ok":
        return hdrs
    victim_kind = rng.choice(required) if required else rng.choice("rcuw")
    idx = next((i for i, h in enumerate(hdrs) if h.startswith(SECRET_NAMES[victim_kind].encode())), None)
    v = values.get(victim_kind, rbytes(rng, 32))

    def put(h):
        if idx is None:
            hdrs.append(h)
        else:
            hdrs[idx] = h
    name = SECRET_NAMES[victim_kind].encode()
    if kind == "drop":
        if idx is not None:
            del hdrs[idx]
        else:
            hdrs.append(b"nonsense")
    elif kind == "extra":
        others = [k for k in "rcuw" if k not in required]
        k = rng.choice(others)
        hdrs.append(secret_header(k, rbytes(rng, 32)))
    elif kind == "dup-same":
        hdrs.append(secret_header(victim_kind, v))
    elif kind == "dup-diff":
        other = rbytes(rng, len(v))
        if rng.random() < 0.5:
            hdrs.append(secret_header(victim_kind, other))       # the last one wins: wrong value
        else:
            hdrs.insert(0, secret_header(victim_kind, other))    # the last one wins: right value
    elif kind == "unknown-key":
        put(rng.choice([b"upload_secret ", b"secret ", b"Upload-Secret ", name + b"x "]) + base64.b64encode(v))
    elif kind == "nospace":
        put(name + base64.b64encode(v))
    elif kind == "empty-value":
        put(name + rng.choice([b" ", b" ====", b" !!!", b" ="]))
    elif kind == "badpad":
        e = base64.b64encode(v).rstrip(b"=")
        put(name + b" " + (e[:-1] if len(e) % 4 == 0 else e))
    elif kind == "junk":
        e = base64.b64encode(v)
        i = rng.randrange(len(e) + 1)
        put(name + b" " + e[:i] + rng.choice([b"!", b"-", b"_", b" ", b"\t", b".", b"@@"]) + e[i:])
    elif kind == "lease-short":
        put(name + b" " + base64.b64encode(v[:rng.choice([1, 16, 31])] if rng.random() < 0.7 else v + b"x"))
    elif kind == "nonutf8":
        put(name + b" \xff" + base64.b64encode(v))
    elif kind == "nonascii":
        put(name + b" " + base64.b64encode(v) + "é".encode("utf-8"))
    elif kind == "wrong-value":
        put(secret_header(victim_kind, rbytes(rng, len(v))))
    elif kind == "spaces":
        put(rng.choice([b"  ", b"\t", b"\xc2\xa0", b"\xe2\x80\x83"]) + name + b" " + base64.b64encode(v) + rng.choice([b" ", b"\xc2\x85"]))
    elif kind == "upper-key":
        put(name.upper() + b" " + base64.b64encode(v))
    elif kind == "after-pad":
        e = base64.b64encode(v)
        put(name + b" " + e + (b"" if e.endswith(b"=") else b"") + rng.choice([b"QUJD", b"=", b"A"]))
    elif kind == "pad-only":
        put(name + b" " + base64.b64encode(v).replace(b"=", b"") + b"=")
    elif kind == "tab-sep":
        put(name + b"\t" + base64.b64encode(v))
    return hdrs


def gen_body(rng, w, route, si, n, legit):
    """body description for a route; `legit` = try to be a well-behaved client"""
    if route == "allocate":
        if not legit and rng.random() < 0.3:
            return rng.choice([["i", "a0"], ["i", "ff00"], ["i", rbytes(rng, 5).hex()], ["t"]])
        nums = sorted(set(rng.randrange(3) for _ in range(rng.choice([1, 1, 2, 3]))))
        for x in nums:
            w.target_of(si, x)
        # one allocated size per request: take the first share's target size
        return ["a", nums, w.size[si] if (legit or rng.random() < 0.7) else rng.choice([0, 1, 5, 30])]
    if route == "write":
        t = w.target_of(si, n)
        size = len(t)
        r = rng.random()
        if r < 0.08:
            return ["w", rng.choice([None, "bytes */%d" % size, "chars 0-3/*", "bytes 3-1/*", "bytes=0-3", "garbage"]),
                    rbytes(rng, 4).hex()]
        a = rng.randrange(size)
        b = rng.randrange(a + 1, size + 1)
        if rng.random() < 0.35:
            a, b = 0, size
        data = t[a:b]
        if not legit and r < 0.3:
            data = rbytes(rng, b - a)                       # probably conflicting bytes
        hdr_end = b - 1
        if r > 0.95:
            hdr_end = b + rng.randrange(1, 4) - 1           # range longer than the body / beyond the allocation
        if 0.90 < r <= 0.95:
            data = data + b"zz"                             # body longer than the range
        return ["w", "bytes %d-%d/%s" % (a, hdr_end, rng.choice(["*", str(size)])), data.hex()]
    if route in ("readImm", "readMut"):
        r = rng.random()
        if r < 0.12:
            return ["n"]
        if r < 0.25:
            return ["r", rng.choice(["bytes=0-3,5-6", "bytes=2-", "bytes=-3", "chars=0-3", "bytes=5-2", "bytes=a-b", "bytes=0-0",
                                     "bytes=", "0-3"])]
        a = rng.randrange(0, 30)
        return ["r", "bytes=%d-%d" % (a, a + rng.randrange(0, 30))]
    if route in ("corruptImm", "corruptMut"):
        if rng.random() < 0.25:
            return rng.choice([["i", "a0"], ["i", "a16672656173"], ["t"]])
        return ["c", rng.choice(["bad hash", "x", "corrupt é"])]
    if route == "rtw":
        if not legit and rng.random() < 0.2:
            return rng.choice([["i", "a0"], ["i", rbytes(rng, 6).hex()], ["t"]])
        tw = []
        for x in sorted(set(rng.randrange(3) for _ in range(rng.choice([1, 1, 2])))):
            tests = []
            if rng.random() < 0.35:
                tests.append([rng.randrange(8), rng.randrange(1, 6), rbytes(rng, rng.randrange(0, 3)).hex()])
            if rng.random() < 0.2:
                tests.append([0, 0, ""])
            writes = [[rng.randrange(12), rbytes(rng, rng.randrange(0, 8)).hex()] for _ in range(rng.choice([0, 1, 1, 2]))]
            nl = rng.choice([None, None, None, 0, rng.randrange(1, 12)])
            tw.append([x, tests, writes, nl])
        rv = [[rng.randrange(10), rng.randrange(0, 12)] for _ in range(rng.choice([0, 1, 2]))]
        return ["q", {"tw": tw, "rv": rv}]
    return ["n"]


def gen_request(rng, w, st, route=None, force_legit=False, prefer_first=False):
    """one request description (JSON-serialisable)"""
    if route is None:
        route = rng.choice(["version", "allocate", "allocate", "abort", "write", "write", "write", "write", "listImm", "readImm",
                            "readImm", "lease", "corruptImm", "rtw", "rtw", "rtw", "readMut", "readMut", "listMut", "corruptMut"])
    mutable = route in ("rtw", "readMut", "listMut", "corruptMut")
    if route == "lease":
        si = rng.choice(w.imm_si + w.mut_si)
    else:
        si = rng.choice(w.mut_si if mutable else w.imm_si)
    n = rng.randrange(3)
    if prefer_first and rng.random() < 0.7:      # aim at what the prologue created
        si = w.mut_si[0] if mutable else w.imm_si[0]
        n = rng.randrange(2)
    legit = force_legit or rng.random() < 0.7
    sw_kind = "ok" if legit else rng.choice(SW_MUT)
    sec_kind = "ok" if legit else rng.choice(SEC_MUT)
    required = REQUIRED[route]
    # the secrets a well-behaved client would use: per storage index, fixed
    idx = (w.imm_si + w.mut_si).index(si)
    values = {"r": w.lease[idx % 3], "c": w.lease[(idx + 1) % 3], "u": w.upload[idx % 2], "w": w.enabler[idx % 2]}
    if not legit and rng.random() < 0.25:
        values["u"] = w.upload[(idx + 1) % 2]
        values["w"] = w.enabler[(idx + 1) % 2]
        values["r"] = w.lease[(idx + 2) % 3]
    if route in ("allocate", "write", "abort") and rng.random() < 0.45:
        values["u"] = rng.choice(w.upload)          # several clients, each with its own upload secret
    if not required and sec_kind not in ("ok", "extra", "nonutf8", "nospace"):
        sec_kind = "ok"
    if len(required) == 4 and sec_kind == "extra":
        sec_kind = "ok"
    method = METHOD[route]
    path = route_path(route, si, n)
    pm = "ok"
    if not legit and rng.random() < 0.12:
        pm = rng.choice(["method", "head", "si-upper", "si-short", "si-noncanon", "si-badlast", "shnum-zeros", "shnum-neg", "extra-seg",
                         "unknown"])
        if pm == "method":
            method = rng.choice([m for m in ["GET", "POST", "PUT", "PATCH", "DELETE"] if m != method])
        elif pm == "head":
            method = "HEAD"
        elif pm == "si-upper":
            path = route_path(route, si.upper(), n)
        elif pm == "si-short":
            path = route_path(route, si[:-1], n)
        elif pm == "si-noncanon":
            alphabet = "abcdefghijklmnopqrstuvwxyz234567"
            path = route_path(route, si[:-1] + alphabet[alphabet.index(si[-1]) + 2], n)
        elif pm == "si-badlast":
            alphabet = "abcdefghijklmnopqrstuvwxyz234567"
            path = route_path(route, si[:-1] + alphabet[alphabet.index(si[-1]) + 1], n)
        elif pm == "shnum-zeros":
            path = route_path(route, si, "00%d" % n)
        elif pm == "shnum-neg":
            path = route_path(route, si, "-%d" % n)
        elif pm == "extra-seg":
            path = path + "/x"
        elif pm == "unknown":
            path = "/storage/v2/" + path.split("/", 3)[3]
    body = gen_body(rng, w, route, si, n, legit)
    auth = mutate_swissnum(rng, w, sw_kind)
    xauth = mutate_secrets(rng, w, required, values, sec_kind)
    return {"route": route, "si": si, "n": n, "method": method, "path": path, "auth": [a.hex() for a in auth],
            "xauth": [x.hex() for x in xauth], "body": body, "sw": sw_kind, "sec": sec_kind, "pm": pm}


def legit_request(rng, w, route, si, n, body, upload=None):
    idx = (w.imm_si + w.mut_si).index(si)
    values = {"r": w.lease[idx % 3], "c": w.lease[(idx + 1) % 3], "u": w.upload[idx % 2], "w": w.enabler[idx % 2]}
    if upload is not None:
        values["u"] = upload
    return {"route": route, "si": si, "n": n, "method": METHOD[route], "path": route_path(route, si, n),
            "auth": [auth_value(w.swissnum).hex()], "xauth": [x.hex() for x in mutate_secrets(rng, w, REQUIRED[route], values, "ok")],
            "body": body, "sw": "ok", "sec": "ok", "pm": "ok"}


def gen_history(rng, length):
    """a prologue by a well-behaved client (so that shares, uploads in progress and mutable slots exist), then random requests"""
    w = World(rng)
    reqs = []
    if rng.random() < 0.85:
        si = w.imm_si[0]
        t0 = w.target_of(si, 0)
        w.target_of(si, 1)
        w.target_of(si, 2)
        size = w.size[si]
        reqs.append(legit_request(rng, w, "allocate", si, 0, ["a", [0, 1, 2], size]))
        reqs.append(legit_request(rng, w, "write", si, 0, ["w", "bytes 0-%d/*" % (size - 1), t0.hex()]))
        if size > 1:
            k = rng.randrange(1, size)
            reqs.append(legit_request(rng, w, "write", si, 1, ["w", "bytes 0-%d/*" % (k - 1), w.target_of(si, 1)[:k].hex()]))
        m = w.mut_si[0]
        reqs.append(legit_request(rng, w, "rtw", m, 0, ["q", {"tw": [[0, [], [[0, rbytes(rng, 12).hex()]], None],
                                                                    [1, [], [[2, rbytes(rng, 5).hex()]], None]], "rv": []}]))
    if rng.random() < 0.65:
        reqs += contention(rng, w)
    if rng.random() < 0.6:
        reqs += enabler_attack(rng, w, w.mut_si[0], rng.randrange(2, 6))
    if rng.random() < 0.55:
        reqs += realloc_requests(rng, w, rng.choice(w.imm_si), rng.randrange(1, 4))
    tail = [gen_request(rng, w, None) for _ in range(length)]
    if rng.random() < 0.5:
        k = rng.randrange(len(tail) + 1)
        tail = tail[:k] + enabler_attack(rng, w, rng.choice(w.mut_si), rng.randrange(2, 5)) + tail[k:]
    for _ in range(rng.choice([0, 0, 1, 2]) if tail else 0):
        # an upload times out / its client disconnects somewhere in the history
        k = rng.randrange(len(tail) + 1)
        tail.insert(k, expire_step(rng.choice(w.imm_si), rng.randrange(3), rng.choice(["timeout", "disconnect"])))
    if length > 0 and rng.random() < 0.3:
        # the shares change hands: copied to another server, or the node's identity regenerated in place
        mig = [migrate_step(w, rng, rng.random() < 0.6)]
        for si in w.mut_si:
            idx = (w.imm_si + w.mut_si).index(si)
            mig += enabler_attack(rng, w, si, rng.randrange(1, 4))
            if rng.random() < 0.5:
                mig += enabler_battery(rng, w, si, w.enabler[idx % 2])[rng.randrange(0, 6):]
        mig += [gen_request(rng, w, None) for _ in range(rng.randrange(3, 10))]
        return w, reqs + tail + mig
    if rng.random() < 0.5:
        # more cross-secret traffic later in the history, when the random requests have moved things around
        k = rng.randrange(len(tail) + 1)
        tail = tail[:k] + cross_requests(rng, w, w.imm_si[1], rng.randrange(2, 6)) + tail[k:]
    return w, reqs + tail


BAD_SW = ["missing", "wrong", "truncated", "extended", "lowercase", "noscheme", "wrong+ok", "nonutf8", "empty", "schemeonly", "raw",
          "padless"]
CONN_PATTERNS = ["BB", "BB", "Bb", "BG", "GB", "BBB", "BBB", "GBB", "BGB", "BbB"]
ALL_ROUTES = sorted(REQUIRED)


def gen_conn_history(rng):
    """Requests over keep-alive connections.  Connection 0 belongs to a well-behaved client (prologue: finished share,
    upload in progress, mutable slot, concurrent uploads).  Every other connection runs a short script of requests that
    would succeed but for their Authorization header — B: a bad header, b: another bad header, G: the good one —
    repeated on the same endpoint or moved to another one; the scripts are interleaved with each other and with the
    well-behaved client's further requests."""
    w, reqs = gen_history(rng, 0)
    for r in reqs:
        r["conn"] = 0
    scripts = []
    routes = list(ALL_ROUTES)
    rng.shuffle(routes)
    for cid in range(1, rng.choice([4, 5, 6, 7]) + 1):
        pattern = rng.choice(CONN_PATTERNS)
        k1, k2 = rng.sample(BAD_SW, 2)
        h1 = [a.hex() for a in mutate_swissnum(rng, w, k1)]
        h2 = [a.hex() for a in mutate_swissnum(rng, w, k2)]
        route = routes[cid % len(routes)]
        same_endpoint = rng.random() < 0.6
        script = []
        for ch in pattern:
            rt = route if same_endpoint else rng.choice(ALL_ROUTES)
            q = gen_request(rng, w, None, route=rt, force_legit=True, prefer_first=True)
            if METHOD[rt] == "GET" and rng.random() < 0.15:
                q["method"], q["pm"] = "HEAD", "head"
            if ch == "B":
                q["auth"], q["sw"] = list(h1), k1
            elif ch == "b":
                q["auth"], q["sw"] = list(h2), k2
            q["conn"] = cid
            script.append(q)
        scripts.append(script)
    out = list(reqs)
    while any(scripts):
        if rng.random() < 0.25:
            q = gen_request(rng, w, None, force_legit=True, prefer_first=True)
            q["conn"] = 0
            out.append(q)
            continue
        sc = rng.choice([x for x in scripts if x])
        out.append(sc.pop(0))
    return w, out


def realloc_requests(rng, w, si, count):
    """second allocations for a storage index that has uploads in progress: same / other share numbers x same / other
    allocated size x same / other upload secret, each followed by the owners' and the intruder's write / abort / read"""
    reqs = []
    size = w.size.get(si)
    if size is None:
        w.target_of(si, 0)
        size = w.size[si]
    for _ in range(count):
        nums = sorted(set(rng.randrange(3) for _ in range(rng.choice([1, 1, 2]))))
        sz = size if rng.random() < 0.4 else rng.choice([s_ for s_ in (1, 3, 7, 16, 30) if s_ != size])
        reqs.append(legit_request(rng, w, "allocate", si, nums[0], ["a", nums, sz], upload=rng.choice(w.upload)))
        for _ in range(rng.choice([1, 2, 3])):
            n = rng.choice(nums + [rng.randrange(3)])
            sec = rng.choice(w.upload)
            r = rng.random()
            if r < 0.2:
                reqs.append(legit_request(rng, w, "abort", si, n, ["n"], upload=sec))
            elif r < 0.35:
                reqs.append(legit_request(rng, w, "readImm", si, n, ["n"]))
            else:
                t = w.target_of(si, n)
                a = rng.randrange(size)
                b = rng.randrange(a + 1, size + 1)
                reqs.append(legit_request(rng, w, "write", si, n, ["w", "bytes %d-%d/*" % (a, b - 1), t[a:b].hex()], upload=sec))
    return reqs


def cross_requests(rng, w, si, count):
    """well-formed writes / aborts presenting each of the upload secrets in play against each share number"""
    reqs = []
    size = w.size.get(si)
    if size is None:
        w.target_of(si, 0)
        size = w.size[si]
    for _ in range(count):
        n = rng.randrange(3)
        sec = rng.choice(w.upload)
        if rng.random() < 0.25:
            reqs.append(legit_request(rng, w, "abort", si, n, ["n"], upload=sec))
        else:
            t = w.target_of(si, n)
            a = rng.randrange(size)
            b = rng.randrange(a + 1, size + 1)
            reqs.append(legit_request(rng, w, "write", si, n, ["w", "bytes %d-%d/*" % (a, b - 1), t[a:b].hex()], upload=sec))
    return reqs


def enabler_attack(rng, w, si, count):
    """well-formed read-test-write requests (right swissnum, 32-byte secrets) carrying a WRONG write enabler for the
    slot: overwriting existing shares, naming only new share numbers, mixing both, or only reading"""
    idx = (w.imm_si + w.mut_si).index(si)
    reqs = []
    for _ in range(count):
        wrong = w.enabler[(idx + 1) % 2] if rng.random() < 0.5 else rbytes(rng, 32)
        kind = rng.choice(["existing", "new-only", "new-only", "mixed", "read-only"])
        nums = {"existing": rng.choice([[0], [1], [0, 1]]), "new-only": rng.choice([[2], [3], [2, 5], [4]]),
                "mixed": rng.choice([[0, 2], [1, 3], [0, 1, 4]]), "read-only": []}[kind]
        tw = []
        for x in nums:
            writes = [[rng.randrange(10), rbytes(rng, rng.randrange(1, 8)).hex()] for _ in range(rng.choice([0, 1, 1, 2]))]
            tw.append([x, [], writes, rng.choice([None, None, None, 0, rng.randrange(1, 10)])])
        rv = [[rng.randrange(6), rng.randrange(1, 12)] for _ in range(rng.choice([0, 1, 2]) if nums else rng.choice([1, 2]))]
        values = {"r": w.lease[idx % 3], "c": w.lease[(idx + 1) % 3], "w": wrong}
        reqs.append({"route": "rtw", "si": si, "n": 0, "method": "POST", "path": route_path("rtw", si, 0),
                     "auth": [auth_value(w.swissnum).hex()],
                     "xauth": [x.hex() for x in mutate_secrets(rng, w, REQUIRED["rtw"], values, "ok")],
                     "body": ["q", {"tw": tw, "rv": rv}], "sw": "ok", "sec": "wrong-enabler", "pm": "ok"})
    return reqs


def contention(rng, w):
    """2-3 clients upload different share numbers of one storage index, each with its own upload secret (separate
    allocation requests), then everybody's secret is tried against everybody's share"""
    si = w.imm_si[1]
    w.target_of(si, 0)
    size = w.size[si]
    order = [0, 1, 2]
    rng.shuffle(order)
    k = rng.choice([2, 3, 3])
    reqs = []
    for j, n in enumerate(order[:k]):
        w.target_of(si, n)
        reqs.append(legit_request(rng, w, "allocate", si, n, ["a", [n], size], upload=w.upload[j]))
    return reqs + cross_requests(rng, w, si, rng.randrange(4, 10))


# ----------------------------------------------------------------------------- monitor helpers (statement-level)

def lenient_b64(v):
    try:
        return base64.b64decode(v)
    except Exception:
        return None


def presents_swissnum(req, swissnum):
    """does any Authorization value carry the swissnum in some decodable form (first value or not)?"""
    for a in req["auth"]:
        v = bytes.fromhex(a)
        if swissnum in v:
            return True
        parts = v.split(b" ", 1)
        if len(parts) == 2 and lenient_b64(parts[1]) == swissnum:
            return True
        if lenient_b64(v) == swissnum:
            return True
    return False


def presented_secrets(req):
    """every (key text, decoded value) any X-Tahoe-Authorization header could be read as (generous)"""
    res = []
    for x in req["xauth"]:
        v = bytes.fromhex(x)
        try:
            s = v.decode("utf-8", "replace").strip()
        except Exception:
            continue
        parts = s.replace("\t", " ").split(" ", 1)
        if len(parts) == 2:
            try:
                res.append((parts[0].lower(), base64.b64decode(parts[1].encode("utf-8", "replace"))))
            except Exception:
                pass
    return res


def effective_route(req):
    """the route the request is addressed to by its method and path (the generator's path/method mutations can turn
    it into a request for another route, or for none): None when the monitor should not judge its secrets"""
    pm, route = req["pm"], req["route"]
    if pm in ("ok", "si-noncanon", "shnum-zeros"):
        return route
    if pm == "head":
        if METHOD[route] == "GET":
            return route                 # werkzeug adds HEAD to every GET rule
        if route == "write":
            return "readImm"             # HEAD /immutable/<si>/<n> is the (secret-less) read route, not the PATCH route
    return None


def clearly_bad_secrets(req):
    """the statement's 'missing or malformed secrets', unambiguous cases only (see ASSUMPTIONS)"""
    required = [SECRET_NAMES[k] for k in REQUIRED[effective_route(req)]]
    seen = set()
    bad = False
    for x in req["xauth"]:
        v = bytes.fromhex(x)
        try:
            s = v.decode("utf-8")
        except UnicodeDecodeError:
            return "undecodable"
        s = s.strip()
        if " " not in s:
            return "no-separator"
        key, val = s.split(" ", 1)
        if key not in SECRET_NAMES.values():
            return "unknown-key"
        try:
            dec = base64.b64decode(val.encode("ascii"), validate=True)
        except Exception:
            dec = None
        if dec is None:
            # strict decoding fails; lenient may succeed: only call it bad if lenient fails too or yields nothing
            try:
                dec2 = base64.b64decode(val.encode("ascii"))
            except Exception:
                return "undecodable-value"
            if dec2 == b"":
                return "empty-value"
            seen.add(key)
            continue
        if dec == b"":
            return "empty-value"
        if key in ("lease-renew-secret", "lease-cancel-secret") and len(dec) != 32:
            return "lease-length"
        seen.add(key)
    for r in required:
        if r not in seen:
            return "missing"
    return None


# ----------------------------------------------------------------------------- running one history

def run_history(ctx, hist_id, w_swissnum, reqs, monitor_world=None):
    """returns (impl output line, driver line)"""
    stack = Stack("c30-%d" % os.getpid(), w_swissnum)
    outs, toks = ["ctl"], ["@node:" + hx(stack.nodeid)]
    on_conn = {}
    case = {"kind": "hist", "swissnum": w_swissnum.hex(), "reqs": reqs}
    try:
        after_raw = stack.raw_snapshot()
        after_abs = stack.abstract()
        for i, req in enumerate(reqs):
            before_raw, before_abs = after_raw, after_abs
            if req["route"] == "@expire":
                # the upload's own timeout fires (the callback the reactor would call 30 minutes after the last write), or
                # its client disconnects: BucketWriter._abort_due_to_timeout / BucketWriter.disconnected
                key = (req["si"], req["n"])
                for (si_s, n_, bw, _sec) in stack.open_uploads():
                    if (si_s, n_) == key:
                        if req["how"] == "timeout":
                            dc = bw._timeout
                            dc.func(*dc.args, **dc.kw)
                        else:
                            bw.disconnected()
                after_raw, after_abs = stack.raw_snapshot(), stack.abstract()
                outs.append("ctl")
                toks.append("@expire:%s:%d" % key)
                ctx.count("expire:" + req["how"] + (":hit" if key in before_raw[1] else ":none"))
                sub_ = {"kind": "hist", "swissnum": case["swissnum"], "reqs": reqs[:i + 1]}
                # statement-level: only that upload goes away; every other upload and every stored share is untouched
                others_b = {k_: v_ for k_, v_ in before_raw[1].items() if k_ != key}
                others_a = {k_: v_ for k_, v_ in after_raw[1].items() if k_ != key}
                gone = "/%s/%d" % key
                fb = {p_: c_ for p_, c_ in before_raw[0].items() if c_ is not None and not (p_.endswith(gone) and "/incoming/" in p_)}
                fa = {p_: c_ for p_, c_ in after_raw[0].items() if c_ is not None}
                if key in after_raw[1] or others_b != others_a or fb != fa:
                    ctx.violation("the timeout / disconnect of one upload left it in place or changed something else", sub_,
                                  "expire-wrong-effect:" + req["how"])
                continue
            if req["route"] == "@migrate":
                stack = stack.migrated(bytes.fromhex(req["swissnum"]), bytes.fromhex(req["nodeid"]), req["copy"])
                w_swissnum = stack.swissnum
                on_conn = {}
                after_raw, after_abs = stack.raw_snapshot(), stack.abstract()
                outs.append("ctl")
                toks.append("@migrate:%s:%s" % (hx(stack.swissnum), hx(stack.nodeid)))
                ctx.count("migrate:" + ("copy" if req["copy"] else "in-place"))
                # the move itself must not alter the shares (only the incoming/ directory is emptied)
                fb = {p_: c_ for p_, c_ in before_raw[0].items() if "/incoming" not in p_ and p_.startswith("shares")}
                fa = {p_: c_ for p_, c_ in after_raw[0].items() if "/incoming" not in p_ and p_.startswith("shares")}
                if fb != fa:
                    ctx.violation("starting a server on an existing share directory changed share files",
                                  {"kind": "hist", "swissnum": case["swissnum"], "reqs": reqs[:i + 1]}, "server-start-changes-shares")
                continue
            datas = [d for d in stack.share_datas(before_abs) if len(d) >= 4]
            code, rh, body, tok = send(stack, req)
            resp = canon_response(req, code, rh, body)
            pres = presented_secrets(req)
            if resp.startswith("200:alloc:"):
                alloc = resp.split(":")[2].split("/")[1]
                ups_ = [v for (k_, v) in pres if k_ == "upload-secret"]
                if alloc != "-" and ups_:
                    stack.note_allocated(req["si"], [int(x) for x in alloc.split(",")], ups_[-1])
            after_raw = stack.raw_snapshot()
            after_abs = stack.abstract()
            chg = "0" if before_abs == after_abs else "1"
            outs.append("%s:%s" % (resp, chg))
            toks.append(tok)
            # ---- monitor: the property statement on the real server
            sub = {"kind": "hist", "swissnum": case["swissnum"], "reqs": reqs[:i + 1]}
            knows = presents_swissnum(req, w_swissnum)
            if req.get("conn") is not None:
                on_conn[req["conn"]] = on_conn.get(req["conn"], 0) + 1
                ctx.count("conn-request:%s" % ("good" if knows else "bad"))
            if not knows and req.get("conn") is not None:
                # the statement, whatever preceded the request on its connection
                leaked = any(d[j:j + 4] in body for d in datas for j in range(0, len(d) - 3))
                if before_raw != after_raw or leaked or code < 400:
                    ctx.violation("request %d on a keep-alive connection, without the swissnum (%s), was served: status %d, state %s, "
                                  "share bytes in the answer: %s" % (on_conn[req["conn"]], req["sw"], code,
                                                                   "changed" if before_raw != after_raw else "unchanged", leaked), sub,
                                  "bad-swissnum-served:%s:attempt%d-on-connection" % (effective_route(req) or req["route"],
                                                                                      on_conn[req["conn"]]))
            elif not knows:
                if before_raw != after_raw:
                    ctx.violation("a request without the swissnum changed server state", sub,
                                  "noswissnum-state-change-%s-%s" % (req["route"], req["sw"]))
                leaked = any(d[j:j + 4] in body for d in datas for j in range(0, len(d) - 3))
                if leaked:
                    ctx.violation("a request without the swissnum received share bytes", sub,
                                  "noswissnum-share-bytes-%s-%s" % (req["route"], req["sw"]))
                if code < 400 and not (300 <= code < 400):
                    ctx.violation("a request without the swissnum was answered %d" % code, sub,
                                  "noswissnum-status-%s-%s" % (req["route"], req["sw"]))
            else:
                why = clearly_bad_secrets(req) if effective_route(req) is not None else None
                if why is not None:
                    if before_raw != after_raw:
                        ctx.violation("a request with %s secrets changed server state" % why, sub,
                                      "badsecrets-state-change-%s-%s" % (effective_route(req), why))
                    if code < 400:
                        ctx.violation("a request with %s secrets was answered %d" % (why, code), sub,
                                      "badsecrets-accepted-%s-%s" % (effective_route(req), why))
            if req["route"] in ("write", "abort") and req["pm"] in ("ok", "si-noncanon", "shnum-zeros"):
                # the statement: a write to / abort of an in-progress upload requires THAT upload's secret
                tkey = (req["si"], req["n"])
                if tkey in before_raw[1]:
                    own = before_raw[1][tkey][0]
                    others = {v[0] for k_, v in before_raw[1].items() if k_ != tkey}
                    presented = {v for (_, v) in pres}
                    if own not in presented and (presented & others):
                        ctx.count("cross-secret-attempt:" + req["route"])
                        files_same = before_raw[0] == after_raw[0]
                        if code < 400 or after_raw[1].get(tkey) != before_raw[1][tkey] or not files_same:
                            ctx.violation("a %s presenting the upload secret of ANOTHER in-progress share was accepted "
                                          "(status %d, upload %s, disk %s)" % (
                                              req["route"], code,
                                              "unchanged" if after_raw[1].get(tkey) == before_raw[1][tkey] else "changed",
                                              "unchanged" if files_same else "changed"), sub,
                                          "upload-secret-of-other-share-accepted:" + req["route"])
                    elif own in presented:
                        ctx.count("own-secret-attempt:" + req["route"])
            if req["route"] in ("write", "abort"):
                # uploads in progress whose secret the request does not present must not change
                for key, (sec, rng_, closed) in before_raw[1].items():
                    if not any(v == sec for (_, v) in pres):
                        if after_raw[1].get(key) != (sec, rng_, closed):
                            ctx.violation("an upload in progress changed without its upload secret", sub,
                                          "upload-secret-bypass-%s-%s" % (req["route"], req["sec"]))
                # ... and with its secret the owner is not turned away as unauthorized / unknown
                tkey = (req["si"], req["n"])
                if req["pm"] == "ok" and tkey in before_raw[1] and any(v == before_raw[1][tkey][0] for (_, v) in pres) \
                        and req["sw"] == "ok" and req["sec"] == "ok" and code in (401, 404):
                    ctx.violation("the owner of an upload in progress was answered %d on a %s presenting the upload's secret" % (
                        code, req["route"]), sub, "own-secret-refused:" + req["route"])
            else:
                # any other request (an allocation in particular) must leave every upload in progress whose secret it does
                # not present exactly as it is: same writer state, same incoming file
                for key, (sec, rng_, closed) in before_raw[1].items():
                    if any(v == sec for (_, v) in pres):
                        continue
                    inc = [p_ for p_ in before_raw[0] if p_.endswith("/%s/%d" % key) and "/incoming/" in p_]
                    same_file = all(after_raw[0].get(p_) == before_raw[0][p_] for p_ in inc)
                    if after_raw[1].get(key) != (sec, rng_, closed) or not same_file:
                        now = after_raw[1].get(key)
                        ctx.violation("a %s request that does not present the upload secret of the in-progress share %s/%d %s it "
                                      "(status %d)" % (req["route"], key[0], key[1],
                                                       "removed" if now is None else "replaced" if now[0] != sec else "changed", code),
                                      sub, "upload-taken-over-by-allocate" if req["route"] == "allocate"
                                      else "upload-changed-by-%s" % req["route"])
            if req["route"] == "rtw":
                enablers = {}
                for it in before_abs.split(" "):
                    if it.startswith("M"):
                        k, rest = it[1:].split("=", 1)
                        enablers[k] = (rest.split(":")[0], rest.split(":")[1].split("[")[0])
                after_m = {}
                for it in after_abs.split(" "):
                    if it.startswith("M"):
                        k, rest = it[1:].split("=", 1)
                        after_m[k] = (rest.split(":")[0], rest.split(":")[1].split("[")[0])
                for k, (we, data) in enablers.items():
                    we_b = b"" if we == "-" else bytes.fromhex(we)
                    if not any(v == we_b for (_, v) in pres) and after_m.get(k) != (we, data):
                        ctx.violation("a mutable share changed without its write enabler", sub,
                                      "write-enabler-bypass-%s" % req["sec"])
                # ... and the slot's own write enabler keeps working (a well-formed request presenting it is not a 401)
                if req["pm"] == "ok" and req["body"][0] == "q" and req["sw"] == "ok" and req["sec"] in ("ok", "own-enabler") \
                        and code == 401:
                    mine = {bytes.fromhex(v[0]) if v[0] != "-" else b"" for k, v in enablers.items() if k.split("/")[0] == req["si"]}
                    if mine and all(any(v == e for (_, v) in pres) for e in mine):
                        ctx.violation("read-test-write presenting the slot's write enabler was answered 401", sub,
                                      "own-enabler-refused")
                # the statement: "mutable writes require the write enabler" — a slot that already holds shares
                if req["pm"] == "ok" and req["body"][0] == "q":
                    slot = {int(k.split("/")[1]): bytes.fromhex(v[0]) if v[0] != "-" else b"" for k, v in enablers.items()
                            if k.split("/")[0] == req["si"]}
                    generous = {v for (_, v) in pres} | {(v + b"\x00" * 32)[:32] for (_, v) in pres}
                    if slot and not any(e in generous for e in slot.values()):
                        named = [x[0] for x in req["body"][1]["tw"]]
                        cls = ("read-only" if not named else "existing" if all(x in slot for x in named)
                               else "new-only" if not any(x in slot for x in named) else "mixed")
                        ctx.count("wrong-enabler-attempt:" + cls)
                        marker = "/%s/" % req["si"]
                        fb = {p_: c_ for p_, c_ in before_raw[0].items() if marker in p_ + "/"}
                        fa = {p_: c_ for p_, c_ in after_raw[0].items() if marker in p_ + "/"}
                        new_shares = sorted(int(k.split("/")[1]) for k in after_m if k.split("/")[0] == req["si"] and k not in enablers)
                        accepted = named and code < 400          # a request that only reads is not a write: no refusal demanded
                        if fb != fa or new_shares or accepted:
                            ctx.violation("read-test-write with a wrong write enabler on a slot holding shares %s: status %d, "
                                          "slot directory %s, new shares %s" % (sorted(slot), code,
                                                                                  "unchanged" if fb == fa else "changed", new_shares),
                                          sub, "wrong-enabler-accepted:" + cls)
            nontrivial = before_abs != "adv=0"
            ctx.case((req["route"], req["sw"], req["sec"], req["pm"], code, chg) if nontrivial else None)
            ctx.count("route:%s:%d" % (req["route"], code))
            ctx.count("sw:" + req["sw"])
            ctx.count("sec:" + req["sec"])
            if req["pm"] != "ok":
                ctx.count("path:" + req["pm"])
            if chg == "1":
                ctx.count("state-changing")
        final = after_abs
    finally:
        stack.close()
    return " ".join(outs) + " || " + final, "hist %s %s" % (hx(bytes.fromhex(case["swissnum"])), " ".join(toks))


def mask_head(reqs, line):
    """the model does not know HEAD strips the body: compare status only for HEAD requests"""
    parts = line.split(" || ")
    items = parts[0].split(" ")
    for i, r in enumerate(reqs):
        j = i + 1                                   # item 0 is the `@node` control token
        if r["method"] == "HEAD" and j < len(items):
            f = items[j].split(":")
            items[j] = "%s:-:%s" % (f[0], f[-1])
    return " ".join(items) + " || " + parts[1]


# ----------------------------------------------------------------------------- function-level correspondence

B64_POOL = [b"A", b"Q", b"Y", b"Z", b"a", b"z", b"0", b"9", b"+", b"/", b"=", b"=", b"=", b" ", b"!", b"-", b"_", b"\n", b"\t",
            "é".encode(), " ".encode(), b"\xff"]


def gen_b64_text(rng):
    n = rng.choice([0, 1, 2, 3, 4, 5, 6, 7, 8, 9, 12, 16])
    return b"".join(rng.choice(B64_POOL) for _ in range(n))


def impl_b64d(raw):
    try:
        s = raw.decode("utf8")
    except UnicodeDecodeError:
        return "U"
    try:
        return hx(base64.b64decode(s))
    except ValueError:
        return "E"


def impl_extract(required, hdrs):
    from allmydata.storage.http_server import _extract_secrets, ClientSecretsException
    from allmydata.storage.http_common import Secrets
    try:
        strs = [h.decode("utf8") for h in hdrs]
    except UnicodeDecodeError:
        return "undecodable"
    req = {s for s in Secrets if s.value in required}
    try:
        d = _extract_secrets(strs, req)
    except ClientSecretsException as e:
        m = str(e)
        kind = ("bad-header" if m.startswith("Bad header") else "empty-secret" if m.startswith("Failed to decode")
                else "lease-length" if m.startswith("Lease secrets") else "wrong-set" if m.startswith("Expected") else "?" + m)
        return "err:" + kind
    return "ok:" + ",".join("%s=%s" % (k.value, hx(v)) for k, v in d.items())


def impl_route(method, path):
    from allmydata.storage.http_server import HTTPServer
    from werkzeug.exceptions import NotFound, MethodNotAllowed
    from werkzeug.routing import RequestRedirect
    from allmydata.storage.common import si_b2a
    names = {"version": "version", "allocate_buckets": "allocate", "abort_share_upload": "abort", "write_share_data": "write",
             "list_shares": "listImm", "read_share_chunk": "readImm", "add_or_renew_lease": "lease",
             "advise_corrupt_share_immutable": "corruptImm", "mutable_read_test_write": "rtw", "read_mutable_chunk": "readMut",
             "enumerate_mutable_shares": "listMut", "advise_corrupt_share_mutable": "corruptMut"}
    adapter = HTTPServer._app.url_map.bind("127.0.0.1")
    try:
        rule, kw = adapter.match(path, method=method, return_rule=True)
    except (NotFound, MethodNotAllowed):
        return "noroute"
    except RequestRedirect:
        return "redirect"
    f = HTTPServer._app._endpoints[rule.endpoint]
    inner = dict(zip(f.__code__.co_freevars, [c.cell_contents for c in f.__closure__]))["f"]
    req = dict(zip(inner.__code__.co_freevars, [c.cell_contents for c in inner.__closure__]))["required_secrets"]
    si = kw.get("storage_index")
    return "%s:%s:%d:%s" % (names[rule.endpoint], si_b2a(si).decode() if si is not None else "", kw.get("share_number", 0),
                            ",".join(sorted(s.value for s in req)) or "-")


def gen_route_case(rng):
    from allmydata.storage.common import si_b2a
    si = si_b2a(rbytes(rng, 16)).decode()
    alphabet = "abcdefghijklmnopqrstuvwxyz234567"
    r = rng.random()
    if r < 0.25:
        si = si[:-1] + rng.choice(alphabet)
    elif r < 0.35:
        si = rng.choice([si[:-1], si + "a", si.upper(), si[:10] + "1" + si[11:], si[:10] + "-" + si[11:], ""])
    n = rng.choice(["0", "1", "7", "007", "255", "4294967296", "-1", "+1", "1.0", "x", ""])
    route = rng.choice(sorted(REQUIRED))
    path = route_path(route, si, n)
    if rng.random() < 0.15:
        path = rng.choice([path + "/extra", path.replace("/v1/", "/v2/"), path.replace("/storage", ""), "/" + path.split("/", 2)[2],
                           path.replace("immutable", "mutable"), path.replace("shares", "share")])
    method = rng.choice(["GET", "GET", "POST", "PUT", "PATCH", "HEAD", "DELETE", "OPTIONS"]) if rng.random() < 0.6 else METHOD[route]
    if "//" in path or path.endswith("/"):
        return None
    return method, path


def function_level(ctx):
    rng = ctx.rng
    lines, impl, cases = [], [], []
    # base64 / utf-8
    for i in range(ctx.budget(1500, 40000)):
        raw = gen_b64_text(rng)
        lines.append("b64d " + hx(raw))
        impl.append(impl_b64d(raw))
        cases.append({"kind": "b64d", "text": raw.hex()})
        ctx.case(("b64d", raw) if raw else None)
    ctx.count("fn:b64decode", len(lines))
    n0 = len(lines)
    for i in range(ctx.budget(300, 5000)):
        raw = rbytes(rng, rng.randrange(0, 40))
        lines.append("b64e " + hx(raw))
        impl.append(hx(base64.b64encode(raw)))
        cases.append({"kind": "b64e", "data": raw.hex()})
        ctx.case(("b64e", raw) if raw else None)
    # utf-8 decoding of arbitrary bytes
    UTF = [b"a", b"\xc2\xa0", b"\xe2\x80\x83", b"\xf0\x9f\x98\x80", b"\xc0", b"\xc1\xbf", b"\xe0\x80\x80", b"\xe0\xa0\x80", b"\xed\x9f\xbf",
           b"\xed\xa0\x80", b"\xef\xbf\xbf", b"\xf4\x8f\xbf\xbf", b"\xf4\x90\x80\x80", b"\xf5", b"\x80", b"\xff", b"\xc2", b"\xe2\x80", b"\xf0\x9f\x98"]
    for i in range(ctx.budget(500, 10000)):
        raw = b"".join(rng.choice(UTF) for _ in range(rng.randrange(0, 5)))
        if rng.random() < 0.2:
            raw = rbytes(rng, rng.randrange(1, 5))
        lines.append("utf8 " + hx(raw))
        try:
            impl.append(",".join(str(ord(c)) for c in raw.decode("utf8")) or "-")
        except UnicodeDecodeError:
            impl.append("U")
        cases.append({"kind": "utf8", "data": raw.hex()})
        ctx.case(("utf8", raw) if raw else None)
    # _extract_secrets called directly
    for i in range(ctx.budget(1500, 30000)):
        w = World(rng)
        required = rng.choice(["", "u", "rc", "rcu", "rcw", "rcuw", "w"])
        values = {"r": w.lease[0], "c": w.lease[1], "u": w.upload[0], "w": w.enabler[0]}
        kind = rng.choice(SEC_MUT)
        if not required and kind not in ("ok", "extra", "nonutf8", "nospace"):
            kind = "extra"
        if len(required) == 4 and kind == "extra":
            kind = "dup-diff"
        hdrs = mutate_secrets(rng, w, required, values, kind)
        if rng.random() < 0.1:
            hdrs.append(rng.choice([b"", b" ", b"upload-secret", b"upload-secret  QQ==", b"write-enabler QQ", b"lease-renew-secret " + b"QUFB" * 11]))
        lines.append("secrets %s %s" % (",".join(SECRET_NAMES[k] for k in required) or "-", " ".join(hx(h) for h in hdrs)))
        impl.append(impl_extract([SECRET_NAMES[k] for k in required], hdrs))
        cases.append({"kind": "secrets", "required": required, "hdrs": [h.hex() for h in hdrs], "mut": kind})
        ctx.case(("secrets", required, tuple(hdrs)))
        ctx.count("extract:" + impl[-1].split(":")[0] + (":" + impl[-1].split(":")[1] if impl[-1].startswith("err") else ""))
    # URL map
    for i in range(ctx.budget(1500, 30000)):
        c = gen_route_case(rng)
        if c is None:
            continue
        method, path = c
        lines.append("route %s %s" % (method, path))
        impl.append(impl_route(method, path))
        cases.append({"kind": "route", "method": method, "path": path})
        ctx.case(("route", method, path))
        ctx.count("urlmap:" + impl[-1].split(":")[0])
    model = ctx.model(lines)
    ctx.compare("function level: b64decode / b64encode / utf-8 / _extract_secrets / url_map.match", cases, impl, model)


CORPUS_SECRETS = [
    ("u", [b"upload-secret QUJD"]),
    ("u", [b"upload-secret QUJD", b"upload-secret REVG"]),
    ("u", [b"upload-secret !!QU!!JD"]),
    ("u", [b"upload-secret QUJD=QUJD"]),
    ("u", [b"upload-secret QQ==QUJD"]),
    ("u", [b"upload-secret QQ"]),
    ("u", [b"upload-secret Q"]),
    ("u", [b"upload-secret "]),
    ("u", [b"upload-secret"]),
    ("u", [b" upload-secret  QUJD "]),
    ("u", [" upload-secret QUJD ".encode()]),
    ("u", [b"upload-secret QUJD", b"write-enabler QUJD"]),
    ("rc", [b"lease-renew-secret " + base64.b64encode(b"r" * 32), b"lease-cancel-secret " + base64.b64encode(b"c" * 31)]),
    ("rc", [b"lease-renew-secret " + base64.b64encode(b"r" * 32), b"lease-cancel-secret " + base64.b64encode(b"c" * 32)]),
    ("", []),
    ("", [b"upload-secret QUJD"]),
    ("u", []),
    ("u", [b"upload-secret QUJD", b"bogus"]),
    ("u", [b"bogus", b"upload-secret QUJD"]),
    ("u", [b"upload-secret QUJD", b"lease-renew-secret QUJD"]),
]


def migrate_step(w, rng, copy):
    """control entry: from here on the share directory is served by a node with another nodeid and swissnum (a copy of
    the directory on another server, or the same directory after the node's identity was regenerated)"""
    w.swissnum, w.other_swissnum = rbytes(rng, len(w.swissnum)), w.swissnum      # the old swissnum is now a wrong one
    return {"route": "@migrate", "swissnum": w.swissnum.hex(), "nodeid": rbytes(rng, 20).hex(), "copy": copy, "method": "CTL",
            "path": "-", "auth": [], "xauth": [], "body": ["n"], "sw": "ctl", "sec": "ctl", "pm": "ctl", "si": "", "n": 0}


def expire_step(si, n, how):
    """control entry: the upload (si, n), if there is one, times out / its client disconnects"""
    return {"route": "@expire", "si": si, "n": n, "how": how, "method": "CTL", "path": "-", "auth": [], "xauth": [],
            "body": ["n"], "sw": "ctl", "sec": "ctl", "pm": "ctl"}


def enabler_battery(rng, w, si, right):
    """read-test-write requests against a slot, every one well formed but for its write enabler, then the owner's"""
    def flip(b):
        return bytes([b[0] ^ 1]) + b[1:]
    variants = [("other", w.enabler[0] if right != w.enabler[0] else w.enabler[1]), ("random", rbytes(rng, 32)),
                ("one-bit-off", flip(right)), ("truncated", right[:31]), ("extended", right + b"\x00"),
                ("zeros", b"\x00" * 32)]
    reqs = []
    for name, we in variants:
        tw = rng.choice([[[0, [], [[0, rbytes(rng, 4).hex()]], None]], [[1, [], [], 0]], [[2, [], [[0, "58"]], None]],
                         [[0, [], [[1, "59"]], None], [3, [], [[0, "5a"]], None]]])
        reqs.append(_rtw_req(rng, w, si, we, tw, [[0, 8]], "wrong-enabler"))
    q = _rtw_req(rng, w, si, right, [[0, [], [[0, "5151"]], None]], [[0, 8]], "ok")
    q["xauth"] = [x for x in q["xauth"] if not bytes.fromhex(x).startswith(b"write-enabler")]       # enabler missing
    q["sec"] = "drop"
    reqs.append(q)
    # without the (new) swissnum: the old server's swissnum, and none at all
    for auth, tag in (([auth_value(w.other_swissnum).hex()], "wrong"), ([], "missing")):
        q = _rtw_req(rng, w, si, right, [[0, [], [[0, "5252"]], None]], [[0, 8]], "ok")
        q["auth"], q["sw"] = auth, tag
        reqs.append(q)
        q = legit_request(rng, w, "readMut", si, 0, ["n"])
        q["auth"], q["sw"] = auth, tag
        reqs.append(q)
    # the owner: the true enabler still works, and reads see what the owner wrote
    own = _rtw_req(rng, w, si, right, [[0, [], [[0, "4f4b"]], None]], [[0, 8]], "own-enabler")
    reqs += [own, legit_request(rng, w, "readMut", si, 0, ["n"]), legit_request(rng, w, "listMut", si, 0, ["n"])]
    return reqs


def _rtw_req(rng, w, si, enabler, tw, rv, tag):
    idx = (w.imm_si + w.mut_si).index(si)
    values = {"r": w.lease[idx % 3], "c": w.lease[(idx + 1) % 3], "w": enabler}
    return {"route": "rtw", "si": si, "n": 0, "method": "POST", "path": route_path("rtw", si, 0),
            "auth": [auth_value(w.swissnum).hex()],
            "xauth": [x.hex() for x in mutate_secrets(rng, w, REQUIRED["rtw"], values, "ok")],
            "body": ["q", {"tw": tw, "rv": rv}], "sw": "ok", "sec": tag, "pm": "ok"}


def corpus_histories():
    """The fixed corpus of request histories: one minimal history per known mechanism (the three seeded changes of
    C30), built from a fixed random stream — independent of VERIF_SEED.  Returns [(name, swissnum, requests)]."""
    import random
    rng = random.Random("C30-fixed-corpus")
    res = []
    # --- C30-a: the upload secret of one in-progress share must not open another share of the same storage index
    w = World(rng)
    si = w.imm_si[1]
    t0, t1 = w.target_of(si, 0), w.target_of(si, 1)
    size = w.size[si]
    reqs = [legit_request(rng, w, "allocate", si, 0, ["a", [0], size], upload=w.upload[0]),
            legit_request(rng, w, "allocate", si, 1, ["a", [1], size], upload=w.upload[1]),
            legit_request(rng, w, "write", si, 1, ["w", "bytes 0-0/*", t1[:1].hex()], upload=w.upload[0]),    # other share's secret
            legit_request(rng, w, "abort", si, 0, ["n"], upload=w.upload[1]),                                  # other share's secret
            legit_request(rng, w, "write", si, 0, ["w", "bytes 0-%d/*" % (size - 1), t0.hex()], upload=w.upload[0]),
            legit_request(rng, w, "abort", si, 1, ["n"], upload=w.upload[2]),                                  # nobody's secret
            legit_request(rng, w, "abort", si, 1, ["n"], upload=w.upload[1])]
    res.append(("cross-upload-secret", w.swissnum, reqs))
    # --- C30-d: an allocation must not remove or replace somebody else's upload in progress, whatever size it asks for;
    #     the owner can still finish and read its bytes back
    w = World(rng)
    si = w.imm_si[0]
    t0, t1 = w.target_of(si, 0), w.target_of(si, 1)
    size = max(w.size[si], 2)
    w.size[si] = size
    t0 = (t0 * 2)[:size]
    victim, intruder = w.upload[0], w.upload[1]
    reqs = [legit_request(rng, w, "allocate", si, 0, ["a", [0, 1], size], upload=victim),
            legit_request(rng, w, "write", si, 0, ["w", "bytes 0-0/*", t0[:1].hex()], upload=victim),
            legit_request(rng, w, "allocate", si, 0, ["a", [0], size + 3], upload=intruder),      # other size, other secret
            legit_request(rng, w, "allocate", si, 0, ["a", [0, 2], size], upload=intruder),       # same size, other secret
            legit_request(rng, w, "allocate", si, 1, ["a", [1], size + 1], upload=victim),        # other size, own secret
            legit_request(rng, w, "write", si, 0, ["w", "bytes 0-1/*", b"\xee\xee".hex()], upload=intruder),
            legit_request(rng, w, "abort", si, 0, ["n"], upload=intruder),
            legit_request(rng, w, "write", si, 0, ["w", "bytes 1-%d/*" % (size - 1), t0[1:].hex()], upload=victim),
            legit_request(rng, w, "readImm", si, 0, ["n"]),
            legit_request(rng, w, "abort", si, 2, ["n"], upload=intruder)]
    res.append(("allocate-over-upload", w.swissnum, reqs))
    # --- C30-e: shares served by a node other than the one that recorded them (directory copied to server B with another
    #     nodeid and swissnum; then B's identity regenerated in place): the write-enabler check is the same as ever
    w = World(rng)
    m = w.mut_si[0]
    right = w.enabler[(w.imm_si + w.mut_si).index(m) % 2]
    reqs = [_rtw_req(rng, w, m, right, [[0, [], [[0, "6f776e6572277320646174612030"]], None],
                                        [1, [], [[0, "6f776e6572277320646174612031"]], None]], [], "ok")]
    first_swissnum = w.swissnum
    reqs.append(migrate_step(w, rng, True))
    reqs += enabler_battery(rng, w, m, right)
    reqs.append(migrate_step(w, rng, False))
    reqs += enabler_battery(rng, w, m, right)[:3] + enabler_battery(rng, w, m, right)[-3:]
    res.append(("migrated-shares", first_swissnum, reqs))
    # --- timeouts / disconnects: the only way an upload goes away without its secret; nothing else is touched, the share
    #     number can be allocated afresh by anybody afterwards
    w = World(rng)
    si = w.imm_si[0]
    t0, t1 = w.target_of(si, 0), w.target_of(si, 1)
    size = max(w.size[si], 2)
    t0, t1 = (t0 * 2)[:size], (t1 * 2)[:size]
    reqs = [legit_request(rng, w, "allocate", si, 0, ["a", [0, 1, 2], size], upload=w.upload[0]),
            legit_request(rng, w, "write", si, 0, ["w", "bytes 0-0/*", t0[:1].hex()], upload=w.upload[0]),
            legit_request(rng, w, "write", si, 1, ["w", "bytes 0-0/*", t1[:1].hex()], upload=w.upload[0]),
            expire_step(si, 0, "timeout"),
            legit_request(rng, w, "write", si, 0, ["w", "bytes 1-%d/*" % (size - 1), t0[1:].hex()], upload=w.upload[0]),   # 404
            legit_request(rng, w, "write", si, 1, ["w", "bytes 1-%d/*" % (size - 1), t1[1:].hex()], upload=w.upload[0]),   # 201
            expire_step(si, 2, "disconnect"), expire_step(si, 2, "timeout"), expire_step(si, 1, "timeout"),
            legit_request(rng, w, "allocate", si, 0, ["a", [0, 2], size], upload=w.upload[1]),
            legit_request(rng, w, "write", si, 0, ["w", "bytes 0-%d/*" % (size - 1), t0.hex()], upload=w.upload[1]),
            legit_request(rng, w, "readImm", si, 0, ["n"]), legit_request(rng, w, "readImm", si, 1, ["n"])]
    res.append(("upload-timeout", w.swissnum, reqs))
    # --- C30-b: a wrong write enabler on a slot that holds shares: new-only, mixed, existing, read-only
    w = World(rng)
    m = w.mut_si[0]
    right = w.enabler[(w.imm_si + w.mut_si).index(m) % 2]
    wrong = w.enabler[((w.imm_si + w.mut_si).index(m) + 1) % 2]
    reqs = [_rtw_req(rng, w, m, right, [[0, [], [[0, "616263646566"]], None], [1, [], [[2, "7778"]], None]], [], "ok"),
            _rtw_req(rng, w, m, wrong, [[2, [], [[0, "58585858"]], None]], [], "wrong-enabler"),
            _rtw_req(rng, w, m, wrong, [[0, [], [[1, "5959"]], None], [3, [], [[0, "5a"]], None]], [[0, 8]], "wrong-enabler"),
            _rtw_req(rng, w, m, wrong, [[1, [], [], 0]], [], "wrong-enabler"),
            _rtw_req(rng, w, m, wrong, [], [[0, 6]], "wrong-enabler"),
            _rtw_req(rng, w, m, right, [[2, [], [[0, "5151"]], None]], [[0, 6]], "ok")]
    res.append(("wrong-enabler", w.swissnum, reqs))
    # --- C30-c: what preceded a request on its keep-alive connection must not matter
    w = World(rng)
    si = w.imm_si[0]
    t0 = w.target_of(si, 0)
    size = w.size[si]
    bad = [auth_value(w.other_swissnum).hex()]
    reqs = [dict(legit_request(rng, w, "allocate", si, 0, ["a", [0, 1], size]), conn=0),
            dict(legit_request(rng, w, "write", si, 0, ["w", "bytes 0-%d/*" % (size - 1), t0.hex()]), conn=0)]
    for cid, (route, n, body, hdrs) in enumerate([("readImm", 0, ["n"], [bad, bad, bad]),
                                                  ("allocate", 2, ["a", [2], size], [[], [], []]),
                                                  ("abort", 1, ["n"], [[b"".hex()], [b"".hex()]]),
                                                  ("lease", 0, ["n"], [bad, None, bad, bad])], start=1):
        for h in hdrs:
            q = legit_request(rng, w, route, si, n, body)
            if h is not None:
                q["auth"], q["sw"] = list(h), "wrong" if h == bad else "missing" if h == [] else "empty"
            q["conn"] = cid
            reqs.append(q)
    res.append(("keep-alive-retry", w.swissnum, reqs))
    return res


def run(ctx):
    _prepare()
    if ctx.replay:
        c = ctx.replay["case"]
        if c.get("kind") == "hist":
            sw = bytes.fromhex(c["swissnum"])
            impl, line = run_history(ctx, 0, sw, c["reqs"])
            model = ctx.model([line])
            if model is not None:
                ctx.compare("request history through HTTPServer.get_resource()", [c], [mask_head(c["reqs"], impl)],
                            [mask_head(c["reqs"], model[0])])
        return
    # fixed corpus first
    lines = ["secrets %s %s" % (",".join(SECRET_NAMES[k] for k in r) or "-", " ".join(hx(h) for h in hs)) for (r, hs) in CORPUS_SECRETS]
    impl = [impl_extract([SECRET_NAMES[k] for k in r], hs) for (r, hs) in CORPUS_SECRETS]
    model = ctx.model(lines)
    ctx.compare("_extract_secrets corpus", [{"kind": "secrets", "required": r, "hdrs": [h.hex() for h in hs]} for (r, hs) in CORPUS_SECRETS],
                impl, model)
    cases, impls, lines = [], [], []
    for (name, sw, reqs) in corpus_histories():
        impl, line = run_history(ctx, name, sw, reqs)
        cases.append({"kind": "hist", "swissnum": sw.hex(), "reqs": reqs, "corpus": name})
        impls.append(mask_head(reqs, impl))
        lines.append(line)
        ctx.count("corpus-history:" + name)
    model = ctx.model(lines)
    if model is not None:
        ctx.compare("fixed corpus of request histories", cases, impls, [mask_head(c["reqs"], m) for c, m in zip(cases, model)])
    if os.environ.get("VERIF_CORPUS_ONLY"):
        ctx.note("VERIF_CORPUS_ONLY: random families skipped")
        return
    function_level(ctx)
    # histories through the real resource tree
    cases, impls, lines = [], [], []
    nh = ctx.budget(140, 3000)
    nc = ctx.budget(45, 900)
    for i in range(nh + nc):
        if i < nc:
            w, reqs = gen_conn_history(ctx.rng)
        else:
            w, reqs = gen_history(ctx.rng, ctx.rng.choice([12, 25, 40]))
        impl, line = run_history(ctx, i, w.first_swissnum, reqs)
        cases.append({"kind": "hist", "swissnum": w.first_swissnum.hex(), "reqs": reqs})
        impls.append(mask_head(reqs, impl))
        lines.append(line)
    model = ctx.model(lines)
    if model is not None:
        model = [mask_head(c["reqs"], m) for c, m in zip(cases, model)]
        ctx.compare("request history through HTTPServer.get_resource() (status:body:state-changed per request, final state)",
                    cases, impls, model)
    if cases:
        ctx.sample({"requests": [(r["method"], r["path"], r["sw"], r["sec"]) for r in cases[0]["reqs"][:6]], "impl": impls[0][:300]})
