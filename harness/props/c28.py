"""C28 — storage space reservations are honoured (storage/server.py allocate_buckets accounting)."""
import os

import props.imm_util as U

ID = "C28"
LEAN_PROPS = "Tahoe.Props.C28"
DRIVER = "C28"
GENERATED = ["storage"]
SOURCES = ["src/allmydata/storage/server.py", "src/allmydata/storage/immutable.py", "src/allmydata/util/fileutil.py"]
DESIGN_REF = "DESIGN.md §2 C28"
TECHNIQUE = ("Lean 4 theorems over the executable model of allocate_buckets' space accounting (disk-stats step f_bavail*f_frsize "
             "minus reserved_space floored at 0, remaining = available - sum of in-progress reservations, per-share acceptance "
             "test, release in bucket_writer_closed incl. abort's directory cleanup, Foolscap disconnects, read-only servers); "
             "differential correspondence of seeded allocate/write/close/abort/timeout/disconnect histories against a real "
             "StorageServer whose os.statvfs is patched to a simulated statvfs record")
LEVEL_TEXT = ("Proved in Lean: never_overcommits and never_overcommits_statvfs (every state, request and statvfs record), "
              "released_on_close_or_abort, abort_always_releases (reachable states of the server with its directory tree; sibling "
              "uploads present or not), lost_connection_releases_space (reachable states, Foolscap disconnect), "
              "readonly_accepts_none (any size; the repair fixes/C28-readonly.diff is in /repo since fb80776; "
              "readonly_accepts_none_unfixed_counterexample / readonly_unfixed_partial describe the pre-fix code only). "
              "The model is tied to the code by comparing accepted sets, allocated_size() and container bytes of seeded histories "
              "over random statvfs geometries, capacities, reserved_space settings and read-only servers; a fixed corpus "
              "(seeds C28-a..e, C22-b, the repaired read-only defect) runs first.")
LEVEL_NOTE = ("Lean kernel + standard axioms; model hand-written, tied by correspondence; get_disk_stats' formula is modelled as "
              "freeBytes/diskAvail and exercised through the real fileutil code on a patched os.statvfs (f_bsize != f_frsize "
              "geometries included); platforms without statvfs (get_available_space() = None) are not modelled.")
RULE = ("seeded histories (10-40 ops) against a real StorageServer with a simulated disk (os.statvfs record: f_bavail 0..250 "
        "per call, f_frsize 1/2/4/8 with f_bsize equal, larger, smaller or 0; fixed corpus with 4096/4096, 4096/1MiB, 4096/64KiB, "
        "512/4096, f_bsize 0), reserved_space in {0,10,60,1000}, 1 in 4 servers read-only, half of the histories through the "
        "Foolscap front end; VERIF_CORPUS_ONLY=1 runs the fixed corpus only; a case is one operation; distinct = distinct "
        "(configuration, history prefix digest, op); non-trivial = allocate_buckets calls and every op while an upload is in progress")
TRUSTED = ["lean/Tahoe/Storage/Immutable.lean is a hand transcription of storage/immutable.py and the immutable part of storage/server.py",
           "harness/shims/collections_extended (RangeMap stand-in used by BucketWriter._already_written)",
           "os.statvfs patched to a simulated statvfs record (f_frsize, f_bsize, f_blocks, f_bfree, f_bavail); the real "
           "fileutil.get_disk_stats / get_available_space code runs on it",
           "lease records are serialised by the real HashedLeaseSerializer and passed to the model as opaque bytes",
           "harness Canary object standing in for a foolscap RemoteReference (Broker semantics)"]
ASSUMPTIONS = ["the platform offers statvfs (get_available_space never returns None) - not modelled otherwise",
               "the disk's free space is constant during one allocate_buckets call",
               "single-threaded server; no other process modifies the storage directory"]

CORPUS = [
    # (readonly, reserved, ops)
    (True, 0, [["A", 0, [0, 1], 0, 0, 1000], ["S"], ["A", 0, [0], 5, 0, 1000], ["D"]]),           # DESIGN §3 probe
    (False, 10, [["A", 0, [0, 1, 2], 40, 0, 100], ["S"], ["A", 1, [0], 10, 1, 100], ["A", 1, [1], 11, 1, 100],
                 ["C", 0], ["A", 1, [1], 11, 1, 100], ["X", 1], ["S"], ["A", 2, [0, 1, 2, 3], 0, 0, 5], ["D"]]),
    (False, 1000, [["A", 0, [0], 1, 0, 999], ["A", 0, [0], 0, 0, 999], ["A", 0, [1], 1, 0, 1001], ["S"]]),
    (False, 0, [["A", 0, [0, 1], 30, 0, 60], ["T", 1800], ["S"], ["A", 0, [0, 1, 2], 30, 0, 60], ["A", 0, [3], 1, 0, 10], ["S"]]),
]

CORPUS += [
    # Foolscap front end: reservations of a lost connection must be released (seeded C22-b)
    (False, 0, [["A", 0, [0, 1, 2], 30, 0, 100, 1], ["S"], ["C", 0], ["K", 1], ["S"], ["A", 0, [1, 2, 3], 30, 1, 100, 2], ["S"]]),
]

CORPUS += [
    # seeded C28-a: the reservation of an upload is its full allocated size, whatever was written
    # (tail written first): a second 40-byte share does not fit into free=60
    (False, 0, [["A", 0, [0], 40, 0, 100], ["W", 0, 39, "ff"], ["S"], ["A", 0, [1], 40, 0, 60], ["S"]]),
    # seeded C28-b: available space exactly 0 on a writable server (free == reserved_space, free < reserved_space)
    (False, 50, [["A", 0, [0, 1], 5000, 0, 50], ["S"], ["A", 1, [0], 1, 0, 10], ["S"]]),
    # seeded C28-c: abort while a sibling upload (same SI; same prefix directory) is still in progress
    (False, 0, [["A", 0, [0, 1], 30, 0, 100], ["X", 0], ["S"], ["A", 0, [2], 30, 1, 100], ["S"], ["X", 1], ["S"]]),
    (False, 0, [["A", 0, [0], 30, 0, 100], ["A", 2, [0], 30, 0, 100], ["X", 0], ["S"], ["X", 1], ["S"]]),
    # repaired defect (fixes/C28-readonly.diff): read-only server, zero-size shares, with and without a connection
    (True, 0, [["A", 1, [0, 1, 2], 0, 0, 10 ** 9, 1], ["S"], ["D"]]),
]


def free_fn(rng):
    return rng.choice([0, 5, 20, 40, 59, 60, 61, 100, 150, 250, 10 ** 6])


# seeded C28-e: statvfs geometries (f_frsize, f_bsize); the `free` field of an allocation is f_bavail in
# fragments, the bytes really free are f_bavail * f_frsize whatever f_bsize says.
# (readonly, reserved_space, (f_frsize, f_bsize), ops)
CORPUS_GEO = [
    (False, 1000, (4096, 4096), [["A", 0, [0, 1, 2], 5000, 0, 3], ["S"], ["C", 0], ["A", 0, [2], 5000, 0, 3], ["S"]]),
    (False, 1000, (4096, 1048576), [["A", 0, [0, 1, 2], 5000, 0, 3], ["S"], ["X", 0], ["A", 1, [0, 1], 5000, 1, 3], ["S"]]),
    (False, 0, (4096, 65536), [["A", 0, [0, 1], 4000, 0, 1], ["S"], ["A", 1, [0], 97, 0, 1], ["S"]]),
    (False, 0, (512, 4096), [["A", 0, [0, 1, 2], 2000, 0, 10], ["S"], ["A", 1, [0, 1], 600, 1, 10, 1], ["K", 1], ["S"]]),
    (False, 100, (4096, 0), [["A", 0, [0, 1], 4000, 0, 2], ["S"]]),
    (True, 0, (4096, 1048576), [["A", 0, [0, 1], 0, 0, 3], ["A", 0, [0], 10, 0, 3], ["S"]]),
]


def run(ctx):
    n_hist = 0 if os.environ.get("VERIF_CORPUS_ONLY") else ctx.budget(160, 10000)
    cases = []
    if ctx.replay:
        c = ctx.replay["case"]
        cases = [(c["readonly"], c["reserved"], tuple(c.get("geo", (1, 1))), c["ops"], True)]
    else:
        cases = [(ro, rs, (1, 1), ops, True) for (ro, rs, ops) in CORPUS]
        cases += [(ro, rs, geo, ops, True) for (ro, rs, geo, ops) in CORPUS_GEO]
        for i in range(n_hist):
            ro = ctx.rng.random() < 0.25
            rs = ctx.rng.choice([0, 0, 10, 60, 1000])
            geo = (1, 1)
            if ctx.rng.random() < 0.4:
                fr = ctx.rng.choice([1, 2, 4, 8])
                geo = (fr, ctx.rng.choice([fr, fr * 4, fr * 16, max(1, fr // 2), 0]))
            ops = U.gen_history(ctx.rng, ctx.rng.choice([10, 20, 40]), free_fn=(lambda r, fr=geo[0]: free_fn(r) // fr),
                                sizes=(0, 0, 1, 5, 10, 20, 30, 40, 60), n_si=2, shnums=(0, 1, 2, 3, 8),
                                foolscap=0.5)
            cases.append((ro, rs, geo, ops, False))
    lines, impl, recs = [], [], []
    for ro, rs, geo, ops, concrete in cases:
        conc, line, out, viol = U.run_history(ctx, "C28", ops, readonly=ro, reserved=rs, concrete=concrete, sis=(0, 1), geo=geo)
        ctx.count("statvfs:bsize==frsize" if geo[0] == geo[1] else "statvfs:bsize!=frsize")
        lines.append(line)
        impl.append(out)
        case = {"readonly": ro, "reserved": rs, "geo": list(geo), "ops": conc}
        recs.append(case)
        h = hash((ro, rs, geo))
        inprog = False
        for o in conc:
            h = hash((h, repr(o)))
            ctx.case(h if (o[0] == "A" or inprog) else None)
            inprog = inprog or o[0] == "A"
        ctx.count("server:readonly" if ro else "server:writable")
        for what, sig, detail in viol:
            ctx.violation(what, case, sig, detail)
    model = ctx.model(lines)
    ctx.compare("allocate/close/abort history on a simulated disk (accepted sets, allocated_size, container bytes)",
                recs, impl, model)
    ctx.sample({"line": lines[-1][:300], "impl": impl[-1][:300]})
