"""Shared helpers of the immutable-storage checks (C22, C28, C29): a real StorageServer in a temp
dir with a twisted Clock and a simulated disk, history generation, execution on the real code with
canonical outputs (the line protocol of lean/Tahoe/Storage/ImmDrv.lean), and the reference monitor.

Operations of a history (JSON-serialisable lists):
  ["A", si, [shnums], size, secret_id, free]   StorageServer.allocate_buckets (direct call)
  ["A", si, [shnums], size, secret_id, free, conn]   FoolscapStorageServer.remote_allocate_buckets with the
                                               canary of connection `conn`; W/C/X on the returned handles go
                                               through FoolscapBucketWriter.remote_write/close/abort
  ["K", conn]                                  connection `conn` is lost: its canary fires the registered watchers
  ["Z"]                                        the server process is killed and restarted on the same directory
  ["W", wid, off, hexdata]                     BucketWriter.write through handle wid
  ["C", wid] close   ["X", wid] abort   ["Y", wid] disconnected
  ["T", dt] clock.advance(dt)
  ["R", si, sh, off, len] get_buckets(si)[sh].read   ["L", si] get_buckets(si)
  ["S"] allocated_size()    ["D"] dump all container bytes
"""
import contextlib
import os
import shutil
import tempfile

from common import hx, WORK

NODEID = b"\x07" * 20
TIMEOUT = 30 * 60


def si_bytes(si):
    # even storage indexes share one 2-character prefix directory, odd ones another
    return bytes([0x30 + 8 * (si % 2)]) + b"%015d" % si


def prefix_ids(n_si=4):
    """si -> id of its prefix directory (= smallest si with the same base32 prefix)"""
    from allmydata.storage.common import storage_index_to_dir
    first = {}
    res = {}
    for si in range(n_si):
        p = storage_index_to_dir(si_bytes(si)).split(os.sep)[0]
        first.setdefault(p, si)
        res[si] = first[p]
    return res


def dump_dirs(ss, n_si=4):
    """Existing directories below shares/: FD.si (final bucket dir), FP.p, ID.si (incoming bucket dir), IP.p"""
    from allmydata.storage.common import storage_index_to_dir
    pid = prefix_ids(n_si)
    out = {"FD": [], "FP": [], "ID": [], "IP": []}
    for si in range(n_si):
        d = storage_index_to_dir(si_bytes(si))
        if os.path.isdir(os.path.join(ss.sharedir, d)):
            out["FD"].append(si)
        if os.path.isdir(os.path.join(ss.incomingdir, d)):
            out["ID"].append(si)
        if pid[si] == si:
            if os.path.isdir(os.path.join(ss.sharedir, d.split(os.sep)[0])):
                out["FP"].append(si)
            if os.path.isdir(os.path.join(ss.incomingdir, d.split(os.sep)[0])):
                out["IP"].append(si)
    # anything else below shares/ (unknown directory) is reported verbatim
    known = set(storage_index_to_dir(si_bytes(si)).split(os.sep)[0] for si in range(n_si))
    extra = sorted(x for x in os.listdir(ss.sharedir) if x != "incoming" and x not in known)
    toks = ["%s.%d" % (t, n) for t in ("FD", "FP", "ID", "IP") for n in sorted(out[t])] + ["?" + x for x in extra]
    return ",".join(toks) or "-"


def secrets(secret_id):
    return (b"R%031d" % secret_id, b"C%031d" % secret_id)


@contextlib.contextmanager
def simulated_disk(disk):
    """Patch os.statvfs so that fileutil.get_disk_stats sees a disk with `disk['free']` fragments of
    `disk['frsize']` bytes available to a non-privileged user and a preferred I/O size `disk['bsize']`
    (defaults 1/1: `free` is then in bytes).  The real get_disk_stats / get_available_space code runs on it;
    the bytes really free are f_bavail * f_frsize."""
    real = os.statvfs

    class _St:
        def __init__(self, d):
            self.f_frsize = d.get("frsize", 1)
            self.f_bsize = d.get("bsize", 1)
            self.f_blocks = 10 ** 15
            self.f_bfree = d["free"]
            self.f_bavail = d["free"]

    def fake(path):
        return _St(disk)
    os.statvfs = fake
    try:
        yield
    finally:
        os.statvfs = real


class Canary:
    """Stand-in for the RemoteReference of an uploader's canary, following foolscap.broker.Broker:
    notifyOnDisconnect returns the marker (callback, args, kwargs) (runs the callback at once when the
    connection is already lost), dontNotifyOnDisconnect removes a registered marker and ignores an
    unknown one (and does nothing after the loss), losing the connection runs the watchers still
    registered (foolscap: `eventually`, here: immediately, in registration order)."""

    def __init__(self, conn):
        self.conn = conn
        self.disconnected = False
        self.watchers = []

    def notifyOnDisconnect(self, callback, *args, **kwargs):
        marker = (callback, args, kwargs)
        if self.disconnected:
            callback(*args, **kwargs)
        else:
            self.watchers.append(marker)
        return marker

    def dontNotifyOnDisconnect(self, marker):
        if self.disconnected:
            return
        if marker in self.watchers:
            self.watchers.remove(marker)

    def lose_connection(self):
        if self.disconnected:
            return
        self.disconnected = True
        watchers, self.watchers = self.watchers, []
        for (cb, args, kwargs) in watchers:
            cb(*args, **kwargs)


def make_server(storedir, clock, reserved=0, readonly=False):
    from allmydata.storage.server import StorageServer
    return StorageServer(storedir, NODEID, clock=clock, reserved_space=reserved, readonly_storage=readonly)


def lease_record(clock, secret_id, owner_num=0):
    """The 72 bytes the newest immutable schema writes for this lease at the current clock time
    (secrets hashed by the real serializer; the model treats the record as opaque bytes)."""
    from allmydata.storage.immutable_schema import NEWEST_SCHEMA_VERSION
    from allmydata.storage.lease import LeaseInfo
    from allmydata.storage.server import DEFAULT_RENEWAL_TIME
    rs, cs = secrets(secret_id)
    li = LeaseInfo(owner_num, rs, cs, clock.seconds() + DEFAULT_RENEWAL_TIME, NODEID)
    return NEWEST_SCHEMA_VERSION.lease_serializer.serialize(li)


def tmpdir(tag):
    base = os.path.join(WORK, "tmp")
    os.makedirs(base, exist_ok=True)
    return tempfile.mkdtemp(prefix=tag + "-", dir=base)


def listdir_order(ss, si):
    from allmydata.storage.common import storage_index_to_dir
    from allmydata.storage.server import NUM_RE
    d = os.path.join(ss.sharedir, storage_index_to_dir(si_bytes(si)))
    try:
        return [int(f) for f in os.listdir(d) if NUM_RE.match(f)]
    except OSError:
        return []


def dump_disk(ss, si_names):
    """All container files: F.si.sh=hex,…;I.si.sh=hex,…  (sorted)"""
    def walk(root, tag, skip_incoming):
        res = []
        if not os.path.isdir(root):
            return res
        for prefix in sorted(os.listdir(root)):
            if skip_incoming and prefix == "incoming":
                continue
            pd = os.path.join(root, prefix)
            if not os.path.isdir(pd):
                continue
            for sidir in os.listdir(pd):
                sd = os.path.join(pd, sidir)
                if not os.path.isdir(sd):
                    continue
                for sh in os.listdir(sd):
                    with open(os.path.join(sd, sh), "rb") as f:
                        res.append((si_names.get(sidir, -1), int(sh), f.read()))
        res.sort()
        return ["%s.%d.%d=%s" % (tag, a, b, hx(c)) for a, b, c in res]
    fin = walk(ss.sharedir, "F", True)
    inc = walk(ss.incomingdir, "I", False)
    return (",".join(fin) or "-") + ";" + (",".join(inc) or "-")


def show_list(xs):
    xs = list(xs)
    return ",".join(xs) if xs else "-"


class Ref:
    """Minimal reference written from the C22/C28 statements: per (si, shnum) an upload is absent,
    in progress (allocated size, byte array, written mask) or complete (bytes)."""

    def __init__(self):
        self.inprog = {}     # wid -> dict(key, size, data, mask, last_ok, last_try)
        self.complete = {}   # key -> bytes
        self.reserved = {}   # wid -> size, for handles whose upload is still in progress


class Runner:
    """Runs one history on a real StorageServer; produces the canonical outputs and evaluates the
    property statements (monitor) after every operation."""

    def __init__(self, ctx, pid, readonly=False, reserved=0, monitor=True, geo=(1, 1)):
        from twisted.internet.task import Clock
        self.ctx = ctx
        self.pid = pid
        self.clock = Clock()
        self.dir = tmpdir(pid.lower())
        self.geo = tuple(geo)     # (f_frsize, f_bsize) of the simulated disk
        self.disk = {"free": 10 ** 12, "frsize": self.geo[0], "bsize": self.geo[1]}
        self.readonly = readonly
        self.reserved_space = reserved
        self.ss = make_server(self.dir, self.clock, reserved, readonly)
        from allmydata.storage.server import FoolscapStorageServer
        self.fss = FoolscapStorageServer(self.ss)   # the front end a real uploader talks to
        self.canaries = {}       # conn -> Canary
        self.fhandles = []       # wid -> FoolscapBucketWriter or None (direct call)
        self.handles = []        # wid -> BucketWriter
        self.hkey = []           # wid -> (si, sh, size)
        self.si_names = {}
        self.monitor = monitor
        self.ref = Ref()
        self.viol = []

    def cleanup(self):
        shutil.rmtree(self.dir, ignore_errors=True)

    # ------------------------------------------------------------------ monitor helpers
    def flag(self, what, sig, detail=None):
        self.viol.append((what, sig, detail))

    def _ref_drop(self, wid):
        self.ref.inprog.pop(wid, None)
        self.ref.reserved.pop(wid, None)

    def check_state(self, sis):
        """C22: visible iff completed; aborted/timed-out uploads leave nothing; reservation released."""
        ss = self.ss
        for si in sis:
            vis = set(ss.get_buckets(si_bytes(si)).keys())
            want = set(sh for (s, sh) in self.ref.complete if s == si)
            if vis != want:
                extra = vis - want
                self.flag("get_buckets shows %s, completed uploads are %s (si %d)" % (sorted(vis), sorted(want), si),
                          "c22-visible-before-close" if extra else "c22-completed-share-missing")
        live = sum(self.ref.reserved.values())
        if ss.allocated_size() != live:
            self.flag("allocated_size()=%d but uploads in progress reserve %d" % (ss.allocated_size(), live),
                      "c22-reservation-not-released" if ss.allocated_size() > live else "c22-reservation-lost")

    # ------------------------------------------------------------------ operations
    def op(self, o):
        from allmydata.interfaces import ConflictingWriteError, DataTooLargeError, NoSpace
        from twisted.internet.error import AlreadyCalled, AlreadyCancelled
        import struct
        ss, ref = self.ss, self.ref
        kind = o[0]
        self.ctx.count("op:" + kind)
        if kind == "A":
            si, shs, size, secret_id, free = o[1:6]
            conn = o[6] if len(o) > 6 else None
            self.disk["free"] = free
            sib = si_bytes(si)
            from allmydata.storage.common import storage_index_to_dir
            self.si_names[os.path.basename(storage_index_to_dir(sib))] = si
            shset = set(shs)
            order = listdir_order(ss, si)
            rec = lease_record(self.clock, secret_id)
            rs, cs = secrets(secret_id)
            free_tok = "%d" % free if self.geo == (1, 1) else "%dx%dx%d" % (free, self.geo[0], self.geo[1])
            line = "A:%d:%s:%d:%s:%s:%s" % (si, show_list(str(x) for x in shset), size, hx(rec), free_tok,
                                            show_list(str(x) for x in order))
            if conn is not None:
                line += ":%d" % conn
                canary = self.canaries.setdefault(conn, Canary(conn))
                self.ctx.count("alloc:via-foolscap")
            before_alloc = ss.allocated_size()
            try:
                if conn is None:
                    already, writers = ss.allocate_buckets(sib, rs, cs, shset, size)
                else:
                    already, writers = self.fss.remote_allocate_buckets(sib, rs, cs, shset, size, canary)
            except NoSpace:
                self.ctx.count("alloc:NoSpace")
                return line, "NoSpace"
            except struct.error:
                return line, "StructError"
            ws = []
            for sh, bw in writers.items():
                wid = len(self.handles)
                fbw = None
                if conn is not None:
                    fbw, bw = bw, bw._bucket_writer
                self.fhandles.append(fbw)
                self.handles.append(bw)
                self.hkey.append((si, sh, size))
                ws.append("%d.%d" % (sh, wid))
                ref.inprog[wid] = {"key": (si, sh), "size": size, "data": bytearray(size), "mask": bytearray(size), "conn": conn,
                                   "last_ok": self.clock.seconds(), "last_try": self.clock.seconds()}
                ref.reserved[wid] = size
                if (si, sh) in ref.complete:
                    self.flag("allocate_buckets handed out a writer for a completed share", "c22-writer-for-complete-share")
            self.ctx.count("alloc:accepted", len(writers))
            self.ctx.count("alloc:refused", len(shset) - len(writers) - len(shset & set(already)))
            self.alloc_info = {"size": size, "accepted": len(writers), "before": before_alloc,
                               "free": free * self.geo[0],      # bytes really free: f_bavail * f_frsize
                               "requested": len(shset)}
            return line, "a=%s|w=%s" % (show_list(str(x) for x in sorted(already)), show_list(ws))
        if kind in ("W", "H", "C", "X", "Y") and o[1] >= len(self.handles):
            # a fixed (corpus / replay) history names a handle this implementation never handed out
            self.ctx.count("op-on-missing-handle")
            tok = {"W": "W:%d:%d:%s" % (o[1], o[2], o[3]) if kind == "W" else "",
                   "H": "H:%d:%d:%s" % (o[1], o[2], o[3]) if kind == "H" else "", "C": "C:%d" % o[1]}.get(kind, "X:%d" % o[1])
            return tok, "nohandle"
        if kind in ("W", "H"):
            # "H" = the HTTP storage server's PATCH handler (http_server.write_share_data): bucket.write(),
            # and bucket.close() as soon as write() answers "finished" (201 CREATED instead of 200 OK)
            _, wid, off, dhex = o
            data = b"" if dhex == "-" else bytes.fromhex(dhex)
            line = "%s:%d:%d:%s" % (kind, wid, off, dhex)
            bw = self.handles[wid]
            r = ref.inprog.get(wid)
            now = self.clock.seconds()
            try:
                if kind == "H":
                    fin = bw.write(off, data)
                elif self.fhandles[wid] is not None:
                    self.fhandles[wid].remote_write(off, data)     # returns nothing over the wire
                    fin = bw._is_finished()
                else:
                    fin = bw.write(off, data)
                out = "ok.T" if fin else "ok.F"
            except ConflictingWriteError:
                out = "conflict"
            except DataTooLargeError:
                out = "toolarge"
            except (AlreadyCalled, AlreadyCancelled, AssertionError):   # (subclasses of ValueError: test first)
                out = "closed"
            except ValueError:
                out = "valueerror"
            self.ctx.count("write:" + out)
            if r is not None:
                r["last_try"] = now
                n = r["size"]
                lo, hi = off, min(off + len(data), n)
                conflict = any(r["mask"][i] and r["data"][i] != data[i - off] for i in range(lo, hi))
                if out.startswith("ok"):
                    r["last_ok"] = now
                    if conflict:
                        self.flag("a write overlapping earlier data with different bytes was accepted",
                                  "c22-conflicting-write-accepted")
                    for i in range(lo, hi):
                        r["data"][i] = data[i - off]
                        r["mask"][i] = 1
                    if bool(fin) != all(r["mask"]):
                        # write()'s answer is what the HTTP server closes the upload on
                        missing = [i for i in range(n) if not r["mask"][i]]
                        self.flag("write(%d, %d bytes) answered finished=%s but %d of %d bytes of the share %s written (first missing offset %s)" % (
                            off, len(data), bool(fin), n - len(missing), n, "are" if n - len(missing) != 1 else "is",
                            missing[0] if missing else None),
                            "c22-write-reports-finished-early" if fin else "c22-write-reports-finished-late")
                elif conflict:
                    self.ctx.count("write:conflict-detected")
            elif out.startswith("ok"):
                self.flag("a write through a closed/aborted handle was accepted", "c22-write-after-close")
            if kind == "H" and out.startswith("ok"):
                if fin:
                    bw.close()
                    out = "created"
                    if r is not None:
                        if not all(r["mask"]):
                            self.flag("HTTP PATCH closed the upload of share %s (201) with %d of %d bytes written: the share is "
                                      "visible before its upload completed" % (r["key"], sum(r["mask"]), r["size"]),
                                      "c22-visible-before-complete:http-finished-flag")
                        ref.complete[r["key"]] = bytes(r["data"])
                        self._ref_drop(wid)
                    self.ctx.count("http:created")
                else:
                    out = "ok"
            rs = "x" if bw.closed else show_list("%d-%d" % (m.start, m.stop) for m in bw._already_written.ranges())
            return line, out + "/" + rs
        if kind == "C":
            wid = o[1]
            bw = self.handles[wid]
            try:
                if self.fhandles[wid] is not None:
                    self.fhandles[wid].remote_close()
                else:
                    bw.close()
                out = "ok"
            except AssertionError:
                out = "closed"
            r = ref.inprog.get(wid)
            if out == "ok":
                if r is None:
                    self.flag("close() succeeded on a handle that was already closed/aborted", "c22-close-after-close")
                else:
                    ref.complete[r["key"]] = bytes(r["data"])
                    self._ref_drop(wid)
            self.ctx.count("close:" + out)
            return "C:%d" % wid, out
        if kind in ("X", "Y"):
            wid = o[1]
            bw = self.handles[wid]
            if kind == "X":
                if self.fhandles[wid] is not None:
                    self.fhandles[wid].remote_abort()
                else:
                    bw.abort()
            else:
                bw.disconnected()
            r = ref.inprog.get(wid)
            if r is not None:
                if os.path.exists(bw.incominghome):
                    self.flag("aborted upload left its incoming file", "c22-abort-leaves-file")
                self._ref_drop(wid)
            return "X:%d" % wid, "ok"
        if kind == "Z":
            # the server process is killed and a new StorageServer is started on the same directory (same clock).
            # Nothing of the old process survives: its BucketWriter objects, their timers and the canary
            # registrations are gone (the handles are kept only so that later ops on them read "closed").
            from allmydata.storage.server import FoolscapStorageServer
            for bw in self.handles:
                if not bw.closed:
                    if bw._timeout.active():
                        bw._timeout.cancel()
                    bw.closed = True
            for c in self.canaries.values():
                c.watchers = []
            self.ss = make_server(self.dir, self.clock, self.reserved_space, self.readonly)
            self.fss = FoolscapStorageServer(self.ss)
            # statement (C29 clause 4 / C22): uploads still in progress are discarded, reservations gone
            # (check_state right after verifies allocated_size() == 0 and the visible set)
            for wid, r in list(ref.inprog.items()):
                if os.path.exists(self.handles[wid].incominghome):
                    self.flag("incoming file of share %s survives the restart" % (r["key"],), "c29-incoming-not-discarded")
                self._ref_drop(wid)
            self.ctx.count("restart")
            return "Z", "ok"
        if kind == "K":
            conn = o[1]
            canary = self.canaries.setdefault(conn, Canary(conn))
            canary.lose_connection()
            # statement: a disconnected upload leaves no share behind and releases its reservation
            # (the released reservation and the visibility are checked by check_state right after)
            for wid, r in list(ref.inprog.items()):
                if r.get("conn") == conn:
                    bw = self.handles[wid]
                    left = os.path.exists(bw.incominghome)
                    if left or not bw.closed:
                        n_done = sum(1 for w in range(len(self.handles))
                                     if self.fhandles[w] is not None and self.handles[w].closed and w not in ref.inprog)
                        self.flag("connection %d lost but the upload of share %s is still in progress (incoming file %s): "
                                  "its share number cannot be allocated again and its reservation is kept" % (
                                      conn, r["key"], "present" if left else "absent"),
                                  "c22-disconnect-leaves-upload")
                    self.ctx.count("disconnect:aborted-upload")
                    self._ref_drop(wid)
            return "K:%d" % conn, "ok"
        if kind == "T":
            dt = o[1]
            self.clock.advance(dt)
            now = self.clock.seconds()
            for wid, r in list(ref.inprog.items()):
                bw = self.handles[wid]
                if now - r["last_try"] >= TIMEOUT:
                    if not bw.closed:
                        self.flag("upload idle for %ds was not timed out" % (now - r["last_try"]), "c22-timeout-missed")
                    self.ctx.count("timeout-fired")
                    if os.path.exists(bw.incominghome):
                        self.flag("timed-out upload left its incoming file", "c22-timeout-leaves-file")
                    self._ref_drop(wid)
                elif now - r["last_ok"] < TIMEOUT:
                    if bw.closed:
                        self.flag("upload timed out %ds after its last accepted write" % (now - r["last_ok"]), "c22-timeout-early")
                elif bw.closed:
                    # the statement does not say whether a rejected write postpones the timeout: both accepted
                    self._ref_drop(wid)
            return "T:%d" % dt, "ok"
        if kind == "R":
            _, si, sh, off, ln = o
            b = ss.get_buckets(si_bytes(si))
            if sh not in b:
                out = "absent"
                if (si, sh) in ref.complete:
                    self.flag("completed share not readable", "c22-completed-share-missing")
            else:
                got = b[sh].read(off, ln)
                out = hx(got)
                want = ref.complete.get((si, sh))
                if want is None:
                    self.flag("read succeeded on a share whose upload never completed", "c22-visible-before-close")
                elif got != want[off:off + ln]:
                    sig = "c22-read-mismatch"
                    if len(got) > len(want[off:off + ln]):
                        sig = "c22-read-beyond-allocated-size"
                    self.flag("read(%d,%d) returned %s, written bytes are %s" % (off, ln, hx(got), hx(want[off:off + ln])), sig)
            return "R:%d:%d:%d:%d" % (si, sh, off, ln), out
        if kind == "L":
            si = o[1]
            b = ss.get_buckets(si_bytes(si))
            out = show_list("%d.%d" % (sh, b[sh].get_length()) for sh in sorted(b))
            for sh in b:
                want = ref.complete.get((si, sh))
                if want is not None and b[sh].get_length() != len(want):
                    self.flag("get_length()=%d, allocated size %d" % (b[sh].get_length(), len(want)), "c22-length-mismatch")
            return "L:%d" % si, out
        if kind == "S":
            return "S", str(ss.allocated_size())
        if kind == "D":
            return "D", dump_disk(ss, self.si_names)
        raise ValueError("unknown op %r" % (o,))

    def run(self, ops, sis=(0, 1, 2)):
        lines, outs = [], []
        with simulated_disk(self.disk):
            for o in ops:
                l, out = self.op(o)
                lines.append(l)
                outs.append(out)
                if self.monitor:
                    self.check_state(sis)
        head = "imm %d %d" % (1 if self.readonly else 0, self.reserved_space)
        return (head + " " + " ".join(lines)).strip(), " ".join(outs) or "-"


def gen_history(rng, n_ops, free_fn=None, sizes=(0, 1, 3, 5, 8, 10, 16, 24, 40), n_si=3, shnums=(0, 1, 2, 3, 8, 9, 17),
                foolscap=0.0, http_frac=0.0, restarts=False):
    """Structured history: allocate/write (overlapping, out-of-order, conflicting)/close/abort/
    disconnect/timeout/read/list.  Handles are tracked only approximately (the real result decides);
    stale handles are used on purpose."""
    ops = []
    est = []       # allocations requested so far (the Resolver picks real handles at run time)
    # a history is either driven through the Foolscap front end (uploaders = connections with a
    # canary; multi-share requests; connections get lost) with a few direct calls mixed in, or by
    # direct StorageServer calls only
    via_foolscap = rng.random() < foolscap
    # ... or (direct histories only) mostly through the HTTP server's PATCH handler, which closes the
    # upload itself as soon as write() answers "finished"; chunks then come in back-to-front /
    # middle-out / tail-first orders (see Resolver)
    http = (not via_foolscap) and rng.random() < http_frac
    live_conns, next_conn = [], 1
    for _ in range(n_ops):
        r = rng.random()
        if restarts and est and rng.random() < 0.025:
            ops.append(["Z"])
            live_conns = []
            continue
        if via_foolscap and live_conns and rng.random() < 0.07:
            c = rng.choice(live_conns)
            live_conns.remove(c)
            ops.append(["K", c])
            continue
        if r < 0.16 or not est:
            si = rng.randrange(n_si)
            k = rng.choice([2, 2, 3, 3, 4, 1]) if via_foolscap else rng.choice([1, 1, 2, 3, 4])
            shs = sorted(set(rng.choice(shnums) for _ in range(k)))
            size = rng.choice(sizes)
            free = free_fn(rng) if free_fn else 10 ** 9
            op = ["A", si, shs, size, rng.randrange(3), free]
            if via_foolscap and rng.random() < 0.9:
                if live_conns and rng.random() < 0.6:
                    c = rng.choice(live_conns)
                else:
                    c, next_conn = next_conn, next_conn + 1
                    live_conns.append(c)
                op.append(c)
            ops.append(op)
            est.append(("alloc", si, shs, size))
        elif r < 0.56:
            ops.append(["H?" if (http and rng.random() < 0.8) else "W?", rng.random(), rng.random(), rng.random(), rng.random()])
        elif r < 0.66:
            ops.append(["C?", rng.random()])
        elif r < 0.72:
            ops.append([rng.choice(["X?", "Y?"]), rng.random()])
        elif r < 0.78:
            ops.append(["T", rng.choice([1, 5, 600, 899, 900, 1799, 1800, 1801, 3600])])
        elif r < 0.90:
            ops.append(["R", rng.randrange(n_si), rng.choice(shnums[:4]), rng.choice([0, 0, 1, 3, 7, 12, 50]),
                        rng.choice([0, 1, 4, 10, 100])])
        elif r < 0.94:
            ops.append(["L", rng.randrange(n_si)])
        elif r < 0.97:
            ops.append(["S"])
        else:
            ops.append(["D"])
    ops.append(["D"])
    return ops


class Resolver:
    """Turns the abstract ops (`W?`, `C?`, `X?`, `Y?` with random reals) into concrete ones using the
    handles that really exist at that point of the run (so histories stay mostly valid)."""

    def __init__(self, rng):
        self.rng = rng
        self.content = {}   # wid -> intended bytes
        self.plans = {}     # wid -> remaining chunks of an HTTP-style upload

    def resolve(self, o, runner):
        n = len(runner.handles)
        if o[0] in ("W?", "H?", "C?", "X?", "Y?") and n == 0:
            return ["S"]
        live = [w for w in range(n) if not runner.handles[w].closed]
        def pick(x):
            if live and x < 0.88:
                return live[int(x / 0.88 * len(live)) % len(live)]
            return int(x * 1000) % n
        if o[0] == "H?":
            # chunked upload in a non-sequential order: the next chunk of a per-upload permutation
            wid = pick(o[1])
            size = runner.hkey[wid][2]
            if wid not in self.content:
                self.content[wid] = bytes(self.rng.randrange(1, 256) for _ in range(size + 8))
            plan = self.plans.get(wid)
            if plan is None:
                csz = max(1, [1, 2, 3, 5][int(o[2] * 4) % 4])
                chunks = [(a, min(a + csz, size)) for a in range(0, size, csz)]
                order = int(o[3] * 4) % 4
                if order == 0:
                    chunks.reverse()                                   # back to front
                elif order == 1:
                    chunks = chunks[-1:] + chunks[:-1]                 # tail first, then front to back
                elif order == 2:
                    mid = len(chunks) // 2                             # middle out
                    chunks = [c for pair in zip(chunks[mid:], reversed(chunks[:mid] + [None] * (len(chunks) - 2 * mid)))
                              for c in pair if c is not None] + ([] if len(chunks) % 2 == 0 or mid == 0 else [])
                    seen = set()
                    chunks = [c for c in chunks if not (c in seen or seen.add(c))]
                plan = self.plans[wid] = chunks
            if plan:
                a, b = plan.pop(0)
            else:
                a, b = 0, min(size, 2)
            return ["H", wid, a, hx(self.content[wid][a:b])]
        if o[0] == "W?":
            wid = pick(o[1])
            size = runner.hkey[wid][2]
            if wid not in self.content:
                rr = self.rng
                self.content[wid] = bytes(rr.randrange(1, 256) for _ in range(size + 8))
            c = self.content[wid]
            m = o[2]
            if m < 0.08:
                off, ln = int(o[3] * (size + 2)), 0                       # empty write
            elif m < 0.2:
                off = int(o[3] * (size + 3)); ln = 1 + int(o[4] * 8)       # may cross the allocated size
            elif m < 0.35:
                off, ln = 0, size                                        # whole share at once
            else:
                off = int(o[3] * max(size, 1)); ln = 1 + int(o[4] * max(size - off, 1))
                ln = min(ln, max(size - off, 0)) if m < 0.95 else ln
            data = (c + bytes(64))[off:off + ln]
            if m > 0.35 and (o[4] * 7) % 1 < 0.22 and data:
                # deliberately different bytes (a conflict when it overlaps earlier data)
                i = int(o[3] * len(data)) % len(data)
                data = data[:i] + bytes([(data[i] + 1) % 256]) + data[i + 1:]
            return ["W", wid, off, hx(data)]
        wid = pick(o[1])
        return [o[0][0], wid]


def run_history(ctx, pid, abstract_ops, readonly=False, reserved=0, concrete=False, sis=(0, 1, 2), dirs=False, geo=(1, 1)):
    """Execute (resolving abstract ops unless `concrete`); returns (concrete_ops, line, out, violations)."""
    runner = Runner(ctx, pid, readonly=readonly, reserved=reserved, geo=geo)
    res = Resolver(ctx.rng)
    conc = []
    lines, outs = [], []
    try:
        with simulated_disk(runner.disk):
            for o in abstract_ops:
                c = o if concrete or not o[0].endswith("?") else res.resolve(o, runner)
                conc.append(c)
                l, out = runner.op(c)
                lines.append(l)
                outs.append(out + "#" + dump_dirs(runner.ss) if dirs else out)
                runner.check_state(sis)
                if pid == "C28" and c[0] == "A":
                    c28_after_alloc(runner)
        head = "imm %d %d" % (1 if readonly else 0, reserved)
        if dirs:
            head = "immd %d %d %s" % (1 if readonly else 0, reserved,
                                      ",".join("%d=%d" % kv for kv in sorted(prefix_ids().items())))
        return conc, (head + " " + " ".join(lines)).strip(), " ".join(outs) or "-", runner.viol
    finally:
        runner.cleanup()


def c28_after_alloc(runner):
    """C28 statement, evaluated after one allocate_buckets call on the real server:
    accepted allocations + uploads in progress + reserved space never exceed the disk;
    a read-only server accepts none."""
    info = getattr(runner, "alloc_info", None)
    if info is None:
        return
    runner.alloc_info = None
    if info["accepted"] == 0:
        return
    if runner.readonly:
        runner.flag("read-only server accepted %d share(s) of allocated_size=%d" % (info["accepted"], info["size"]),
                    "c28-readonly-accepts-size0" if info["size"] == 0 else "c28-readonly-accepts")
        return
    total = runner.ss.allocated_size()
    if total > max(0, info["free"] - runner.reserved_space):
        runner.flag("after accepting %d x %d: in progress %d + reserved_space %d > free %d" % (
            info["accepted"], info["size"], total, runner.reserved_space, info["free"]),
            "c28-overcommit" if runner.geo[0] == runner.geo[1] else "c28-overcommit:statvfs-bsize-ne-frsize")
