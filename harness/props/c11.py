"""C11 — mutable version ordering and rollback resistance (mutable/servermap.py, publish.py seqnum choice)."""
ID = "C11"
LEAN_PROPS = "Tahoe.Props.C11"
DRIVER = "C11"
GENERATED = []
SOURCES = ["src/allmydata/mutable/servermap.py", "src/allmydata/mutable/publish.py",
           "src/allmydata/mutable/filenode.py"]
DESIGN_REF = "DESIGN.md §2 C11"
TECHNIQUE = ("Lean 4 theorems over an executable model of ServerMap (every query function), several survey passes into one "
             "servermap, the Publish seqnum choice and ServermapUpdater._check_for_done/_send_more_queries (all five modes, "
             "their counters, the EPSILON boundary scan); differential correspondence (a) of seeded version mixes on real "
             "ServerMap objects, incl. the seqnum the real Publish.publish()/update() set-up chooses, (b) of seeded updater "
             "states on real ServermapUpdater objects (_check_for_done, _send_more_queries, _got_signature_one_share), "
             "(c) on grid histories: every _check_for_done call, every final servermap, and every servermap replayed from "
             "the log of its mutator calls (nothing else may change a map); a fixed corpus (one case per known mechanism) "
             "runs first; implementation-side monitors written from the statement")
LEVEL_TEXT = ("Proved in Lean for all servermaps / updater states / pass sequences: new_seqnum_exceeds_survey and "
              "new_seqnum_exceeds_all_passes (new seqnum above every share seen in any survey pass of the operation), "
              "one_writer_strictly_increasing, best_is_max_recoverable, keeps_querying / keeps_querying_sends / "
              "read_done_sound (MODE_READ never finishes while a newer unrecoverable version is visible and servers remain), "
              "write_done_boundary (MODE_WRITE boundary rule) and check_repair_anything_exits. The model is tied to the code "
              "at function level and on grid histories.")
LEVEL_NOTE = ("Lean kernel + standard axioms; the model is a hand transcription tied by correspondence; verinfo tuples are "
              "modelled field by field with Python's lexicographic tuple order (offset names by rank); timestamps dropped; "
              "the updater is modelled as its decision function (the query/response plumbing is exercised on the grid, not "
              "verified); write_done_boundary states the number of empty answers, their consecutiveness is correspondence only")
RULE = ("fixed corpus first (VERIF_CORPUS_ONLY=1 runs only it): servermaps, updater states, _got_signature_one_share cases "
        "and grid histories, one per seeded change / repaired defect; then (a) seeded ServerMap build histories "
        "(add_new_share / mark_bad_share / reachability, 1..5 versions with seqnum, root-hash, late-field and offset-order "
        "ties, k 1..4) — one case per servermap, non-trivial = at least 2 versions present; (b) seeded ServermapUpdater "
        "states in all five modes — one case per _check_for_done call, non-trivial = running and no must-query server left; "
        "(c) grid histories on 1..12 servers: create + up to 5 publishes (overwrite, update, modify, get_best_mutable_version "
        "then modify/update, overwrite-then-modify on one version object) with servers unavailable, answering-then-failing "
        "or failing-then-answering between survey passes, failing only on writes, away (not connected) during a publish, "
        "stale share files copied back, deleted shares, shares larger than the survey cache, and a read by a second client "
        "(also with servers that answer the survey and fail the block fetch) — one case per publish, read and observed "
        "_check_for_done call; distinct = distinct canonical inputs")
TRUSTED = ["lean/Tahoe/Mutable/ServerMap.lean and Resurvey.lean are hand transcriptions of ServerMap, the survey passes and "
           "_check_for_done",
           "harness/grid.py (in-process grid) and the observation hooks of harness/props/c11.py (call-through wrappers around "
           "Publish.publish/update, ServermapUpdater._check_for_done and the four ServerMap mutators)"]
ASSUMPTIONS = ["all verinfos in one servermap are of one format (IV all bytes or all None): Python raises TypeError when "
               "tuple comparison reaches None vs bytes",
               "offsets tuples are compared as Python does (pair by pair, name before offset); names travel to the model as "
               "their rank in string order. A real servermap holding one version under two verinfos (the defect repaired in "
               "/repo as 80fa722) is reported as a violation",
               "'every version its survey observed' = every share recorded by any survey pass of the operation (shares the "
               "updater rejected as corrupt are not versions); new_seqnum_exceeds_all_passes assumes the shares themselves do "
               "not change while the operation runs (servers may stop answering between passes in any pattern)",
               "a mutable read that never terminates (Retrieve re-trying one corrupt share whose share number has a second "
               "holder; observed, DESIGN 8.9) is outside the statement: such a history is cut off after 60000 scheduler steps "
               "and counted"]

import random
import struct

from common import hx
from props import _mutable_common as mc

MODES = {"MODE_READ": "read", "MODE_WRITE": "write", "MODE_CHECK": "check", "MODE_ANYTHING": "anything",
         "MODE_REPAIR": "repair"}


# ----------------------------------------------------------------------------- (a) seeded servermaps

HASHES = [b"\x10" * 32, b"\x10" * 31 + b"\x11", b"\x0f" + b"\xff" * 31, b"\x10" * 31 + b"\x0f"]
IVS = [b"\x01" * 16, b"\x01" * 15 + b"\x02"]


def gen_versions(rng, maxv=5):
    t = rng.randrange(1, maxv + 1)
    fmt = rng.choice("sm")
    base = rng.randrange(0, 6)
    vers = []
    tries = 0
    while len(vers) < t and tries < 100:
        tries += 1
        seq = base + rng.choice([0, 0, 1, 1, 2, 3])
        rh = rng.choice(HASHES)
        iv = rng.choice(IVS) if fmt == "s" else None
        k = rng.randrange(1, 5)
        n = rng.randrange(k, 9)
        segsize = rng.choice([0, 6, 12])
        datalen = rng.choice([0, 5, 12])
        if fmt == "s":
            prefix = struct.pack(">BQ32s16sBBQQ", 0, seq, rh, iv, k, n, segsize, datalen)
        else:
            prefix = struct.pack(">BQ32sBBQQ", 1, seq, rh, k, n, segsize, datalen)
        if rng.random() < 0.15:
            prefix = prefix[:-1] + bytes([rng.randrange(256)])
        offs = tuple((key, rng.choice([100, 200, 200, 300])) for key in mc.OFFSET_KEYS)
        v = (seq, rh, iv, segsize, datalen, k, n, prefix, offs)
        if vers and rng.random() < 0.15:
            # the same version as the publisher's write proxy and as a surveyor's read proxy describe it: the
            # offsets tuple lists the same names in another order
            w = rng.choice(vers)
            perm = list(w[8])
            rng.shuffle(perm)
            v = w[:8] + (tuple(perm),)
        if v not in vers:
            vers.append(v)
    return vers


def gen_map_ops(rng, vers, nservers=8, maxops=25):
    ops = []
    for _ in range(rng.randrange(0, maxops + 1)):
        r = rng.random()
        s = rng.randrange(nservers)
        if r < 0.80:
            vi = rng.randrange(len(vers))
            sh = rng.randrange(0, vers[vi][6] + 2) if rng.random() < 0.85 else rng.randrange(12)
            ops.append(("a", s, sh, vi))
        elif r < 0.90:
            ops.append(("b", s, rng.randrange(8), rng.choice([b"", b"\x00\x01", vers[0][7][:57]]).hex()))
        elif r < 0.95:
            ops.append(("r", s))
        else:
            ops.append(("u", s))
    return ops


def op_tokens(ops):
    toks = []
    for op in ops:
        if op[0] == "a":
            toks.append("a:%d:%d:%d" % op[1:])
        elif op[0] == "b":
            toks.append("b:%d:%d:%s" % (op[1], op[2], op[3] or "-"))
        else:
            toks.append("%s:%d" % op)
    return toks


def build_smap(vers, ops, servers):
    from allmydata.mutable.servermap import ServerMap
    sm = ServerMap()
    for op in ops:
        if op[0] == "a":
            sm.add_new_share(servers[op[1]], op[2], vers[op[3]], 1000.0 + len(sm.get_known_shares()))
        elif op[0] == "b":
            sm.mark_bad_share(servers[op[1]], op[2], bytes.fromhex(op[3]))
        elif op[0] == "r":
            sm.mark_server_reachable(servers[op[1]])
        else:
            sm.mark_server_unreachable(servers[op[1]])
    return sm


def ref_known(vers, ops):
    known = {}
    for op in ops:
        if op[0] == "a":
            known[(op[1], op[2])] = vers[op[3]]
        elif op[0] == "b":
            known.pop((op[1], op[2]), None)
    return known


def monitor_smap(ctx, smap, known, case, where):
    """the statement's claims about one servermap: next seqnum above everything seen; best = highest recoverable"""
    seqs = [v[0] for v in known.values()]
    nxt = smap.highest_seqnum() + 1
    if any(s >= nxt for s in seqs):
        ctx.violation("chosen seqnum %d is not above every surveyed seqnum %r" % (nxt, sorted(set(seqs))), case,
                      "seqnum-not-above-survey-" + where)
    rec = mc.ref_recoverable(known)
    best = smap.best_recoverable_version()
    if not rec:
        if best is not None:
            ctx.violation("best_recoverable_version returned a version although none has k distinct shares", case,
                          "best-without-recoverable-" + where)
    else:
        top = max(v[0] for v in rec)
        if best is None:
            ctx.violation("best_recoverable_version is None although a version has k distinct shares", case,
                          "best-none-" + where)
        elif best not in rec:
            ctx.violation("best_recoverable_version is not recoverable", case, "best-unrecoverable-" + where)
        elif best[0] != top:
            ctx.violation("best_recoverable_version has seqnum %d, highest recoverable is %d" % (best[0], top), case,
                          "best-not-highest-seqnum-" + where)
        elif best[1] != max(v[1] for v in rec if v[0] == top):
            ctx.violation("best_recoverable_version is not the highest root hash among the top seqnum", case,
                          "best-not-highest-roothash-" + where)


def run_smaps(ctx, cases):
    servers = [mc.FakeServer(i) for i in range(16)]
    lines, impl, jc, seqs = [], [], [], []
    for (vers, ops) in cases:
        sm = build_smap(vers, ops, servers)
        case = {"kind": "smap", "vers": [mc.enc_ver(v) for v in vers], "ops": [list(o) for o in ops]}
        impl.append(mc.canon_smap(sm, vers, lambda s: s.i))
        lines.append("smap %s %s" % (mc.vtable(vers), " ".join(op_tokens(ops))))
        jc.append(case)
        known = ref_known(vers, ops)
        monitor_smap(ctx, sm, known, case, "function")
        seqs.append(real_seqnum_choice(ctx, sm, known, servers, case))
        nv = len(set(known.values()))
        ctx.case(("smap", lines[-1]) if nv >= 2 else None)
        ctx.count("smap-versions:%d" % min(nv, 4))
        if sm.needs_merge():
            ctx.count("smap-needs-merge")
        if sm.unrecoverable_newer_versions():
            ctx.count("smap-unrecoverable-newer")
    model = ctx.model(lines)
    ctx.compare("ServerMap query functions (versionmap, shares_available, (un)recoverable, best, highest_seqnum, "
                "unrecoverable_newer, needs_merge, sharemap, …)", jc, impl, model)
    if model is not None:
        # the sequence number the real Publish.publish() / Publish.update() choose for this servermap vs newSeqnum
        sc, si, sm_ = [], [], []
        for c, q, m in zip(jc, seqs, model):
            if q is not None:
                nxt = m.rsplit("next=", 1)[-1]
                sc.append(c); si.append(q); sm_.append(";".join("%s=%s" % (f.split("=")[0], nxt) for f in q.split(";")))
        ctx.compare("sequence number chosen by the real Publish.publish() and Publish.update() for a servermap "
                    "(model: newSeqnum = highest_seqnum()+1)", sc, si, sm_)
    if jc:
        ctx.sample({"smap": lines[-1][:300], "impl": impl[-1][:300]})


def real_seqnum_choice(ctx, sm, known, servers, case):
    """_new_seqnum as set by the real publish() and update() set-up code when handed this servermap"""
    from allmydata.mutable.common import MODE_WRITE
    rec = mc.ref_recoverable(known)
    if not known:
        return None
    sm.set_last_update(MODE_WRITE, 0)
    some = max(rec, key=lambda v: (v[0], v[1])) if rec else sorted(known.values(), key=lambda v: (v[0], v[1]))[0]
    out = []
    for op in ("publish", "update"):
        if op == "update" and not rec:
            continue                  # update() is only reached with a recoverable version to update
        try:
            p, _err = mc.real_publish(some[5], max(some[6], some[5]), servers, sm, mdmf=(some[2] is None), op=op,
                                      version=some)
            seq = getattr(p, "_new_seqnum", None)
        except Exception:
            seq = None
        if seq is None:
            continue
        out.append("%s=%d" % (op, seq))
        ctx.count("seqnum-choice:" + op)
        if any(v[0] >= seq for v in known.values()):
            ctx.violation("Publish.%s() chose seqnum %d; its servermap holds seqnums %r" % (
                op, seq, sorted(set(v[0] for v in known.values()))), case, "seqnum-not-above-survey-function-" + op)
    return ";".join(out) or None


def parse_replay_vers(toks):
    res = []
    for t in toks:
        f = t.split("/")
        unh = lambda s: b"" if s == "-" else bytes.fromhex(s)
        offs = mc.dec_offsets(f[8])
        res.append((int(f[0]), unh(f[1]), None if f[2] == "N" else unh(f[2]), int(f[3]), int(f[4]), int(f[5]), int(f[6]),
                    unh(f[7]), offs))
    return res


# ----------------------------------------------------------------------------- (b) seeded updater states

def gen_upd(rng):
    S = rng.randrange(1, 11)
    full = list(range(S))
    rng.shuffle(full)
    vers = gen_versions(rng, 3)
    st = {"mode": rng.choice(list(MODES)), "running": rng.random() < 0.93, "eps": rng.randrange(1, 4),
          "priv": rng.random() < 0.2, "full": full}
    nq = rng.randrange(0, S + 1)            # how many of `full` have been sent a query
    queried, extra = full[:nq], full[nq:]
    if rng.random() < 0.2:
        rng.shuffle(queried)
    bad, empty, withs, out = [], [], [], []
    ops = []
    for s in queried:
        r = rng.random()
        if r < 0.12:
            bad.append(s)
        elif r < 0.40:
            empty.append(s)
        elif r < 0.82:
            withs.append(s)
            for _ in range(rng.randrange(1, 3)):
                vi = rng.randrange(len(vers))
                ops.append(("a", s, rng.randrange(0, vers[vi][6] + 1), vi))
            if rng.random() < 0.1:
                bad.append(s)
        else:
            out.append(s)
    if st["mode"] in ("MODE_CHECK", "MODE_REPAIR") and rng.random() < 0.8:
        extra = []
    st["must"] = [s for s in out if rng.random() < 0.3]
    st["out"], st["extra"], st["bad"], st["empty"], st["with"] = out, extra, bad, empty, withs
    st["completed"] = max(0, len(queried) - len(out) + rng.choice([0, 0, 0, -1, 1]))
    st["numq"] = rng.choice([2 * vers[0][5], vers[0][6] + vers[0][5], rng.randrange(0, S + 3)])
    st["vers"], st["ops"] = vers, ops
    return st


def upd_line(st):
    def nl(xs):
        return ",".join(str(x) for x in xs) or "-"
    return "upd %s %s %s %s %s %d %d %d %s %s %s %s %s %s %s" % (
        MODES[st["mode"]], "T" if st["running"] else "F", nl(st["must"]), nl(st["out"]), nl(st["extra"]),
        st["completed"], st["numq"], st["eps"], "T" if st["priv"] else "F", nl(st["full"]), nl(st["bad"]),
        nl(st["empty"]), nl(st["with"]), mc.vtable(st["vers"]), " ".join(op_tokens(st["ops"])))


def impl_upd(st):
    """the real _check_for_done (and _send_more_queries) on a ServermapUpdater carrying exactly this state"""
    from allmydata.mutable.servermap import ServermapUpdater
    servers = {i: mc.FakeServer(i) for i in range(16)}
    u = ServermapUpdater.__new__(ServermapUpdater)
    u._log_number = None
    u._running = st["running"]
    u.mode = st["mode"]
    u._must_query = set(servers[i] for i in st["must"])
    u._queries_outstanding = set(servers[i] for i in st["out"])
    u.extra_servers = [servers[i] for i in st["extra"]]
    u._queries_completed = st["completed"]
    u.num_servers_to_query = st["numq"]
    u.EPSILON = st["eps"]
    u._need_privkey = st["priv"]
    u.full_serverlist = [servers[i] for i in st["full"]]
    u._bad_servers = set(servers[i] for i in st["bad"])
    u._empty_servers = set(servers[i] for i in st["empty"])
    u._servers_with_shares = set(servers[i] for i in st["with"])
    u._servermap = build_smap(st["vers"], st["ops"], servers)
    u._storage_index = b"\x00" * 16
    u._read_size = 1000
    rec = {"decision": "wait", "queried": []}

    def do_query(server, si, readsize):
        rec["queried"].append(server.i)
        u._queries_outstanding.add(server)
    u._do_query = do_query

    def done():
        rec["decision"] = "done"
        u._running = False
    u._done = done
    orig = u._send_more_queries

    def more(n):
        rec["decision"] = "more:%d" % n
        return orig(n)
    u._send_more_queries = more
    u._check_for_done(None)
    return "%s;%s;%s;%s" % (rec["decision"], ",".join(map(str, rec["queried"])) or "-",
                            ",".join(str(s.i) for s in u.extra_servers) or "-", "T" if u._running else "F")


def monitor_keeps_querying(ctx, st, known, out, case, where):
    """MODE_READ: a newer unrecoverable version visible + servers remain or queries outstanding => not done"""
    if st["mode"] != "MODE_READ" or not st["running"]:
        return
    rec = mc.ref_recoverable(known)
    unrec = set(known.values()) - rec
    top = max([v[0] for v in rec], default=-1)
    newer = any(v[0] > top for v in unrec)
    if newer and (st["extra"] or st["out"]):
        ctx.count("keeps-querying-applicable-" + where)
        if out.startswith("done"):
            ctx.violation("MODE_READ mapupdate finished although a newer unrecoverable version is visible and "
                          "servers remain / queries are outstanding", case, "read-stops-with-newer-evidence-" + where)


def run_upds(ctx, sts):
    lines, impl, jc = [], [], []
    for st in sts:
        case = {"kind": "upd", "state": {k: (v if k not in ("vers", "ops") else None) for k, v in st.items()},
                "vers": [mc.enc_ver(v) for v in st["vers"]], "ops": [list(o) for o in st["ops"]]}
        out = impl_upd(st)
        impl.append(out)
        lines.append(upd_line(st))
        jc.append(case)
        monitor_keeps_querying(ctx, st, ref_known(st["vers"], st["ops"]), out, case, "function")
        ctx.case(("upd", lines[-1]) if (st["running"] and not st["must"]) else None)
        ctx.count("upd-%s-%s" % (MODES[st["mode"]], out.split(";")[0].split(":")[0]))
    model = ctx.model(lines)
    ctx.compare("ServermapUpdater._check_for_done + _send_more_queries (decision, servers queried, extra_servers left)",
                jc, impl, model)
    if jc:
        ctx.sample({"upd": lines[-1][:300], "impl": impl[-1]})


# ----------------------------------------------------------------------------- (c) grid histories

def gen_history(rng, thorough=False):
    S = rng.randrange(1, 13)
    k = rng.randrange(1, 4)
    n = rng.randrange(k, min(10, max(k, S + 2)) + 1)
    fmt = rng.choice("sm")
    big = "big:%d:%d" % (rng.choice([9000, 20000]), rng.randrange(48, 58))
    steps = [("create", big if rng.random() < 0.2 else rng.randbytes(rng.choice([0, 5, 20, 40])).hex())]
    npub = rng.randrange(1, 6)
    pubs = 1
    after_partial = False
    while pubs <= npub:
        r = rng.random()
        if r < 0.45:
            down = sorted(rng.sample(range(S), rng.randrange(0, min(S, 3) + 1))) if rng.random() < 0.4 else []
            if pubs < npub and S >= 2 and rng.random() < 0.3:
                # servers that answer the survey but fail every write of the next publish: it fails part-way and
                # leaves shares of a newer seqnum on the few servers that still accepted writes
                keep = rng.sample(range(S), rng.randrange(1, max(2, S // 3 + 1)))
                steps.append(("wfail", sorted(set(range(S)) - set(keep))))
                steps.append(("pub", rng.randbytes(rng.choice([7, 20, 33])).hex(), []))
                pubs += 1
                after_partial = True
            if rng.random() < (0.6 if after_partial else 0.25):
                steps.append(("update", rng.randbytes(rng.randrange(1, 20)).hex(), rng.randrange(0, 41), down))
            else:
                steps.append(("pub", rng.randbytes(rng.choice([0, 7, 20, 33])).hex(), down))
            pubs += 1
            after_partial = False
        elif r < 0.57 and pubs >= 2 and S >= 2:
            # the newest version survives on few servers (the others replay the previous one); then the writer edits
            # the file through an operation that surveys more than once into one servermap, and the availability of
            # servers changes between the passes
            few = rng.sample(range(S), rng.randrange(1, max(2, S // 3 + 1)))
            if rng.random() < 0.7:
                steps.append(("stale", pubs - 1, sorted(set(range(S)) - set(few))))
            flaky = {}
            for srv in (few if rng.random() < 0.8 else rng.sample(range(S), rng.randrange(1, S + 1))):
                flaky[str(srv)] = [rng.choice(["ok-then-fail", "ok-then-fail", "fail-then-ok"]), rng.choice([1, 1, 2])]
            steps.append((rng.choice(["modify", "modify-split", "update-split"]), rng.randbytes(rng.randrange(1, 9)).hex(),
                          flaky))
            pubs += 1
        elif r < 0.65:
            steps.append(("stale", rng.randrange(0, pubs), sorted(rng.sample(range(S), rng.randrange(1, S + 1)))))
        elif r < 0.75:
            steps.append(("del", sorted(rng.sample(range(S), rng.randrange(1, S + 1))), rng.randrange(0, n)))
        elif r < 0.82 and S >= 3:
            steps.append(("away-pub", big if rng.random() < 0.7 else rng.randbytes(rng.choice([7, 20])).hex(),
                          sorted(rng.sample(range(min(S, 2 * k + 2)), rng.randrange(1, min(S - 1, k + 1) + 1)))))
            pubs += 1
            if rng.random() < 0.7:
                steps.append(("read-flaky", {str(rng.randrange(0, min(S, 2 * k + 2))): 1 for _ in range(rng.randrange(1, 3))}))
        else:
            down = sorted(rng.sample(range(S), rng.randrange(0, min(S, 4) + 1))) if rng.random() < 0.5 else []
            steps.append(("read", down))
    steps.append(("read", []))
    h = {"servers": S, "k": k, "n": n, "fmt": fmt, "sched": rng.randrange(1 << 30),
         "policy": rng.choice(["random", "random", "fifo", "lifo"]), "steps": steps}
    if any(isinstance(x, str) and x.startswith("big:") for st in steps for x in st):
        h["segsize"] = 4096
    return h


def content_of(field):
    """step data: hex, or `big:<size>:<byte>` (shares too large for the survey's read cache: blocks must be fetched)"""
    if isinstance(field, str) and field.startswith("big:"):
        _b, size, byte = field.split(":")
        return (bytes([int(byte)]) + b"-") * (int(size) // 2)
    return bytes.fromhex(field)


class Hooks:
    """Observation of the real Publish and ServermapUpdater (call-through wrappers)."""

    def __init__(self):
        self.publishes = []      # dicts: surveyed seqnums, chosen seqnum, publish object, content
        self.checks = []         # (state snapshot, decision string)
        self.final_maps = []     # (mode, ServerMap copy, state at _done)
        self.sidx = None
        self.op_start = 0        # index into final_maps where the current harness step began
        self.oplogs = []         # (ops logged on a ServerMap since its creation, canonical state) at each _done

    def install(self):
        from allmydata.mutable import publish as P, servermap as SM
        hooks = self
        self._saved = (P.Publish.publish, P.Publish.update, SM.ServermapUpdater._check_for_done)
        orig_publish, orig_update, orig_check = self._saved
        # every public mutator of a ServerMap is logged on the instance, so that the whole life of a map (several
        # survey passes, retrieve's bad-share marks, publish's add_new_share) can be replayed through the model
        self._saved_sm = (SM.ServerMap.__init__, SM.ServerMap.add_new_share, SM.ServerMap.mark_bad_share,
                          SM.ServerMap.mark_server_reachable, SM.ServerMap.mark_server_unreachable)
        o_init, o_add, o_bad, o_reach, o_unreach = self._saved_sm

        def sm_init(sm):
            o_init(sm)
            sm._vlog = []

        def sm_add(sm, server, shnum, verinfo, timestamp):
            if hasattr(sm, "_vlog"):
                sm._vlog.append(("a", server, shnum, verinfo))
            return o_add(sm, server, shnum, verinfo, timestamp)

        def sm_bad(sm, server, shnum, checkstring):
            if hasattr(sm, "_vlog"):
                sm._vlog.append(("b", server, shnum, bytes(checkstring)))
            return o_bad(sm, server, shnum, checkstring)

        def sm_reach(sm, server):
            if hasattr(sm, "_vlog"):
                sm._vlog.append(("r", server))
            return o_reach(sm, server)

        def sm_unreach(sm, server):
            if hasattr(sm, "_vlog"):
                sm._vlog.append(("u", server))
            return o_unreach(sm, server)
        (SM.ServerMap.__init__, SM.ServerMap.add_new_share, SM.ServerMap.mark_bad_share,
         SM.ServerMap.mark_server_reachable, SM.ServerMap.mark_server_unreachable) = (sm_init, sm_add, sm_bad, sm_reach, sm_unreach)

        def surveyed(p):
            sm = p._servermap
            return [v[0] for (v, _ts) in sm.get_known_shares().values()] if sm else []

        def seen_all(p):
            """every seqnum observed by any survey pass of the current operation (and what the map holds now)"""
            seen = set(surveyed(p))
            for (_mode, smap, _st) in hooks.final_maps[hooks.op_start:]:
                seen |= set(v[0] for (v, _ts) in smap.get_known_shares().values())
            return sorted(seen)

        def publish(p, newdata):
            rec = {"surveyed": surveyed(p), "seen_all": seen_all(p), "p": p, "content": newdata._filehandle.getvalue(),
                   "kind": "publish"}
            hooks.publishes.append(rec)
            try:
                d = orig_publish(p, newdata)
            finally:
                rec["seqnum"] = getattr(p, "_new_seqnum", None)
            return d

        def update(p, data, offset, blockhashes, version):
            rec = {"surveyed": surveyed(p), "seen_all": seen_all(p), "p": p, "kind": "update", "offset": offset, "oldver": (version[0], version[1]),
                   "newdata": data._newdata._filehandle.getvalue()}
            hooks.publishes.append(rec)
            try:
                d = orig_update(p, data, offset, blockhashes, version)
            finally:
                rec["seqnum"] = getattr(p, "_new_seqnum", None)     # chosen before anything that may still fail
            return d

        def check(u, res):
            st = hooks.snapshot(u)
            rec = {"decision": "wait", "queried": []}
            inst_do_query = u._do_query
            inst_done = u._done
            inst_more = u._send_more_queries

            def do_query(server, si, rs):
                rec["queried"].append(hooks.sidx(server))
                return inst_do_query(server, si, rs)

            def done():
                if u._running:
                    rec["decision"] = "done"
                    hooks.final_maps.append((u.mode, u._servermap.copy(), st))
                    if hasattr(u._servermap, "_vlog") and len(hooks.oplogs) < 4000:
                        hooks.oplogs.append(hooks.oplog_case(u._servermap))
                return inst_done()

            def more(n):
                rec["decision"] = "more:%d" % n
                return inst_more(n)
            u._do_query, u._done, u._send_more_queries = do_query, done, more
            try:
                return orig_check(u, res)
            finally:
                del u._do_query, u._done, u._send_more_queries
                out = "%s;%s;%s;%s" % (rec["decision"], ",".join(map(str, rec["queried"])) or "-",
                                       ",".join(str(hooks.sidx(s)) for s in u.extra_servers) or "-",
                                       "T" if u._running else "F")
                hooks.checks.append((st, out))
        P.Publish.publish, P.Publish.update, SM.ServermapUpdater._check_for_done = publish, update, check

    def uninstall(self):
        from allmydata.mutable import publish as P, servermap as SM
        P.Publish.publish, P.Publish.update, SM.ServermapUpdater._check_for_done = self._saved
        (SM.ServerMap.__init__, SM.ServerMap.add_new_share, SM.ServerMap.mark_bad_share,
         SM.ServerMap.mark_server_reachable, SM.ServerMap.mark_server_unreachable) = self._saved_sm

    def oplog_case(self, sm):
        """(driver line replaying every mutator call made on this map so far, canonical state of the real map)"""
        sidx = self.sidx
        vers = []
        for op in sm._vlog:
            if op[0] == "a" and op[3] not in vers:
                vers.append(op[3])
        for (v, _ts) in sm.get_known_shares().values():
            if v not in vers:
                vers.append(v)        # an entry that no logged call put there
        toks = []
        for op in sm._vlog:
            if op[0] == "a":
                toks.append("a:%d:%d:%d" % (sidx(op[1]), op[2], vers.index(op[3])))
            elif op[0] == "b":
                toks.append("b:%d:%d:%s" % (sidx(op[1]), op[2], mc.hx(op[3])))
            else:
                toks.append("%s:%d" % (op[0], sidx(op[1])))
        return ("smap %s %s" % (mc.vtable(vers), " ".join(toks)), mc.canon_smap(sm, vers, sidx))

    def snapshot(self, u):
        sidx = self.sidx
        sm = u._servermap
        vers = mc.versions_of(sm)
        return {"mode": u.mode, "running": u._running, "must": sorted(sidx(s) for s in u._must_query),
                "out": sorted(sidx(s) for s in u._queries_outstanding), "extra": [sidx(s) for s in u.extra_servers],
                "completed": u._queries_completed, "numq": u.num_servers_to_query, "eps": u.EPSILON,
                "priv": bool(u._need_privkey), "full": [sidx(s) for s in u.full_serverlist],
                "bad": sorted(sidx(s) for s in u._bad_servers), "empty": sorted(sidx(s) for s in u._empty_servers),
                "with": sorted(sidx(s) for s in u._servers_with_shares), "vers": vers,
                "optoks": mc.smap_ops(sm, vers, sidx),
                "known": {(sidx(s), sh): v for (s, sh), (v, _ts) in sm.get_known_shares().items()}}


def hook_upd_line(st):
    def nl(xs):
        return ",".join(str(x) for x in xs) or "-"
    return "upd %s %s %s %s %s %d %d %d %s %s %s %s %s %s %s" % (
        MODES[st["mode"]], "T" if st["running"] else "F", nl(st["must"]), nl(st["out"]), nl(st["extra"]),
        st["completed"], st["numq"], st["eps"], "T" if st["priv"] else "F", nl(st["full"]), nl(st["bad"]),
        nl(st["empty"]), nl(st["with"]), mc.vtable(st["vers"]), " ".join(st["optoks"]))


def run_history(ctx, h, acc):
    """one publish/read history on the real grid; appends correspondence material to `acc`"""
    import grid
    from allmydata.mutable import publish
    from allmydata.mutable.publish import MutableData
    from allmydata.mutable.common import MODE_READ
    from allmydata.interfaces import SDMF_VERSION, MDMF_VERSION
    case = {"kind": "history", "h": h}
    hooks = Hooks()
    saved_seg = publish.DEFAULT_MUTABLE_MAX_SEGMENT_SIZE
    # configuration: several segments for MDMF (larger segments for the histories with shares beyond the survey cache)
    publish.DEFAULT_MUTABLE_MAX_SEGMENT_SIZE = h.get("segsize", 16)
    hooks.install()
    try:
        with grid.Runtime(seed=h["sched"], policy=h["policy"]) as rt:
            g = mc.make_grid("c11", rt, h["servers"], 2, h["k"], h["n"])
            hooks.sidx = mc.server_number(g)
            try:
                writer, reader = g.clients

                def W(d):
                    # an operation of these histories needs a few thousand scheduler steps; a livelock in the code under
                    # test (seen: Retrieve re-trying one corrupt share for ever) must cost seconds, not the pump's 2M steps
                    return rt.wait(d, max_steps=rt.steps + 60000)
                registry = {}      # (seqnum, root_hash) -> content
                snaps = []         # share-file snapshots taken before each publish
                node = rnode = None
                my_seqs = []
                wfail = set()

                def settle_publishes():
                    for rec in hooks.publishes:
                        if rec.get("done"):
                            continue
                        rec["done"] = True
                        p = rec["p"]
                        surveyed, seq = rec["surveyed"], rec.get("seqnum")
                        if seq is not None:
                            ctx.case(("publish-seq", rec["kind"], tuple(sorted(set(surveyed))), seq))
                            ctx.count("grid-%s-survey-%s" % (rec["kind"], "one-seqnum" if len(set(surveyed)) <= 1 else "several-seqnums"))
                            if any(s >= seq for s in surveyed):
                                ctx.violation("publish chose seqnum %d, its servermap held seqnums %r" % (seq, sorted(set(surveyed))),
                                              case, "seqnum-not-above-survey-grid")
                            elif any(s >= seq for s in rec.get("seen_all", ())):
                                ctx.violation("%s chose seqnum %d although the survey passes of this operation observed "
                                              "seqnums %r (the map it published against held %r)" % (
                                                  rec["kind"], seq, rec["seen_all"], sorted(set(surveyed))), case,
                                              "published-seqnum-not-above-seen")
                            if len(rec.get("seen_all", ())) and set(rec["seen_all"]) - set(surveyed):
                                ctx.count("grid-publish-after-passes-that-saw-more-than-the-final-map")
                        rh = getattr(p, "root_hash", None)
                        if rh is None or seq is None:
                            continue
                        clash = [key for key in registry if key[0] == seq and key[1] != rh]
                        if clash and seq in rec.get("seen_all", ()):
                            ctx.violation("two different versions carry seqnum %d, and the writer of the second had seen "
                                          "that seqnum" % seq, case, "two-versions-one-seqnum-seen")
                        if rec["kind"] == "publish":
                            registry[(seq, rh)] = rec["content"]
                        else:
                            old = registry.get(rec["oldver"])
                            if old is not None:
                                off, nd = rec["offset"], rec["newdata"]
                                registry[(seq, rh)] = old[:off] + nd + old[off + len(nd):]

                def set_down(down):
                    for i in g.wrappers:
                        g.wrappers[i].broken = (i in down)

                for idx, step in enumerate(h["steps"]):
                    kind = step[0]
                    ctx.count("grid-step:" + kind)
                    hooks.op_start = len(hooks.final_maps)
                    if kind == "create":
                        node = W(writer.create_mutable_file(
                            MutableData(content_of(step[1])), version=MDMF_VERSION if h["fmt"] == "m" else SDMF_VERSION,
                            unique_keypair=mc.keypair()))
                        settle_publishes()
                        my_seqs.append(hooks.publishes[-1]["seqnum"])
                        rnode = reader.create_node_from_uri(node.get_uri())
                        si = node.get_storage_index()
                        num_of = {g.serverid(i): i for i in range(h["servers"])}
                        perm = [num_of[srv.get_serverid()] for srv in g.broker.get_servers_for_psi(si)]
                    elif kind == "wfail":
                        wfail = set(step[1])
                    elif kind in ("pub", "update"):
                        snaps.append(mc.snapshot_files(g, si))
                        set_down(step[-1])
                        for i in g.wrappers:
                            g.wrappers[i].fault = (lambda m, a, kw: "error" if m == "slot_testv_and_readv_and_writev" else None) \
                                if i in wfail else None
                        if wfail:
                            ctx.count("grid-publish-with-write-failures")
                        wfail = set()
                        npub = len(hooks.publishes)
                        try:
                            if kind == "pub":
                                W(node.overwrite(MutableData(content_of(step[1]))))
                            else:
                                mv = W(node.get_best_mutable_version())
                                off = min(step[2], mv.get_size())
                                W(mv.update(MutableData(bytes.fromhex(step[1])), off))
                            ctx.count("grid-publish-ok")
                            ok = True
                        except grid.Stuck:
                            raise
                        except Exception as e:
                            ctx.count("grid-publish-error:" + mc.exc_name(e))
                            ok = False
                        set_down([])
                        for i in g.wrappers:
                            g.wrappers[i].fault = None
                        settle_publishes()
                        new = [r for r in hooks.publishes[npub:] if r.get("seqnum") is not None]
                        if ok and new:
                            # one writer's successful versions strictly increase
                            seq = new[-1]["seqnum"]
                            if my_seqs and seq <= max(my_seqs):
                                # legitimate only if the survey did not observe the writer's previous version
                                if max(new[-1]["surveyed"], default=0) >= max(my_seqs):
                                    ctx.violation("the writer's new seqnum %d does not exceed its previous %d although the "
                                                  "survey observed it" % (seq, max(my_seqs)), case, "writer-seqnum-not-increasing")
                                else:
                                    ctx.count("grid-writer-did-not-observe-own-previous-version")
                            my_seqs.append(seq)
                    elif kind == "away-pub":
                        # the servers at these positions of the file's permuted list are not connected while the writer
                        # publishes (it places the shares elsewhere); they come back with whatever they held
                        snaps.append(mc.snapshot_files(g, si))
                        away = [g.servers[perm[x]] for x in step[2] if x < len(perm)]
                        for gs in away:
                            g.broker.servers.remove(gs)
                        npub = len(hooks.publishes)
                        try:
                            W(node.overwrite(MutableData(content_of(step[1]))))
                            ctx.count("grid-away-pub-ok")
                            ok = True
                        except grid.Stuck:
                            raise
                        except Exception as e:
                            ctx.count("grid-away-pub-error:" + mc.exc_name(e))
                            ok = False
                        finally:
                            for gs in away:
                                g.broker.servers.append(gs)
                        settle_publishes()
                        new = [r for r in hooks.publishes[npub:] if r.get("seqnum") is not None]
                        if ok and new:
                            my_seqs.append(new[-1]["seqnum"])
                    elif kind == "overwrite-then-modify":
                        snaps.append(mc.snapshot_files(g, si))
                        npub = len(hooks.publishes)
                        try:
                            mv = W(node.get_best_mutable_version())
                            W(mv.overwrite(MutableData(bytes.fromhex(step[1]))))
                            set_down(step[3])
                            W(mv.modify(lambda old, smap, first, _t=b"+" + bytes.fromhex(step[2]): old + _t))
                            ctx.count("grid-overwrite-then-modify-ok")
                        except grid.Stuck:
                            raise
                        except Exception as e:
                            ctx.count("grid-overwrite-then-modify-error:" + mc.exc_name(e))
                        set_down([])
                        settle_publishes()
                        new = [r for r in hooks.publishes[npub:] if r.get("seqnum") is not None]
                        if new:
                            my_seqs.append(max(r["seqnum"] for r in new))
                    elif kind in ("modify", "modify-split", "update-split"):
                        snaps.append(mc.snapshot_files(g, si))
                        token = b"+" + bytes.fromhex(step[1])
                        flaky = {int(a): b for a, b in step[2].items()}
                        npub = len(hooks.publishes)

                        def install_counting_faults():
                            for srv, (mode, nreads) in flaky.items():
                                if srv not in g.wrappers:
                                    continue

                                def fault(methname, args, kwargs, _mode=mode, _n=nreads, _st={"reads": 0}):
                                    if methname == "slot_readv":
                                        _st["reads"] += 1
                                    first = _st["reads"] <= _n
                                    if _mode == "ok-then-fail":
                                        return None if first else "error"
                                    return "error" if first else None
                                g.wrappers[srv].fault = fault
                        try:
                            if kind == "modify":
                                install_counting_faults()
                                W(node.modify(lambda old, smap, first, _t=token: old + _t))
                            else:
                                # pass 1 with one availability pattern, the rest of the operation with the other
                                set_down([srv for srv, (mode, _n) in flaky.items() if mode == "fail-then-ok"])
                                mv = W(node.get_best_mutable_version())
                                set_down([srv for srv, (mode, _n) in flaky.items() if mode == "ok-then-fail"])
                                if kind == "modify-split":
                                    W(mv.modify(lambda old, smap, first, _t=token: old + _t))
                                else:
                                    W(mv.update(MutableData(token), mv.get_size()))
                            ctx.count("grid-%s-ok" % kind)
                            ok = True
                        except grid.Stuck:
                            raise
                        except Exception as e:
                            ctx.count("grid-%s-error:%s" % (kind, mc.exc_name(e)))
                            ok = False
                        set_down([])
                        for i in g.wrappers:
                            g.wrappers[i].fault = None
                        settle_publishes()
                        new = [r for r in hooks.publishes[npub:] if r.get("seqnum") is not None]
                        if ok and new:
                            my_seqs.append(new[-1]["seqnum"])
                    elif kind == "stale":
                        if snaps:
                            snap = snaps[min(step[1], len(snaps) - 1)]
                            mc.restore_files(snap, [key for key in snap if key[0] in step[2]])
                    elif kind == "del":
                        import os
                        for (i, sh, p) in g.share_files(si):
                            if i in step[1] and sh == step[2]:
                                os.unlink(p)
                    elif kind in ("read", "read-flaky"):
                        if kind == "read":
                            set_down(step[1])
                        else:
                            # servers (by position in the permuted list) that answer their first n slot_readv requests
                            # -- the survey -- and fail every later one -- the block fetch
                            for pos, nok in step[1].items():
                                if int(pos) >= len(perm):
                                    continue

                                def fault(methname, args, kwargs, _n=nok, _st={"reads": 0}):
                                    if methname == "slot_readv":
                                        _st["reads"] += 1
                                        if _st["reads"] > _n:
                                            return "error"
                                    return None
                                g.wrappers[perm[int(pos)]].fault = fault
                        nfinal = len(hooks.final_maps)
                        try:
                            data = W(rnode.download_best_version())
                            err = None
                        except grid.Stuck:
                            raise
                        except Exception as e:
                            data, err = None, mc.exc_name(e)
                        set_down([])
                        for i in g.wrappers:
                            g.wrappers[i].fault = None
                        finals = hooks.final_maps[nfinal:]
                        if kind == "read-flaky":
                            ctx.count("grid-read-flaky-surveys:%d" % min(len(finals), 3))
                        ctx.count("grid-read:" + (err or "ok"))
                        if finals:
                            mode, smap, st = finals[-1]
                            known = st["known"]
                            # the final map may have gained shares after the snapshot: recompute from the copy
                            known = {(hooks.sidx(s), sh): v for (s, sh), (v, _ts) in smap.get_known_shares().items()}
                            rec = mc.ref_recoverable(known)
                            ctx.case(("read", tuple(sorted((key, v[0], v[1]) for key, v in known.items()))) if len(set(known.values())) > 1 else None)
                            if data is not None:
                                if not rec:
                                    ctx.violation("read returned data although its servermap shows no recoverable version",
                                                  case, "read-without-recoverable")
                                else:
                                    top = max(v[0] for v in rec)
                                    cands = [registry.get((v[0], v[1])) for v in rec if v[0] == top]
                                    want = registry.get(max((v for v in rec if v[0] == top), key=lambda v: v[1])[:2])
                                    if want is None:
                                        ctx.count("grid-read-unregistered-version")
                                    elif data != want:
                                        older = [key for key, c in registry.items() if c == data and key[0] < top]
                                        ctx.violation("download_best_version returned %r, the highest recoverable seqnum %d "
                                                      "in its servermap holds %r" % (data[:20], top, want[:20]), case,
                                                      ("read-rolled-back-after-retrieve-failure" if kind == "read-flaky" else
                                                       "read-returns-older-version") if older else "read-wrong-content",
                                                      detail={"step": idx})
                            elif err == "UnrecoverableFileError" and rec:
                                ctx.violation("UnrecoverableFileError although the servermap shows a recoverable version",
                                              case, "read-refused-recoverable")
                            monitor_smap(ctx, smap, known, case, "grid")
                            # keeps querying: finished with visible newer unrecoverable version => nobody left to ask
                            if mode == MODE_READ:
                                unrec = set(known.values()) - rec
                                top = max([v[0] for v in rec], default=-1)
                                if any(v[0] > top for v in unrec):
                                    ctx.count("grid-read-ends-with-newer-unrecoverable")
                                    asked = set(smap.get_reachable_servers()) | set(smap.unreachable_servers)
                                    missing = [i for i in g.servers if g.servers[i] not in asked]
                                    if missing:
                                        ctx.violation("MODE_READ mapupdate ended with a newer unrecoverable version visible "
                                                      "without asking servers %r" % missing, case, "read-stops-with-newer-evidence-grid")
                            # how often the read is older than what is on disk (permitted; reported)
                            disk = mc.disk_state(g, si)
                            by = {}
                            for (i, sh), cs in disk.items():
                                if cs and cs[0] != "?":
                                    by.setdefault((cs[1], cs[2]), set()).add(sh)
                            drec = [key for key, shs in by.items() if len(shs) >= h["k"]]
                            if data is not None and rec and drec and max(key[0] for key in drec) > max(v[0] for v in rec):
                                ctx.count("grid-read-older-than-disk-best(permitted: not located)")
                    # correspondence material
                for (st, out) in hooks.checks:
                    acc["upd_lines"].append(hook_upd_line(st))
                    acc["upd_impl"].append(out)
                    acc["upd_cases"].append({"kind": "grid-check", "h": h, "line": acc["upd_lines"][-1]})
                    monitor_keeps_querying(ctx, st, st["known"], out, case, "grid")
                    ctx.case(("gupd", acc["upd_lines"][-1]) if (st["running"] and not st["must"]) else None)
                    ctx.count("grid-check-%s-%s" % (MODES[st["mode"]], out.split(";")[0].split(":")[0]))
                for (line, canon) in hooks.oplogs:
                    acc["log_lines"].append(line)
                    acc["log_impl"].append(canon)
                    acc["log_cases"].append({"kind": "grid-smap-oplog", "h": h, "line": line[:2000]})
                for (mode, smap, st) in hooks.final_maps:
                    vers = mc.versions_of(smap)
                    if len(set(v[:8] for v in vers)) < len(vers):
                        ctx.count("grid-map-one-version-two-verinfos")
                        ctx.violation("a real ServerMap holds one version (same seqnum, root hash and signed prefix) under two "
                                      "different verinfo tuples: %r" % sorted((v[0], [key for key, _o in v[8]]) for v in vers
                                                                               if [w[:8] for w in vers].count(v[:8]) > 1)[:2],
                                      case, "one-version-two-verinfos")
                    acc["sm_lines"].append("smap %s %s" % (mc.vtable(vers), " ".join(mc.smap_ops(smap, vers, hooks.sidx))))
                    acc["sm_impl"].append(mc.canon_smap(smap, vers, hooks.sidx))
                    acc["sm_cases"].append({"kind": "grid-smap", "h": h, "line": acc["sm_lines"][-1][:2000]})
            finally:
                g.close()
    except grid.Stuck as e:
        ctx.count("grid-stuck")
        ctx.note("history stuck (%s): %r" % (e, h))
    finally:
        hooks.uninstall()
        publish.DEFAULT_MUTABLE_MAX_SEGMENT_SIZE = saved_seg


# fixed corpus: boundary shapes
def _corpus():
    vs = lambda seq, rh, k, n: (seq, rh, b"\x01" * 16, 6, 6, k, n, b"p%d" % seq + rh[:2], tuple((key, 100) for key in mc.OFFSET_KEYS))
    v3, v5, v5b = vs(3, HASHES[0], 2, 3), vs(5, HASHES[1], 2, 3), vs(5, HASHES[2], 2, 3)
    return [
        ([v3], []),
        ([v3, v5], [("a", 0, 0, 0), ("a", 1, 1, 0), ("a", 2, 2, 1)]),                       # newer unrecoverable
        ([v5, v5b], [("a", 0, 0, 0), ("a", 1, 1, 0), ("a", 2, 0, 1), ("a", 3, 1, 1)]),       # needs merge
        ([v3, v5], [("a", 0, 0, 0), ("a", 0, 0, 1), ("a", 1, 0, 1), ("b", 1, 0, "00"), ("a", 1, 0, 0)]),
        ([v3, v5, v5b], [("a", 0, 0, 2), ("a", 1, 1, 2), ("a", 2, 0, 1), ("a", 3, 1, 1), ("a", 4, 0, 0), ("a", 5, 5, 0), ("u", 6), ("r", 0)]),
        # C14-a: the newer version has k copies of ONE share number (unrecoverable), the older one is recoverable
        ([v3, v5], [("a", 0, 0, 0), ("a", 1, 1, 0), ("a", 2, 0, 1), ("a", 3, 0, 1), ("a", 4, 0, 1)]),
        # C11-b / C14-c: a newer version on one share, an older one recoverable; also the writer's and the reader's
        # description of one version (offset names in another order)
        ([v3, v5, v5[:8] + (tuple(reversed(v5[8])),)], [("a", 0, 0, 0), ("a", 1, 1, 0), ("a", 2, 2, 1), ("a", 3, 1, 2)]),
    ]



def _upd_corpus():
    """C11-a: MODE_READ, 2k answers in, an older version recoverable, one share of a newer version seen, servers left"""
    vs = lambda seq, rh, k, n: (seq, rh, b"\x01" * 16, 6, 6, k, n, b"p%d" % seq + rh[:2], tuple((key, 100) for key in mc.OFFSET_KEYS))
    v3, v5 = vs(3, HASHES[0], 2, 4), vs(5, HASHES[1], 2, 4)
    base = {"mode": "MODE_READ", "running": True, "eps": 2, "priv": False, "full": [0, 1, 2, 3, 4, 5, 6, 7],
            "must": [], "out": [], "extra": [4, 5, 6, 7], "bad": [], "empty": [3], "with": [0, 1, 2], "completed": 4,
            "numq": 4, "vers": [v3, v5], "ops": [("a", 0, 0, 0), ("a", 1, 1, 0), ("a", 2, 2, 1)]}
    waiting = dict(base, extra=[], out=[4], completed=4)
    return [base, waiting, dict(base, mode="MODE_ANYTHING"), dict(base, ops=[("a", 0, 0, 0), ("a", 1, 1, 0)])]


# grid histories of the fixed corpus: one per known mechanism (all shares on distinct servers: 4 servers, N = 4)
HISTORY_CORPUS = [
    # C11-c: the newest version survives on server 0 only; server 0 answers the first survey pass of the edit and is
    # gone for the second pass and the publish -- the three multi-pass operations
    {"servers": 4, "k": 2, "n": 4, "fmt": "s", "sched": 21, "policy": "fifo",
     "steps": [("create", "0011"), ("pub", "2233", []), ("pub", "4455", []), ("stale", 1, [1, 2, 3]),
               ("modify-split", "aa", {"0": ["ok-then-fail", 1]}), ("read", [])]},
    {"servers": 4, "k": 2, "n": 4, "fmt": "s", "sched": 22, "policy": "fifo",
     "steps": [("create", "0011"), ("pub", "2233", []), ("pub", "4455", []), ("stale", 1, [1, 2, 3]),
               ("modify", "bb", {"0": ["ok-then-fail", 1]}), ("read", [])]},
    {"servers": 4, "k": 2, "n": 4, "fmt": "m", "sched": 23, "policy": "fifo",
     "steps": [("create", "00112233445566778899"), ("pub", "2233445566778899aabb", []), ("pub", "445566778899aabbccdd", []),
               ("stale", 1, [1, 2, 3]), ("update-split", "cc", {"0": ["ok-then-fail", 1]}), ("read", [])]},
    # C11-b on the grid: a publish that fails part-way leaves a newer seqnum on one server; then an in-place update
    {"servers": 4, "k": 2, "n": 4, "fmt": "m", "sched": 24, "policy": "fifo",
     "steps": [("create", "00112233445566778899"), ("wfail", [1, 2, 3]), ("pub", "2233445566778899aabb", []),
               ("update", "dd", 3, []), ("read", [])]},
    # 80fa722: a version object is reused (publish, then an edit that re-surveys with one server gone): the
    # publisher's and the surveyor's description of the new version must be one verinfo
    {"servers": 3, "k": 1, "n": 3, "fmt": "m", "sched": 25, "policy": "fifo",
     "steps": [("create", "0011"), ("overwrite-then-modify", "2233", "ee", [2]), ("read", [])]},
    {"servers": 3, "k": 1, "n": 3, "fmt": "s", "sched": 26, "policy": "fifo",
     "steps": [("create", "0011"), ("overwrite-then-modify", "2233", "ee", [2]), ("read", [])]},
    # C11-d: v1 on p0..p3; v2 written while p0, p1 are away (p2..p5); p0, p1 return stale; the reader's survey is
    # satisfied by p0..p3; p3 answers the survey and fails every later read; shares too big for the survey cache
] + [
    {"servers": 6, "k": 2, "n": 4, "fmt": f, "sched": sd, "policy": pol, "segsize": 4096,
     "steps": [("create", "big:20000:49"), ("away-pub", "big:20000:50", [0, 1]), ("read-flaky", {"3": 1}), ("read", [])]}
    for (f, sd, pol) in [("s", 31, "fifo"), ("m", 32, "fifo"), ("s", 33, "lifo"), ("s", 34, "random"), ("m", 35, "random"),
                         ("s", 36, "random")]
] + [
    # C11-a on the grid: the first 2k servers of the permuted list hold an older recoverable version and one share of
    # the newest (covered deterministically by _upd_corpus; this history exercises the same rule end to end)
    {"servers": 8, "k": 2, "n": 4, "fmt": "s", "sched": 27, "policy": "fifo",
     "steps": [("create", "0011"), ("pub", "2233", []), ("stale", 0, [0, 1, 2, 3, 4, 5]), ("read", []), ("read", [6, 7])]},
]


def run_gotsig(ctx):
    """The survey's last step on the real ServermapUpdater._got_signature_one_share: a share whose version has a valid
    signature is recorded in the servermap -- also when the same server handed over a corrupt share earlier in this
    update -- unless that very share was marked bad before or the update is over (a read may only choose among the
    versions it located: what it is shown must be what validated)."""
    from allmydata.mutable.servermap import ServermapUpdater, ServerMap
    servers = [mc.FakeServer(i) for i in range(3)]
    vs = lambda seq: (seq, HASHES[0], b"\x01" * 16, 6, 6, 2, 3, b"p%d" % seq, tuple((key, 100) for key in mc.OFFSET_KEYS))
    n = 0
    for running in (True, False):
        for in_bad_servers in (False, True):
            for marked_bad in (False, True):
                for already_known in (False, True):
                    u = ServermapUpdater.__new__(ServermapUpdater)
                    u._log_number = None
                    u._running = running
                    u._servermap = ServerMap()
                    u._valid_versions = {u._make_verinfo_hashable(vs(5)[:8] + (dict(vs(5)[8]),))}   # signature seen valid
                    u._bad_servers = {servers[1]} if in_bad_servers else set()
                    u._servers_with_shares = set()
                    if already_known:
                        u._servermap.add_new_share(servers[1], 4, vs(3), 0)
                    if marked_bad:
                        u._servermap.mark_bad_share(servers[1], 4, b"cs")
                    verinfo_in = vs(5)[:8] + (dict(vs(5)[8]),)
                    try:
                        u._got_signature_one_share((None, (True, verinfo_in), (True, b"sig"), None, None), 4, servers[1], None)
                    except Exception as e:
                        ctx.count("gotsig-exception:" + type(e).__name__)
                        continue
                    got = u._servermap.version_on_server(servers[1], 4)
                    want = vs(5) if (running and not marked_bad) else (vs(3) if (already_known and not marked_bad) else None)
                    case = {"kind": "gotsig", "running": running, "server_gave_corrupt_share_before": in_bad_servers,
                            "share_marked_bad": marked_bad, "already_known": already_known}
                    n += 1
                    ctx.case(("gotsig", running, in_bad_servers, marked_bad, already_known))
                    if (got and got[:2]) != (want and want[:2]):
                        ctx.violation("a validly signed share (seq 5) reported during the survey: the servermap now shows seq %s "
                                      "for that slot, expected seq %s" % (got and got[0], want and want[0]), case,
                                      "valid-share-not-recorded" if want and not got else "survey-recorded-wrong-share")
    ctx.count("gotsig-cases", n)


def replay_case(replay):
    """the case of a replay file: a violation's case, or the case of the first recorded disagreement"""
    if replay.get("case"):
        return replay["case"]
    for d in replay.get("correspondence_disagreements", []) + replay.get("disagreements", []):
        if d.get("case"):
            return d["case"]
    raise KeyError("replay file holds no case")

def run(ctx):
    if ctx.replay:
        c = replay_case(ctx.replay)
        if c.get("kind") == "smap":
            run_smaps(ctx, [(parse_replay_vers(c["vers"]), [tuple(o) for o in c["ops"]])])
        elif c.get("kind") == "upd":
            st = dict(c["state"]); st["vers"] = parse_replay_vers(c["vers"]); st["ops"] = [tuple(o) for o in c["ops"]]
            run_upds(ctx, [st])
        else:
            h = c["h"]
            h["steps"] = [tuple(s) for s in h["steps"]]
            acc = {k: [] for k in ("upd_lines", "upd_impl", "upd_cases", "sm_lines", "sm_impl", "sm_cases", "log_lines",
                                    "log_impl", "log_cases")}
            run_history(ctx, h, acc)
            finish_grid(ctx, acc)
        return
    import os
    corpus_only = bool(os.environ.get("VERIF_CORPUS_ONLY"))
    cases = _corpus()
    for _ in range(0 if corpus_only else ctx.budget(400, 8000)):
        vers = gen_versions(ctx.rng)
        cases.append((vers, gen_map_ops(ctx.rng, vers)))
    run_smaps(ctx, cases)
    run_gotsig(ctx)
    run_upds(ctx, _upd_corpus() + [gen_upd(ctx.rng) for _ in range(0 if corpus_only else ctx.budget(600, 12000))])
    acc = {k: [] for k in ("upd_lines", "upd_impl", "upd_cases", "sm_lines", "sm_impl", "sm_cases", "log_lines",
                                    "log_impl", "log_cases")}
    for h in HISTORY_CORPUS:
        run_history(ctx, dict(h, steps=[tuple(st) for st in h["steps"]]), acc)
    import time
    for _ in range(0 if corpus_only else ctx.budget(80, 900)):
        h = gen_history(ctx.rng)
        t0 = time.time()
        run_history(ctx, h, acc)
        if time.time() - t0 > 20:
            ctx.note("slow history (%.0f s): %r" % (time.time() - t0, h))
    finish_grid(ctx, acc)


def finish_grid(ctx, acc):
    logm = ctx.model(acc["log_lines"])
    if logm is not None:
        ctx.compare("ServerMaps of grid histories after each survey pass vs the model replaying every mutator call made on "
                    "that map since its creation (add_new_share / mark_bad_share / mark_server_(un)reachable): nothing else "
                    "may change a servermap", acc["log_cases"], acc["log_impl"], logm)
    model = ctx.model(acc["upd_lines"] + acc["sm_lines"])
    if model is not None:
        n = len(acc["upd_lines"])
        ctx.compare("_check_for_done calls observed in grid histories (decision, servers queried, extra_servers left)",
                    acc["upd_cases"], acc["upd_impl"], model[:n])
        ctx.compare("final servermaps of grid mapupdates (all query functions)", acc["sm_cases"], acc["sm_impl"], model[n:])
    if acc["upd_lines"]:
        ctx.sample({"grid-upd": acc["upd_lines"][-1][:300], "impl": acc["upd_impl"][-1]})
