"""C19 — directory contents round-trip (dirnode.py pack_children / _pack_normalized_children /
_unpack_contents; unknown.py; nodemaker.create_from_cap; netstring framing)."""
ID = "C19"
LEAN_PROPS = "Tahoe.Props.C19"
DRIVER = "C19"
GENERATED = []
SOURCES = ["src/allmydata/dirnode.py", "src/allmydata/unknown.py", "src/allmydata/nodemaker.py",
           "src/allmydata/util/netstring.py"]
DESIGN_REF = "DESIGN.md §2 C19"
TECHNIQUE = ("Lean 4 theorems over an executable model of pack/unpack (netstring framing, name normalization, abstract "
             "JSON and encryption with round-trip hypotheses, AuxValueDict cache, create_from_cap / UnknownNode / "
             "uri.from_string prefix logic): unpack_pack, unpack_pack_all_kept, pack_unpack_pack, names_normalized, "
             "pack_children_names_normalized, immutable_dir_refuses_mutable, the canon_* fixpoint theorems, "
             "repack_preserves_both_slots, listing_packed_for_another_directory; differential correspondence of "
             "pack_children, _pack_contents, _unpack_contents and create_from_cap on real DirectoryNodes (mutable through "
             "write and read handle, immutable) for generated child sets, the full rw-slot x ro-slot grid, multi-step "
             "histories and structured malformed data; implementation-side round-trip monitor")
LEVEL_TEXT = ("14 theorems proved in Lean for all child lists: unpack∘pack = canon (names, order, metadata, cached raw entry), "
              "pack∘unpack∘pack = pack, names normalized and distinct for any input bytes, immutable directories refuse "
              "exactly the disallowed children, canon is the identity for known nodes, for an unknown write cap next to any "
              "read cap, for a lone unknown read cap and for an imm.-alleged cap in an immutable directory, a listing packed "
              "for another directory is re-encoded under the target key; one counterexample theorem for the open finding "
              "(caps with two alleged prefixes are not preserved).  Model tied to the code by comparing the packed bytes "
              "(ciphertexts re-framed after decryption), the unpacked (name, kind, write cap, read cap, metadata) lists and "
              "create_from_cap results.  Correspondence/monitor only: NFC itself, the strengthening of ro.-alleged or "
              "unprefixed unknown caps to imm. in immutable directories, shared state between parse results.")
LEVEL_NOTE = ("Lean kernel + standard axioms; normalize, JSON, UTF-8 and the rw-cap cipher are abstract with explicit "
              "round-trip hypotheses (structure RoundTrip; instance given; sampled on the real code); cap classification is "
              "an oracle computed by the real uri.from_string (its C15/C16 facts are hypotheses of the canon_* theorems); "
              "sorted() is an input ordering; split_netstring's int() quirks are C38's.")
RULE = ("generated child sets (0..50 children, names from several scripts incl. names that change under NFC and NFC-"
        "colliding spellings, every cap kind incl. unknown caps with/without ro./imm. prefixes and invalid combinations, "
        "nested JSON metadata) packed for a mutable and for an immutable directory, unpacked through write handle, read "
        "handle and immutable directory; plus structured malformed data (truncation, junk, duplicate / non-normalized / "
        "unsorted names, trailing spaces, stray rwcapdata) and direct create_from_cap calls; a case = one pack, unpack "
        "or create call; half of the children come from the full grid rw slot {none, known write cap of each kind, "
        "unknown-format} x ro slot {none, matching, known read-only cap of each kind, unknown-format, ro.-/imm.-prefixed}: "
        "a directory is written from those cap strings, read through _unpack_contents/create_from_cap (first generation), "
        "every child set again and re-packed, and the stored rwcap / ro fields decrypted and read again (second "
        "generation), both slots compared with what was given; the listing (AuxValueDict with cached raw entries) of the unpacked directory is also packed for "
        "ANOTHER directory with a different write key (pack_children, create_dirnode(initial_children=), "
        "create_subdirectory(initial_children=)) and read back through that directory's write handle; "
        "plus multi-step histories on real directories (children linked in one batch with byte-identical metadata, one of "
        "them modified by set_metadata_for / set_uri / set_node / a sibling deleted, the directory listed again): every "
        "child's metadata is deep-compared with an independent netstring/JSON decode of the stored bytes, and two unpacks "
        "of the same bytes must not share state; non-trivial = at least one child / a non-empty cap")
TRUSTED = ["lean/Tahoe/Dir/Pack.lean is a hand transcription of the pack/unpack code, UnknownNode.__init__, "
           "uri.from_string's prefix/constraint logic and create_from_cap",
           "the cap classification table sent to the driver is computed with the real uri.from_string / to_string / get_readonly"]
ASSUMPTIONS = ["NFC is idempotent; json.loads(json.dumps(md)) == md for the generated metadata; decrypt(encrypt(x)) == x "
               "with the directory's write key (each checked on every generated case)",
               "verifier caps as children are not generated (they become UnknownNodes in create_from_cap)",
               "the x-tahoe-future-test-writeable:/-mutable: test caps are, by their purpose, dropped when read in a stricter "
               "context; the monitor does not demand that they survive an immutable directory",
               "trailing spaces of caps are padding by design (rstrip inside canon); caps with two alleged prefixes are the open "
               "known finding roundtrip-double-prefix",
               "split_netstring's use of int() (accepting '+', '_', spaces) is C38's subject; the malformed stream does not "
               "produce such length fields"]

import json
import os
import unicodedata

import common
from common import hx

RO, IMM = b"ro.", b"imm."


def nfc(s):
    return unicodedata.normalize("NFC", s)


# ------------------------------------------------------------------ packed data: own strict parser / framer

def ns(b):
    return b"%d:%s," % (len(b), b)


def read_ns(data, pos):
    colon = data.index(b":", pos)
    n = int(data[pos:colon])
    s = data[colon + 1:colon + 1 + n]
    assert len(s) == n and data[colon + 1 + n:colon + 2 + n] == b","
    return s, colon + 2 + n


def parse_packed(data):
    """-> list of (name, ro, rwcapdata, metadata) bytes"""
    res, pos = [], 0
    while pos < len(data):
        entry, pos = read_ns(data, pos)
        fields, p = [], 0
        for _ in range(4):
            f, p = read_ns(entry, p)
            fields.append(f)
        res.append(tuple(fields))
    return res


def frame(entries):
    return b"".join(ns(b"".join(ns(f) for f in e)) for e in entries)


def to_model_cipher(dn, data):
    """re-frame real packed bytes: every rwcapdata becomes 16 zero bytes ‖ plaintext ‖ 32 zero bytes"""
    out = []
    for (name, ro, rwcap, md) in parse_packed(data):
        if rwcap:
            pt = dn._decrypt_rwcapdata(rwcap)
            if len(rwcap) != 48 + len(pt):
                raise AssertionError("rwcapdata length")
            rwcap = b"\0" * 16 + pt + b"\0" * 32
        out.append((name, ro, rwcap, md))
    return frame(out)


def to_real_cipher(writekey, data):
    """inverse direction for crafted data: zero-framed plaintext -> real _encrypt_rw_uri output"""
    from allmydata.dirnode import _encrypt_rw_uri
    out = []
    for (name, ro, rwcap, md) in parse_packed(data):
        if rwcap:
            rwcap = _encrypt_rw_uri(writekey, rwcap[16:len(rwcap) - 32])
        out.append((name, ro, rwcap, md))
    return frame(out)


# ------------------------------------------------------------------ caps

def cap_strings(rng):
    """a fresh assortment of cap strings of every kind (as bytes)"""
    from allmydata import uri
    rb = lambda n: bytes(rng.randrange(256) for _ in range(n))
    s = lambda u: u.to_string()
    chk = uri.CHKFileURI(rb(16), rb(32), rng.randrange(1, 20), rng.randrange(20, 40), rng.randrange(1, 10 ** 9))
    lit = uri.LiteralFileURI(rb(rng.randrange(0, 30)))
    ssk = uri.WriteableSSKFileURI(rb(16), rb(32))
    mdmf = uri.WriteableMDMFFileURI(rb(16), rb(32))
    d1 = uri.DirectoryURI(uri.WriteableSSKFileURI(rb(16), rb(32)))
    d2 = uri.MDMFDirectoryURI(uri.WriteableMDMFFileURI(rb(16), rb(32)))
    di = uri.ImmutableDirectoryURI(uri.CHKFileURI(rb(16), rb(32), 3, 10, 500))
    dl = uri.LiteralDirectoryURI(uri.LiteralFileURI(rb(rng.randrange(0, 20))))
    fut = b"lafs://future_" + rb(4).hex().encode()
    return {
        "chk": s(chk), "lit": s(lit), "ssk": s(ssk), "ssk-ro": s(ssk.get_readonly()), "mdmf": s(mdmf),
        "mdmf-ro": s(mdmf.get_readonly()), "dir": s(d1), "dir-ro": s(d1.get_readonly()), "dir-mdmf": s(d2),
        "dir-mdmf-ro": s(d2.get_readonly()), "dir-chk": s(di), "dir-lit": s(dl),
        "future": fut, "future2": fut + b"_r", "bad-chk": b"URI:CHK:garbage", "bad-dir": b"URI:DIR2:!!",
        "test-w": b"x-tahoe-future-test-writeable:" + rb(3).hex().encode(),
        "test-m": b"x-tahoe-future-test-mutable:" + rb(3).hex().encode(),
    }


def gen_cap_pair(rng, caps):
    """(writecap, readcap) as handed to create_from_cap; mostly sensible, sometimes odd"""
    k = rng.choice(list(caps))
    c = caps[k]
    pre = lambda x: rng.choice([b"", b"", b"", RO, IMM, RO + RO, IMM + RO]) + x
    sp = lambda x: x + (b" " * rng.choice([0, 0, 0, 1, 3]) if x else x)
    r = rng.random()
    if k in ("ssk", "mdmf", "dir", "dir-mdmf"):
        ro = caps[k + "-ro"]
        opts = [(c, None), (c, ro), (None, ro), (c, ro), (None, pre(ro)), (None, pre(c)), (pre(c), None), (ro, c)]
    elif k in ("future", "future2", "test-w", "test-m"):
        o = caps["future2"]
        opts = [(c, o), (None, c), (None, pre(c)), (pre(c), None), (c, None), (c, pre(o)), (pre(c), pre(o)), (None, RO + c),
                (None, IMM + c), (IMM + c, None), (RO + c, None)]
    else:
        opts = [(c, None), (None, c), (c, c), (None, pre(c)), (pre(c), None), (None, c)]
    w, rd = rng.choice(opts)
    if r < 0.1:
        w, rd = (sp(w) if w else w), (sp(rd) if rd else rd)
    if r > 0.97:
        w, rd = rng.choice([(None, None), (b"", None), (b"", b""), (None, b"")])
    return w, rd


KNOWN_WRITE = ["ssk", "mdmf", "dir", "dir-mdmf"]
KNOWN_RO = ["chk", "lit", "ssk-ro", "mdmf-ro", "dir-ro", "dir-mdmf-ro", "dir-chk", "dir-lit"]
RW_KINDS = ["none"] + ["known-write:" + k for k in KNOWN_WRITE] + ["unknown"]
RO_KINDS = ["none", "matching"] + ["known-ro:" + k for k in KNOWN_RO] + ["unknown", "ro.unknown", "imm.unknown"]


def gen_grid_pair(rng, caps):
    """every combination of rw slot {none, known write cap of each kind, unknown-format cap} and ro slot {none, the
    matching read cap, known read-only cap of each kind, unknown-format cap, ro.-prefixed, imm.-prefixed} -> (w, r, kinds)"""
    rwk = rng.choice(RW_KINDS)
    rok = rng.choice(RO_KINDS)
    if rok == "matching" and not rwk.startswith("known-write"):
        rok = rng.choice(["known-ro:" + k for k in KNOWN_RO])
    if rwk == "unknown" and rng.random() < 0.6:
        rok = rng.choice(["known-ro:" + k for k in KNOWN_RO])          # the future write cap next to a readable read cap
    fut = caps["future"]
    w = None if rwk == "none" else (fut if rwk == "unknown" else caps[rwk.split(":")[1]])
    if rok == "none":
        r = None
    elif rok == "matching":
        r = caps[rwk.split(":")[1] + "-ro"]
    elif rok.startswith("known-ro:"):
        r = caps[rok.split(":")[1]]
    else:
        r = {"unknown": b"", "ro.unknown": RO, "imm.unknown": IMM}[rok] + caps["future2"]
    return w, r, [rwk, rok]


def strip1(x):
    if x is None:
        return None
    return x[4:] if x.startswith(IMM) else x[3:] if x.startswith(RO) else x


def expected_caps(kinds, wc, rc):
    """what a child given as (writecap, readcap) must come back as from a mutable directory read through its write cap:
    (get_write_uri(), get_readonly_uri() without its alleged-prefix), or None where the design rejects the pair or
    the pair is inconsistent.  From the statement + unknown.py: an unknown write cap is kept next to any read cap."""
    rwk, rok = kinds
    if rwk == "none":
        return None if rok == "none" else (None, strip1(rc))
    if rwk.startswith("known-write"):
        return (wc, strip1(rc)) if rok in ("none", "matching") else None
    if rok in ("none", "imm.unknown"):
        return None          # MustNotBeUnknownRWError / MustBeDeepImmutableError by design
    return (wc, strip1(rc))


def class_of(t):
    """what `uri.from_string`'s dispatch makes of the prefix-free string t (model: CapClass)"""
    from allmydata import uri
    if t.startswith(b"x-tahoe-future-test-writeable:"):
        return "tw"
    if t.startswith(b"x-tahoe-future-test-mutable:"):
        return "tm"
    if t.startswith(RO) or t.startswith(IMM):
        return "u"
    u = uri.from_string(t)
    if isinstance(u, uri.UnknownURI):
        return "b" if u.get_error() is not None else "u"
    return "k%d%d.%s.%s" % (1 if u.is_mutable() else 0, 0 if u.is_readonly() else 1, hx(u.to_string()),
                            hx(u.get_readonly().to_string()))


def candidates(strs):
    """every string the model may hand to `classify` when these cap strings travel through pack/unpack"""
    out = set()
    work = [s for s in strs if s]
    while work:
        s = work.pop()
        if s in out:
            continue
        out.add(s)
        for p in (RO, IMM):
            if s.startswith(p):
                work.append(s[len(p):])
        if s.rstrip(b" ") != s:
            work.append(s.rstrip(b" "))
    return out


def class_table(strs):
    ents = []
    done = set()
    work = list(candidates(strs))
    while work:
        t = work.pop()
        if t in done or not t:
            continue
        done.add(t)
        c = class_of(t)
        if c != "u":
            ents.append("%s=%s" % (hx(t), c))
        if c.startswith("k"):
            _, cn, rf = c.split(".")
            work += [bytes.fromhex(cn), bytes.fromhex(rf)]
    return ",".join(sorted(ents)) or "-"


def show_node(n):
    err = False
    try:
        n.raise_error()
    except Exception:
        err = True
    rw, ro = n.get_write_uri(), n.get_readonly_uri()
    unk = n.is_unknown()
    return "%s.%s.%s.%d.%d" % ("U" if unk else "K", "N" if rw is None else hx(rw), "N" if ro is None else hx(ro),
                               0 if unk else (1 if n.is_mutable() else 0), 1 if err else 0)


def weird(cap):
    """a cap with more than one alleged-prefix (`ro.ro.…`, `imm.ro.…`): its prefixes are not stable under
    strip_prefix_for_ro + from_string, the statement does not speak about such strings; the monitor leaves them to
    the correspondence check"""
    if not cap:
        return False
    for p in (RO, IMM):
        if cap.startswith(p):
            rest = cap[len(p):]
            return rest.startswith(RO) or rest.startswith(IMM)
    return False


def model_allowed(tok):
    u, rw, ro, m, e = tok.split(".")
    if u == "U":
        return e == "0" and rw in ("N", "-")
    return m == "0"


# ------------------------------------------------------------------ names, metadata

SCRIPTS = ["abcxyzABC019 _-.", "éèüñåøçÅÉ", "éñǻ", "αβγδΩω", "жзий", "日本語漢字", "한글각",
           "한", "豈﨑Åµ", "ẛ̣ǆǅ", "😀🎉", "/\\:*?\"<>|", "̣́̃̈̊̇"]


def gen_name(rng):
    k = rng.choice([1, 1, 2, 3, 5, 12])
    if rng.random() < 0.03:
        return ""
    s = "".join(rng.choice(rng.choice(SCRIPTS)) for _ in range(k))
    if rng.random() < 0.2:
        s = unicodedata.normalize(rng.choice(["NFD", "NFC", "NFKD"]), s)
    return s


def gen_json(rng, depth=0):
    r = rng.random()
    if depth > 2 or r < 0.5:
        return rng.choice([None, True, False, 0, 1, -5, 2 ** 40, 1.5, 1e-7, "", "s", "é́\"\\\n", "\U0001f600",
                           1700000000.25])
    if r < 0.75:
        return [gen_json(rng, depth + 1) for _ in range(rng.randrange(0, 4))]
    return {gen_name(rng) or "k": gen_json(rng, depth + 1) for _ in range(rng.randrange(0, 4))}


def gen_meta(rng):
    md = {}
    for _ in range(rng.choice([0, 0, 1, 2, 4])):
        md[rng.choice(["ctime", "mtime", "no-write", "tahoe", "k", gen_name(rng) or "e"])] = gen_json(rng)
    if rng.random() < 0.5:
        md["tahoe"] = {"linkcrtime": 1700000000.0 + rng.randrange(1000), "linkmotime": 1700000000.5}
    return md


def dumps(md):
    from allmydata.util import jsonbytes
    return jsonbytes.dumps(md).encode("utf-8")


# ------------------------------------------------------------------ the run

class World:
    def __init__(self, ctx, rt, g):
        from allmydata.mutable.publish import MutableData  # noqa
        self.ctx, self.rt, self.c = ctx, rt, g.clients[0]
        self.dn = rt.wait(self.c.create_dirnode())
        self.dnro = self.c.create_node_from_uri(self.dn.get_readonly_uri())
        self.imm = rt.wait(self.c.create_immutable_dirnode({}))
        self.key = self.dn._node.get_writekey()
        self.dn2 = rt.wait(self.c.create_dirnode())           # another directory, another write key
        self.key2 = self.dn2._node.get_writekey()
        assert self.key2 != self.key
        self.n_cross = 0
        self.n_api = 0
        assert self.dn.is_mutable() and not self.dn.is_readonly()
        assert self.dnro.is_mutable() and self.dnro.is_readonly()
        assert not self.imm.is_mutable() and self.imm.is_readonly()


def norm_table(names):
    allv = set(names) | {nfc(x) for x in names}
    return ",".join("%s>%s" % (hx(x.encode()), hx(nfc(x).encode())) for x in sorted(allv) if nfc(x) != x) or "-"


def show_unpacked(children):
    return ";".join("%s~%s~%s" % (hx(k.encode()), show_node(n), hx(dumps(md))) for k, (n, md) in children.items()) or "-"


def call(f):
    try:
        return "ok", f()
    except Exception as e:  # noqa
        return "err", e


def one_case(ctx, w, case, lines, impls, cases):
    """case = {"children": [[namex, w|None, r|None, deep_imm_ctx, metadata], …]} with caps as hex or None"""
    from allmydata.dirnode import pack_children
    from allmydata.interfaces import MustBeDeepImmutableError
    rng = ctx.rng
    unhex = lambda x: None if x is None else bytes.fromhex(x)
    childrenx = {}
    toks = []
    capstrs = set()
    grid = {}                 # NFC name -> (writecap, readcap, kinds, metadata, expected caps) of the spelling that wins
    for ch in case["children"]:
        namex, wc, rc, ctxi, md = ch[:5]
        wc, rc = unhex(wc), unhex(rc)
        n = w.c.create_node_from_uri(wc, rc, deep_immutable=bool(ctxi))
        childrenx[namex] = (n, md)
        grid.pop(nfc(namex), None)
        if len(ch) > 5 and not ctxi and expected_caps(ch[5], wc, rc) is not None:
            grid[nfc(namex)] = (wc, rc, ch[5], md, expected_caps(ch[5], wc, rc))
        capstrs |= {wc, rc, n.get_write_uri(), n.get_readonly_uri()}
        if json.loads(dumps(md)) != md:
            ctx.disagree("json round trip of generated metadata fails", {"md": repr(md)}, None, None)
        tok = show_node(n)
        if (not tok.endswith(".1")) and model_allowed(tok) != bool(n.is_allowed_in_immutable_directory()):
            ctx.disagree("is_allowed_in_immutable_directory differs from the model's rule", {"node": tok},
                         n.is_allowed_in_immutable_directory(), model_allowed(tok))
        # create_from_cap correspondence at function granularity
        ct1 = class_table({wc, rc})
        lines.append("create %d %s %s %s" % (1 if ctxi else 0, ct1, "N" if wc is None else hx(wc), "N" if rc is None else hx(rc)))
        impls.append(tok)
        cases.append({"create": [ctxi, None if wc is None else wc.hex(), None if rc is None else rc.hex()]})
        ctx.case(("create", ctxi, tok[:1], wc is None, rc is None, tok[-1]) if (wc or rc) else None)
        ctx.count("node:" + ("err" if tok.endswith(".1") else tok[0] + ("-rw" if ".N." not in tok[:4] else "")))
    for namex in childrenx:
        if nfc(nfc(namex)) != nfc(namex):
            ctx.disagree("NFC not idempotent", {"name": namex}, None, None)
    items = list(childrenx.items())
    ch_tok = ";".join("%s~%s~%s" % (hx(k.encode()), show_node(n), hx(dumps(md))) for k, (n, md) in items) or "-"
    ct = class_table(capstrs)
    nt = norm_table(list(childrenx))
    has_err = any(show_node(n).endswith(".1") for n, _ in childrenx.values())
    odd = {nfc(k) for k, (n, _) in childrenx.items() if weird(n.get_write_uri()) or weird(n.get_readonly_uri())}
    collapsed = {}
    for k, v in childrenx.items():
        collapsed[nfc(k)] = v          # pack_children: a later spelling of the same NFC name replaces the earlier one
    mutable_child = any((not n.is_unknown() and n.is_mutable()) or n.get_write_uri() for n, _ in collapsed.values()
                        if not show_node(n).endswith(".1"))
    nkey = len(childrenx) or None
    # ---- pack for a mutable directory
    st, packed_m = call(lambda: pack_children(dict(childrenx), w.key, False))
    lines.append("pack m %s %s %s" % (ct, nt, ch_tok))
    impls.append("ok:" + hx(to_model_cipher(w.dn, packed_m)) if st == "ok" else "err:cap")
    cases.append({"pack": "m", "case": case})
    ctx.case(("pack-m", st, len(childrenx)) if nkey else None)
    # ---- a directory written from the cap *strings* (as any other client would have stored them), read through
    #      the real _unpack_contents / NodeMaker.create_from_cap, and re-serialized (second generation)
    if grid:
        generations(ctx, w, case, grid, lines, impls, cases, capstrs)
    # ---- pack for an immutable directory
    st_i, packed_i = call(lambda: pack_children(dict(childrenx), None, True))
    lines.append("pack i %s %s %s" % (ct, nt, ch_tok))
    if st_i == "ok":
        impls.append("ok:" + hx(packed_i))
    else:
        # `child.raise_error()` may itself raise a MustBeDeepImmutableError recorded in an UnknownNode; the refusal
        # by _pack_normalized_children is recognised by its message
        refused = isinstance(packed_i, MustBeDeepImmutableError) and "is not allowed in an immutable directory" in str(packed_i.args[0])
        impls.append("err:imm" if refused else "err:cap")
    cases.append({"pack": "i", "case": case})
    ctx.case(("pack-i", impls[-1][:7], len(childrenx)) if nkey else None)
    ctx.count("pack-i:" + impls[-1][:7])
    # monitor: immutable directories refuse mutable or write-capable children
    if st_i == "ok" and mutable_child:
        ctx.violation("pack_children(deep_immutable=True) stored a mutable or write-capable child",
                      case, "imm-accepts-mutable")
    if st_i == "ok":
        for (_, ro, rwcap, _) in parse_packed(packed_i):
            if rwcap:
                ctx.violation("an immutable directory's packed entry carries rwcapdata", case, "imm-stores-rwcap")
    # ---- unpack
    def unpack_and_compare(label, mode, dirnode, data_real, data_model):
        stu, res = call(lambda: dirnode._unpack_contents(data_real))
        strs = set()
        for (_, ro, rwcap, _) in (parse_packed(data_model) if stu == "ok" else []):
            strs |= {ro, rwcap[16:len(rwcap) - 32] if rwcap else b""}
        names = []
        if stu == "ok":
            try:
                names = [e[0].decode("utf-8") for e in parse_packed(data_model)]
            except Exception:
                names = []
        lines.append("unpack %s %s %s %s" % (mode, class_table(strs | capstrs), norm_table(names), hx(data_model)))
        impls.append("ok:" + show_unpacked(res) if stu == "ok" else "err")
        cases.append({"unpack": mode, "what": label, "data_model": data_model.hex(), "case": case})
        ctx.case(("unpack", mode, label, stu, len(res) if stu == "ok" else -1) if data_real else None)
        ctx.count("unpack-%s:%s:%s" % (mode, label, stu))
        return stu, res

    if st == "ok":
        pm = to_model_cipher(w.dn, packed_m)
        stu, res = unpack_and_compare("packed", "mw", w.dn, packed_m, pm)
        _, res_ro = unpack_and_compare("packed", "mr", w.dnro, packed_m, pm)
        # ---- monitor: round trip through a mutable directory
        # trailing spaces of a cap are padding by design (ticket #925, "By stripping trailing spaces in Tahoe >= 1.6.0
        # …"): caps are compared without them, and a child whose caps carry padding is not compared cap by cap
        rs = lambda x: None if x is None else (x.rstrip(b" ") or None)
        spaced = {nfc(k) for k, (n, _) in childrenx.items()
                  if any((x or b"").endswith(b" ") for x in (n.get_write_uri(), n.get_readonly_uri()))}
        if stu != "ok":
            ctx.violation("unpacking freshly packed contents fails", case, "roundtrip-unpack-fails")
        else:
            want = {}
            for k, (n, md) in childrenx.items():
                want[nfc(k)] = (n, md)
            if any(k not in want or nfc(k) != k for k in res):
                ctx.violation("pack/unpack produced a name that is not the NFC name of a child", case, "roundtrip-names")
            stable = True
            for k, (n, md) in want.items():
                if k not in res:
                    stable = False
                    ctx.violation("a child disappeared in pack/unpack", case,
                                  "roundtrip-double-prefix" if k in odd else "roundtrip-names",
                                  {"name": k, "before": show_node(n)})
                    continue
                n2, md2 = res[k]
                if md2 != md:
                    ctx.violation("metadata differs after pack/unpack", case, "roundtrip-metadata")
                if k in spaced:
                    stable = False
                    continue
                if (n2.get_write_uri(), n2.get_readonly_uri()) != (n.get_write_uri(), n.get_readonly_uri()) or \
                        n2.is_unknown() != n.is_unknown():
                    stable = False
                    ctx.violation("capabilities differ after pack/unpack", case,
                                  "roundtrip-double-prefix" if k in odd else "roundtrip-caps",
                                  {"name": k, "before": show_node(n), "after": show_node(n2)})
                    continue
                n3 = res_ro[k][0] if isinstance(res_ro, dict) and k in res_ro else None
                # (an unknown node with a write cap next to a known read cap shows, through the read-only handle, as the
                #  known read-only node of that read cap: the same cap without the alleged-`ro.` prefix)
                same_ro = (n3 is not None and (n3.get_readonly_uri() == n.get_readonly_uri() or
                                               (n.is_unknown() and strip1(n3.get_readonly_uri()) == strip1(n.get_readonly_uri()))))
                if n3 is None or n3.get_write_uri() is not None or not same_ro:
                    ctx.violation("through the read-only handle the child is not its read cap", case,
                                  "roundtrip-double-prefix" if k in odd else "roundtrip-ro-view")
            # repack (AuxValueDict path and plain-dict path) gives the same bytes
            if stable:
                st2, again = call(lambda: w.dn._pack_contents(res))
                if st2 != "ok" or again != packed_m:
                    ctx.violation("pack(unpack(pack c)) differs from pack c (cached entries)", case, "repack-differs-aux")
                st3, again3 = call(lambda: pack_children({k: v for k, v in res.items()}, w.key, False))
                if st3 != "ok" or again3 != packed_m:
                    ctx.violation("pack(unpack(pack c)) differs from pack c (re-encoded entries)", case, "repack-differs")
        # ---- a real listing of this directory (an AuxValueDict that caches every raw entry, encrypted under THIS
        #      directory's write key) packed for ANOTHER directory and read back through that directory's write handle
        if stu == "ok":
            listing = w.dn._unpack_contents(packed_m)
            src = {k: (show_node(n), n.get_write_uri(), n.get_readonly_uri(), md) for k, (n, md) in listing.items()}

            def compare_with_source(what, got, sig):
                if set(got) != set(src):
                    ctx.violation("%s: names differ from the source listing" % what, case, sig + "-names")
                    return
                for k, (n2, md2) in got.items():
                    if (n2.get_write_uri(), n2.get_readonly_uri()) != src[k][1:3] or show_node(n2) != src[k][0]:
                        ctx.violation("%s: a child's caps differ from the source listing" % what, case, sig + "-caps",
                                      {"name": k, "source": src[k][0], "got": show_node(n2)})
                    if md2 != src[k][3]:
                        ctx.violation("%s: a child's metadata differs from the source listing" % what, case, sig + "-metadata")
            st4, packed_b = call(lambda: pack_children(listing, w.key2, False))
            l_tok = ";".join("%s~%s~%s" % (hx(k.encode()), show_node(n), hx(dumps(md))) for k, (n, md) in listing.items()) or "-"
            lcaps = set(capstrs)
            for k, (n, md) in listing.items():
                lcaps |= {n.get_write_uri(), n.get_readonly_uri()}
            lines.append("pack m %s %s %s" % (class_table(lcaps), norm_table(list(listing)), l_tok))
            try:
                impls.append("ok:" + hx(to_model_cipher(w.dn2, packed_b)) if st4 == "ok" else "err:cap")
            except Exception as e:  # noqa
                impls.append("unreadable:" + type(e).__name__)
            cases.append({"pack": "m", "what": "listing-for-other-directory", "case": case})
            ctx.case(("pack-listing", st4, len(listing)) if listing else None)
            if st4 != "ok":
                ctx.violation("a directory listing cannot be packed for another directory", case, "cross-dir-pack-fails")
            else:
                st5, res_b = call(lambda: w.dn2._unpack_contents(packed_b))
                if st5 != "ok":
                    ctx.violation("a listing packed for another directory cannot be unpacked there", case, "cross-dir-unpack-fails")
                else:
                    compare_with_source("listing packed for another directory (pack_children)", res_b, "cross-dir")
            # the same through the public API, now and then (a new directory costs an RSA key)
            if listing and len(listing) <= 12 and w.n_cross < ctx.budget(12, 150) and rng.random() < 0.3:
                w.n_cross += 1
                for what, make in (("create_dirnode(initial_children=listing)",
                                    lambda: w.c.create_dirnode(initial_children=w.dn._unpack_contents(packed_m))),
                                   ("create_subdirectory(initial_children=listing)",
                                    lambda: w.dn2.create_subdirectory("c19-sub", initial_children=w.dn._unpack_contents(packed_m)))):
                    stc, newdir = call(lambda: w.rt.wait(make()))
                    if stc != "ok":
                        ctx.disagree("creating a directory from a listing raised", case, repr(newdir), None)
                        continue
                    stl, got = call(lambda: w.rt.wait(newdir.list()))
                    if stl != "ok":
                        ctx.violation("%s: the new directory cannot be listed" % what, case, "cross-dir-api-unreadable")
                    else:
                        compare_with_source(what, got, "cross-dir-api")
                    ctx.count("cross-dir-api")
        # ---- immutable directory reading data that holds mutable children: they must be dropped
        st_n, packed_n = call(lambda: pack_children(dict(childrenx), None, False))
        if st_n == "ok":
            stx, resx = unpack_and_compare("mutable-children-in-immutable", "i", w.imm, packed_n, packed_n)
            if stx == "ok":
                for k, (n2, _) in resx.items():
                    if (not n2.is_unknown() and n2.is_mutable()) or n2.get_write_uri():
                        ctx.violation("unpacking an immutable directory returned a mutable or write-capable child", case,
                                      "imm-unpack-returns-mutable")
        # ---- structured malformed variants of the packed data (model cipher form <-> real cipher form)
        ents = parse_packed(pm)
        variants = []
        if ents:
            cut = rng.randrange(len(pm))
            variants.append(("truncated", pm[:cut]))
            variants.append(("junk-appended", pm + rng.choice([b"x", b"3:ab", b"0:,", b"5:abcde", b":,", b"1:a;"])))
            e = list(rng.choice(ents))
            i = rng.randrange(len(ents))
            variants.append(("entry-trailing-junk", frame(ents[:i]) + ns(b"".join(ns(f) for f in ents[i]) + b"junk") + frame(ents[i + 1:])))
            variants.append(("entry-three-fields", frame(ents[:i]) + ns(b"".join(ns(f) for f in ents[i][:3])) + frame(ents[i + 1:])))
            sp = (e[0], e[1] + b"  ", (e[2][:len(e[2]) - 32] + b" " + e[2][len(e[2]) - 32:]) if e[2] else e[2], e[3])
            variants.append(("trailing-spaces", frame(ents[:i] + [sp] + ents[i + 1:])))
            variants.append(("duplicate-name", frame(ents + [(ents[0][0], e[1], e[2], e[3])])))
            variants.append(("reversed", frame(ents[::-1])))
            dn_name = unicodedata.normalize("NFD", ents[i][0].decode("utf-8")).encode("utf-8")
            variants.append(("non-normalized-name", frame(ents[:i] + [(dn_name,) + ents[i][1:]] + ents[i + 1:])))
            variants.append(("bad-utf8-name", frame(ents[:i] + [(b"\xff\xfe" + ents[i][0],) + ents[i][1:]] + ents[i + 1:])))
            variants.append(("short-rwcap", frame(ents[:i] + [(e[0], e[1], b"\0" * 16 + b"\0" * 32, e[3])] + ents[i + 1:])))
        for label, dm in variants[:] if rng.random() < 0.6 else variants[:3]:
            try:
                dr = to_real_cipher(w.key, dm)
            except Exception:
                dr = dm          # framing broken: the bytes are the same in both forms up to the break
                if any(x for (_, _, x, _) in ents):
                    continue
            stv, resv = unpack_and_compare(label, "mw", w.dn, dr, dm)
            if stv == "ok":
                if any(nfc(k) != k for k in resv):
                    ctx.violation("_unpack_contents returned a name that is not normalized", case, "unpack-name-not-normalized")
    if st_i == "ok":
        stu, res = unpack_and_compare("packed", "i", w.imm, packed_i, packed_i)
        if stu != "ok":
            ctx.violation("unpacking freshly packed immutable contents fails", case, "roundtrip-unpack-fails:imm")
        else:
            want = {nfc(k): v for k, v in childrenx.items()}
            if any(k not in want or nfc(k) != k for k in res):
                ctx.violation("immutable pack/unpack produced a name that is not the NFC name of a child", case, "roundtrip-names:imm")
            strip = lambda x: None if x is None else (x[4:] if x.startswith(IMM) else x[3:] if x.startswith(RO) else x)
            for k, (n, md) in want.items():
                if k not in res and any(b"x-tahoe-future-test-" in (x or b"") for x in (n.get_write_uri(), n.get_readonly_uri())):
                    continue   # the test prefixes simulate a future cap that the reader recognises as writeable / mutable
                if k not in res:
                    ctx.violation("a child disappeared in immutable pack/unpack", case,
                                  "roundtrip-double-prefix" if k in odd else "roundtrip-names:imm",
                                  {"name": k, "before": show_node(n)})
                    continue
                n2, md2 = res[k]
                if md2 != md:
                    ctx.violation("metadata differs after immutable pack/unpack", case, "roundtrip-metadata:imm")
                if (not n2.is_unknown() and n2.is_mutable()):
                    ctx.violation("an immutable directory returned a mutable child", case, "imm-unpack-returns-mutable")
                if any((x or b"").endswith(b" ") for x in (n.get_write_uri(), n.get_readonly_uri())):
                    continue
                a, b = n.get_readonly_uri(), n2.get_readonly_uri()
                # an unknown cap comes back with its allegation strengthened to `imm.` (documented in unknown.py)
                if n2.get_write_uri() is not None or n2.is_unknown() != n.is_unknown() or \
                        (a != b and not (n.is_unknown() and strip(a) == strip(b) and (b or b"").startswith(IMM))):
                    ctx.violation("capabilities differ after immutable pack/unpack", case,
                                  "roundtrip-double-prefix" if k in odd else "roundtrip-caps:imm",
                                  {"name": k, "before": show_node(n), "after": show_node(n2)})
        # a stray rwcapdata in an immutable directory is an error
        ents = parse_packed(packed_i)
        if ents:
            bad = frame([(ents[0][0], ents[0][1], b"\0" * 48 + b"x", ents[0][3])] + ents[1:])
            unpack_and_compare("rwcapdata-in-immutable", "i", w.imm, bad, bad)


def caps_match(node, exp):
    rw, ro = exp
    return node.get_write_uri() == rw and (ro is None or strip1(node.get_readonly_uri()) == ro)


def generations(ctx, w, case, grid, lines, impls, cases, capstrs):
    from allmydata.dirnode import _encrypt_rw_uri, pack_children
    sig = lambda kinds, gen: "child-cap-changed:%s+%s:%s-generation" % (kinds[0].split(":")[0] + (":" + kinds[0].split(":")[1] if ":" in kinds[0] else ""),
                                                                        kinds[1], gen)
    names = sorted(grid)
    stored_ro = {k: (grid[k][1] or b"") for k in names}
    for k in names:
        if stored_ro[k].startswith(RO):
            stored_ro[k] = stored_ro[k][3:]                 # strip_prefix_for_ro in a mutable directory
    data = frame([(k.encode("utf-8"), stored_ro[k], _encrypt_rw_uri(w.key, grid[k][0] or b""), dumps(grid[k][3]))
                  for k in names])
    # correspondence with the model on these bytes
    dm = to_model_cipher(w.dn, data)
    strs = set(capstrs)
    for k in names:
        strs |= {grid[k][0], grid[k][1], stored_ro[k]}
    lines.append("unpack mw %s %s %s" % (class_table(strs), "-", hx(dm)))
    st1, res1 = call(lambda: w.dn._unpack_contents(data))
    impls.append("ok:" + show_unpacked(res1) if st1 == "ok" else "err")
    cases.append({"unpack": "mw", "what": "directory-written-from-cap-strings", "case": case})
    if st1 != "ok":
        ctx.violation("a directory holding valid (rw_uri, ro_uri) pairs cannot be unpacked", case, "child-cap-changed:unpack-fails")
        return
    for k in names:
        wc, rc, kinds, md, exp = grid[k]
        ctx.count("grid:%s+%s" % (kinds[0], kinds[1]))
        ctx.case(("grid", kinds[0], kinds[1]))
        if k not in res1:
            ctx.violation("a child given as %s + %s disappears when the directory is read" % tuple(kinds), case,
                          sig(kinds, "first"), {"name": k})
        elif not caps_match(res1[k][0], exp) or res1[k][1] != md:
            ctx.violation("a child given as %s + %s comes back with other capabilities" % tuple(kinds), case,
                          sig(kinds, "first"), {"name": k, "got": show_node(res1[k][0]),
                                                "want_rw": None if exp[0] is None else exp[0].hex()})
    # second generation: every child is set again (what set_metadata_for / an overwriting add / move_child_to do to
    # one child: `children[name] = (child, metadata)` drops its cached entry), the directory is packed, and the
    # stored fields are read back
    for label, repack in (("aux", lambda: (lambda d: ([d.__setitem__(k, d[k]) for k in list(d)], w.dn._pack_contents(d))[1])(w.dn._unpack_contents(data))),
                          ("plain", lambda: pack_children({k: v for k, v in res1.items()}, w.key, False))):
        st2, data2 = call(repack)
        if st2 != "ok":
            ctx.violation("re-serializing an unpacked directory fails", case, "child-cap-changed:repack-fails:" + label)
            continue
        fields = {e[0].decode("utf-8"): e for e in parse_packed(data2)}
        st3, res3 = call(lambda: w.dn._unpack_contents(data2))
        for k in names:
            wc, rc, kinds, md, exp = grid[k]
            if k not in res1:
                continue
            if k not in fields:
                ctx.violation("a child is missing from the re-serialized directory", case, sig(kinds, "second"))
                continue
            rw_stored = w.dn._decrypt_rwcapdata(fields[k][2]) if fields[k][2] else b""
            if rw_stored.rstrip(b" ") != (exp[0] or b"") or (exp[1] is not None and strip1(fields[k][1]) != exp[1]):
                ctx.violation("after re-serializing, the stored rwcap / ro_uri field of a child given as %s + %s is not "
                              "what was stored before" % tuple(kinds), case, sig(kinds, "second"),
                              {"name": k, "stored_rw": rw_stored.hex(), "stored_ro": fields[k][1].hex(), "how": label})
            elif st3 != "ok" or k not in res3 or not caps_match(res3[k][0], exp):
                ctx.violation("after re-serializing and reading again a child has other capabilities", case,
                              sig(kinds, "second"), {"name": k, "how": label})
    # now and then the same through the public API on a real directory
    if w.n_api < ctx.budget(8, 80) and ctx.rng.random() < 0.25:
        w.n_api += 1
        k = ctx.rng.choice(names)
        wc, rc, kinds, md, exp = grid[k]
        name = "c19-%d" % w.n_api

        def api():
            # ('no-write' metadata makes the edit layer attenuate the child on purpose — C20's subject)
            w.rt.wait(w.dn2.set_uri(name, wc, rc, metadata={a: b for a, b in md.items() if a != "no-write"}))
            n1 = w.rt.wait(w.dn2.get(name))
            w.rt.wait(w.dn2.set_metadata_for(name, {"touched": True}))
            raw = w.rt.wait(w.dn2._node.download_best_version())
            f = {e[0].decode("utf-8"): e for e in parse_packed(raw)}[name]
            return n1, w.dn2._decrypt_rwcapdata(f[2]) if f[2] else b"", w.rt.wait(w.dn2.get(name))
        sta, r = call(api)
        if sta != "ok":
            ctx.violation("set_uri / set_metadata_for of a valid child fails", case, sig(kinds, "first") + ":api", {"error": repr(r)})
        else:
            n1, rw_stored, n2 = r
            if not caps_match(n1, exp):
                ctx.violation("set_uri + get: other capabilities", case, sig(kinds, "first"), {"got": show_node(n1)})
            if rw_stored.rstrip(b" ") != (exp[0] or b"") or not caps_match(n2, exp):
                ctx.violation("set_metadata_for rewrote a child's write cap", case, sig(kinds, "second"),
                              {"stored_rw": rw_stored.hex(), "got": show_node(n2)})
        ctx.count("grid-api")


# ------------------------------------------------------------------ multi-step histories on a real directory

HIST_CORPUS = [
    # children linked in one batch (byte-identical metadata), one of them modified afterwards, the directory listed again
    # (seeded C19-d: parse results cached and shared between children and between listings)
    {"hist": True, "n": 3, "md": {"k": {"nested": [1, {"z": None}]}, "flat": "v"}, "modify": "set_metadata_for", "which": 0},
    {"hist": True, "n": 2, "md": {}, "modify": "set_uri", "which": 1},
    {"hist": True, "n": 4, "md": {"u": [1, 2]}, "modify": "set_node", "which": 2},
]


def gen_hist(rng):
    return {"hist": True, "n": rng.choice([2, 3, 5, 8]), "md": gen_meta(rng), "which": rng.randrange(2),
            "modify": rng.choice(["set_metadata_for", "set_uri", "set_node", "delete-sibling"])}


def deep_mutate(x):
    """change every dict / list reachable from x in place"""
    if isinstance(x, dict):
        for v in list(x.values()):
            deep_mutate(v)
        x["c19-mutated"] = 1
    elif isinstance(x, list):
        for v in x:
            deep_mutate(v)
        x.append("c19-mutated")


def history_case(ctx, w, case, lines, impls, cases):
    """batch link -> list -> modify one child -> list again: every child's metadata must be what an independent decode
    of the stored bytes gives; two unpacks of the same bytes must not share state"""
    rt = w.rt
    md0 = {k: v for k, v in case["md"].items() if k not in ("no-write", "tahoe")}
    d = rt.wait(w.c.create_dirnode())
    names = ["child-%d" % i for i in range(case["n"])]
    lits = [bytes.fromhex(lit(b"h%d" % i)) for i in range(case["n"] + 1)]
    rt.clock.advance(3)
    rt.wait(d.set_children({nm_: (None, lits[i], json.loads(json.dumps(md0))) for i, nm_ in enumerate(names)}))
    first = rt.wait(d.list())

    def stored():
        raw = rt.wait(d._node.download_best_version())
        return raw, {e[0].decode("utf-8"): json.loads(e[3]) for e in parse_packed(raw)}

    def compare(label, listing, sig):
        raw, want = stored()
        if set(listing) != set(want):
            ctx.violation("%s: the listed names differ from the stored entries" % label, case, sig + ":names")
            return raw
        for k in want:
            if listing[k][1] != want[k]:
                ctx.violation("%s: the metadata of a child differs from what is stored for it" % label, case, sig,
                              {"name": k, "listed": repr(listing[k][1])[:200], "stored": repr(want[k])[:200]})
        return raw
    compare("after the batch link", first, "metadata-differs-from-stored:after-batch-link")
    rt.clock.advance(7)
    target = names[case["which"] % len(names)]
    how = case["modify"]
    if how == "set_metadata_for":
        rt.wait(d.set_metadata_for(target, {"changed": {"deep": [1]}}))
    elif how == "set_uri":
        rt.wait(d.set_uri(target, None, lits[-1], metadata={"changed": 1}))
    elif how == "set_node":
        rt.wait(d.set_node(target, w.c.create_node_from_uri(None, lits[-1])))
    else:
        rt.wait(d.delete(target))
    second = rt.wait(d.list())
    raw = compare("after a sibling was updated (%s)" % how, second, "metadata-differs-from-stored:after-sibling-update")
    # the model on the stored bytes
    dm = to_model_cipher(d, raw)
    lines.append("unpack mw %s %s %s" % (class_table({x for x in lits}), "-", hx(dm)))
    impls.append("ok:" + show_unpacked(d._unpack_contents(raw)))
    cases.append({"unpack": "mw", "what": "history:" + how, "case": case})
    # two unpacks of the same bytes are independent values
    r1 = d._unpack_contents(raw)
    for k, (n, md) in r1.items():
        deep_mutate(md)
    r2 = d._unpack_contents(raw)
    want = {e[0].decode("utf-8"): json.loads(e[3]) for e in parse_packed(raw)}
    for k in want:
        if k not in r2 or r2[k][1] != want[k]:
            ctx.violation("changing the metadata returned by one _unpack_contents changes what the next one returns", case,
                          "unpack-results-share-state", {"name": k})
            break
    third = rt.wait(d.list())
    compare("after the unpack results were modified", third, "metadata-differs-from-stored:after-result-mutation")
    ctx.case(("hist", case["n"], how))
    ctx.count("history:" + how)


def gen_case(rng, nmax):
    caps = cap_strings(rng)
    n = rng.choice([0, 1, 2, 3, 5, 8, 13, nmax])
    children = []
    names = []
    for _ in range(n):
        if names and rng.random() < 0.1:
            base = rng.choice(names)
            name = unicodedata.normalize(rng.choice(["NFD", "NFC"]), base)      # colliding spelling
        else:
            name = gen_name(rng)
        names.append(name)
        w, r = gen_cap_pair(rng, caps)
        kinds = None
        mode = rng.random()
        if mode > 0.5:
            w, r, kinds = gen_grid_pair(rng, caps)
        if mode < 0.25:
            # a child that fits into an immutable directory
            k = rng.choice(["chk", "lit", "dir-chk", "dir-lit", "future"])
            w, r = (None, caps[k]) if k != "future" else rng.choice([(None, caps[k]), (None, IMM + caps[k]), (None, RO + caps[k])])
        ctxi = 1 if (rng.random() < 0.15 and kinds is None) else 0
        children.append([name, None if w is None else w.hex(), None if r is None else r.hex(), ctxi, gen_meta(rng)]
                        + ([kinds] if kinds else []))
    return {"children": children}


def gen_immutable_case(rng, nmax):
    c = gen_case(rng, nmax)
    caps = cap_strings(rng)
    for ch in c["children"]:
        k = rng.choice(["chk", "lit", "dir-chk", "dir-lit", "future", "future2"])
        cap = caps[k]
        w, r = (None, cap) if not k.startswith("future") else rng.choice([(None, cap), (None, IMM + cap), (None, RO + cap), (IMM + cap, None)])
        ch[1], ch[2] = (None if w is None else w.hex()), (None if r is None else r.hex())
        del ch[5:]
        ch[3] = rng.choice([0, 0, 1])
    return c


def lit(data):
    """hex of a well-formed URI:LIT: cap"""
    import base64
    return (b"URI:LIT:" + base64.b32encode(data).rstrip(b"=").lower()).hex()


# fixed corpus (runs first, independent of VERIF_SEED): one minimal child set per known mechanism
CORPUS = [
    {"children": []},
    # names that change under NFC without containing a combining mark (seeded C19-a: "no combining mark => already NFC")
    {"children": [["\u212b", None, lit(b"a"), 0, {}], ["\u2126hm", None, lit(b"bb"), 0, {"k": 1}],
                  ["\u1112\u1161\u11ab", None, lit(b"ccc"), 0, {}], ["\uf900", None, lit(b"dddd"), 0, {}],
                  ["e\u0301", None, lit(b"e"), 0, {}]]},
    # children with write caps, so that the listing packed for ANOTHER directory carries rwcapdata under the wrong key
    # if cached entries are carried over (seeded C19-b)
    {"children": [["w1", b"URI:SSK:usy3x5usmivdy3saqju3l6mit4:rbnuw7wbbmf2k4kgapbbxgb6j6dyvnj4qxclwf7twwgzu6ewsg5q".hex(), None, 0, {"m": [1, 2]}],
                  ["w2", b"URI:DIR2:7ycize7cy7zjaqpe63zbmf6ah4:5e7pm3ox4a6gbo4dxbwuy2gdjlu6l52as4uxw3jjahounvmobodq".hex(), None, 0, {}],
                  ["r", None, lit(b"r"), 0, {}]]},
    # the open finding `roundtrip-double-prefix`: an unknown cap with two alleged-prefixes
    {"children": [["x", None, (b"ro.ro.URI:MDMF:sackjepwslelfdhcjjccaglbia:m7zimvc4h3shncye5ececu3ygwztma7lnuirgm4z6x55x7dx6jfa").hex(), 0, {}]]},
    # short unknown-format write caps (1, 15, 16, 17 bytes) next to read caps: the rwcapdata field is then shorter
    # than salt + one cipher block + MAC, and must still be decrypted (seeded C19-e)
    {"children": [["s1", b"x".hex(), b"lafs://r1".hex(), 0, {}, ["unknown", "unknown"]],
                  ["s15", (b"y" * 15).hex(), lit(b"s15"), 0, {"k": 1}, ["unknown", "known-ro:lit"]],
                  ["s16", (b"z" * 16).hex(), b"lafs://r16".hex(), 0, {}, ["unknown", "unknown"]],
                  ["s17", (b"w" * 17).hex(), b"ro.lafs://r17".hex(), 0, {}, ["unknown", "ro.unknown"]],
                  ["s3", b"x7w".hex(), b"URI:SSK-RO:kvf5cqsq5tyhojt7j63yvmshgu:rbnuw7wbbmf2k4kgapbbxgb6j6dyvnj4qxclwf7twwgzu6ewsg5q".hex(),
                   0, {}, ["unknown", "known-ro:ssk-ro"]]]},
    # a future-format write cap next to a read cap of a known format
    {"children": [["fut", b"lafs://future_w".hex(), b"URI:SSK-RO:kvf5cqsq5tyhojt7j63yvmshgu:rbnuw7wbbmf2k4kgapbbxgb6j6dyvnj4qxclwf7twwgzu6ewsg5q".hex(),
                   0, {"k": 1}, ["unknown", "known-ro:ssk-ro"]]]},
    {"children": [["a", None, b"URI:LIT:".hex(), 0, {}], ["é", None, b"URI:LIT:ae".hex(), 0, {"k": 1}],
                  ["é", None, b"URI:LIT:af".hex(), 0, {"k": 2}],
                  ["u", b"lafs://w".hex(), b"lafs://r".hex(), 0, {}], ["v", None, b"ro.lafs://r".hex(), 0, {}],
                  ["w", None, b"imm.lafs://r".hex(), 0, {}], ["x", b"lafs://w".hex(), None, 0, {}],
                  ["sp", b"lafs://w  ".hex(), b"lafs://r ".hex(), 0, {}]]},
]


def run(ctx):
    common.setup_impl_path()
    import grid
    if ctx.replay:
        c = ctx.replay["case"]
        cases_in = [c["case"] if "case" in c else c]
    else:
        cases_in = [json.loads(json.dumps(c)) for c in CORPUS]
        for i in range(0 if os.environ.get("VERIF_CORPUS_ONLY") == "1" else ctx.budget(120, 2500)):
            nmax = 50 if i % 10 == 0 else 20
            cases_in.append(gen_immutable_case(ctx.rng, nmax) if ctx.rng.random() < 0.3 else gen_case(ctx.rng, nmax))
    corpus_only = os.environ.get("VERIF_CORPUS_ONLY") == "1"
    hists = []
    if ctx.replay:
        if cases_in and cases_in[0].get("hist"):
            hists, cases_in = cases_in, []
    else:
        hists = [json.loads(json.dumps(h)) for h in HIST_CORPUS]
        for i in range(0 if corpus_only else ctx.budget(6, 120)):
            hists.append(gen_hist(ctx.rng))
    lines, impls, cases = [], [], []
    with grid.Runtime(seed=ctx.seed, policy="random") as rt:
        g = grid.Grid(grid.fresh_dir("c19"), rt, num_servers=3, num_clients=1, k=1, happy=1, n=2)
        try:
            w = World(ctx, rt, g)
            for case in hists:
                history_case(ctx, w, case, lines, impls, cases)
            for case in cases_in:
                if "create" in case or "children" not in case:
                    continue
                one_case(ctx, w, case, lines, impls, cases)
        finally:
            g.close()
    model = ctx.model(lines)
    if model is not None:
        ctx.compare("pack_children / _unpack_contents / create_from_cap vs the model", cases, impls, model)
    if cases_in:
        ctx.sample({"children": [c[:4] for c in cases_in[-1]["children"][:3]]})
