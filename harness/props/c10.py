"""C10 — mutable reads return only published versions (servermap + retrieve validation of shares)."""
import os
import struct

ID = "C10"
LEAN_PROPS = "Tahoe.Props.C10"
DRIVER = "C10"
GENERATED = []
SOURCES = ["src/allmydata/mutable/servermap.py", "src/allmydata/mutable/retrieve.py", "src/allmydata/mutable/layout.py",
           "src/allmydata/mutable/filenode.py", "src/allmydata/uri.py"]
DESIGN_REF = "DESIGN.md §2 C10"
TECHNIQUE = ("Lean 4 theorems over a symbolic-crypto model of the reader's share acceptance (fingerprint, signature, hash chain) and a "
             "Dolev-Yao closure for who can sign; field-level accept/reject table compared with real single-share reads; corruption, "
             "rollback and substitution campaigns on real mutable shares on the in-process grid with a 'published versions only' monitor")
LEVEL_TEXT = ("Proved (with unforgeability, collision-freeness and Merkle binding as explicit hypotheses, satisfiable by a symbolic "
              "instance): any share the reader accepts carries the signed prefix and the blocks of a version the key holder published; "
              "intact shares are accepted; nothing signed by the file's key on an unpublished prefix, nor the signing or write key, is "
              "derivable from what read-cap / verify-cap holders and servers see. Tied to the code by the field-level decision table "
              "(one altered field of a single share, cold and warm node) and by tampering campaigns. Partial: computational soundness of "
              "RSA/SHA-256 is assumed; the servermap/retrieve plumbing is exercised, not modelled.")
LEVEL_NOTE = ("Lean kernel + standard axioms; cryptographic assumptions are hypotheses of the theorems; model hand-written; real code "
              "run on harness/grid.py.")
RULE = ("(a) single-share files (k=1) with exactly one field altered, read by a cold or warm read-cap node: accept/reject compared with the "
        "driver; (b) k-of-N files with 3 published versions and a random set of shares flipped / truncated / rolled back / replaced by another "
        "file's share / deleted, read by a fresh read-cap node. A case is one read; distinct = distinct (format, tamper set); non-trivial = at "
        "least one share was tampered with.")
TRUSTED = ["harness/grid.py", "the share-field map in this module (written from mutable/layout.py formats)"]
ASSUMPTIONS = ["RSA signatures are unforgeable; SHA-256d tagged hashes are collision-free (hypotheses of the theorems)",
               "the adversary acts through stored share bytes only (servers answer every request)"]

DATA_OFFSET = 468


def share_fields(data):
    """name -> (start, end) inside the share data, from mutable/layout.py's formats."""
    ver = data[0]
    f = {}
    if ver == 0:
        (o_sig, o_shc, o_bht, o_sd, o_epk, o_eof) = struct.unpack(">LLLLQQ", data[75:107])
        f.update(version=(0, 1), seqnum=(1, 9), root_hash=(9, 41), salt=(41, 57), kN=(57, 59), segsize=(59, 67), datalen=(67, 75),
                 offsets=(75, 107), pubkey=(107, o_sig), signature=(o_sig, o_shc), share_hash_chain=(o_shc, o_bht),
                 block_hash_tree=(o_bht, o_sd), share_data=(o_sd, o_epk), enc_privkey=(o_epk, o_eof))
    else:
        (o_epk, o_shc, o_sig, o_vk, o_vkend, o_sd, o_bht, o_eof) = struct.unpack(">QQQQQQQQ", data[59:123])
        f.update(version=(0, 1), seqnum=(1, 9), root_hash=(9, 41), kN=(41, 43), segsize=(43, 51), datalen=(51, 59),
                 offsets=(59, 123), enc_privkey=(o_epk, o_shc), share_hash_chain=(o_shc, o_sig), signature=(o_sig, o_vk),
                 pubkey=(o_vk, o_vkend), share_data=(o_sd, o_bht), block_hash_tree=(o_bht, o_eof))
    return f


def read_share(path):
    with open(path, "rb") as fh:
        raw = fh.read()
    (dlen,) = struct.unpack(">Q", raw[84:92])
    return raw, raw[DATA_OFFSET:DATA_OFFSET + dlen]


def write_share_data(path, raw, newdata):
    assert len(newdata) == len(raw[DATA_OFFSET:DATA_OFFSET + struct.unpack(">Q", raw[84:92])[0]])
    with open(path, "wb") as fh:
        fh.write(raw[:DATA_OFFSET] + newdata + raw[DATA_OFFSET + len(newdata):])


def fresh_node(c, cap):
    from allmydata.mutable.filenode import MutableFileNode
    from allmydata import uri
    n = MutableFileNode(c.storage_broker, c._secret_holder, c.get_encoding_parameters(), c.history)
    return n.init_from_cap(uri.from_string(cap))


def try_read(rt, node):
    import grid
    try:
        return ("ok", rt.wait(node.download_best_version()))
    except grid.Stuck:
        return ("stuck", None)
    except Exception as e:
        return ("err", type(e).__name__ + ("[no-remaining-shares-of-the-right-version]"
                                             if "remaining shares of the right version" in str(e) else ""))


CRISP = ["none", "version", "seqnum", "root_hash", "salt", "kN", "segsize", "datalen", "pubkey", "signature", "share_data", "enc_privkey"]


def single_share_cases(ctx, rounds):
    import grid
    from allmydata.mutable.publish import MutableData
    from allmydata.interfaces import SDMF_VERSION, MDMF_VERSION
    lines, impls, cases = [], [], []
    for r in range(rounds):
        seed = ctx.rng.randrange(1 << 30)
        fmt = ctx.rng.choice([SDMF_VERSION, MDMF_VERSION])
        with grid.Runtime(seed=seed) as rt:
            g = grid.Grid(grid.fresh_dir("c10s"), rt, num_servers=2, k=1, happy=1, n=2)
            try:
                c = g.clients[0]
                content = bytes(ctx.rng.randrange(256) for _ in range(ctx.rng.choice([1, 30, 300])))
                node = rt.wait(c.create_mutable_file(MutableData(content), version=fmt))
                readcap = node.get_readonly_uri()
                si = node.get_storage_index()
                files = g.share_files(si)
                # keep share 0 only: a single share decides
                for (i, shnum, path) in files:
                    if shnum != 0:
                        os.unlink(path)
                (_, _, path0) = [f for f in g.share_files(si)][0]
                raw, data = read_share(path0)
                fields = share_fields(data)
                for field in CRISP:
                    if field == "salt" and fmt != SDMF_VERSION:
                        continue
                    for warm in (False, True):
                        write_share_data(path0, raw, data)        # pristine
                        n2 = fresh_node(c, readcap)
                        if warm:
                            st, val = try_read(rt, n2)
                            if (st, val) != ("ok", content):
                                ctx.violation("pristine single share not readable", {"fmt": fmt, "seed": seed}, "pristine-unreadable")
                                continue
                        if field != "none":
                            (a, b) = fields[field]
                            if b <= a:
                                continue
                            pos = ctx.rng.randrange(a, b)
                            if field == "version":
                                newb = bytes([data[pos] ^ 1])
                            else:
                                newb = bytes([data[pos] ^ (1 << ctx.rng.randrange(8))])
                            write_share_data(path0, raw, data[:pos] + newb + data[pos + 1:])
                        st, val = try_read(rt, n2)
                        case = {"fmt": "SDMF" if fmt == SDMF_VERSION else "MDMF", "field": field, "warm": warm, "seed": seed,
                                "size": len(content)}
                        if st == "ok" and val != content:
                            ctx.violation("read returned bytes that were never published", dict(case, got=val.hex()[:80]),
                                          "unpublished-bytes:single:" + field)
                        if st == "stuck":
                            ctx.violation("read never completed", case, "read-stuck:single:" + field)
                        impl = "accept" if st == "ok" else "reject"
                        lines.append("fd %s %s" % ("warm" if warm else "cold", field))
                        impls.append(impl)
                        cases.append(case)
                        ctx.case(repr(sorted(case.items())) if field != "none" else None)
                        ctx.count("single:%s:%s" % (field, impl))
            finally:
                g.close()
    ctx.compare("single-share field decision (accept / reject)", cases, impls, ctx.model(lines))
    if cases:
        ctx.sample(cases[0])


def campaign(ctx, rounds):
    import grid
    from allmydata.mutable.publish import MutableData
    from allmydata.interfaces import SDMF_VERSION, MDMF_VERSION
    from allmydata.mutable.common import NotWriteableError
    for r in range(rounds):
        seed = ctx.rng.randrange(1 << 30)
        fmt = ctx.rng.choice([SDMF_VERSION, MDMF_VERSION])
        k, n, ns = ctx.rng.choice([(1, 2, 2), (2, 4, 4), (2, 4, 5), (3, 5, 5), (2, 3, 6)])
        with grid.Runtime(seed=seed, policy=ctx.rng.choice(["random", "fifo", "lifo"])) as rt:
            g = grid.Grid(grid.fresh_dir("c10c"), rt, num_servers=ns, k=k, happy=1, n=n)
            try:
                c = g.clients[0]
                sizes = [ctx.rng.choice([0, 1, 40, 700]) for _ in range(3)]
                contents = [bytes([65 + j]) * sizes[j] + b"-v%d" % j for j in range(3)]
                node = rt.wait(c.create_mutable_file(MutableData(contents[0]), version=fmt))
                other = rt.wait(c.create_mutable_file(MutableData(b"some other file's contents"), version=fmt))
                si = node.get_storage_index()
                snapshots = []     # per version: {(server, shnum): raw bytes}
                snapshots.append({(i, sh): open(p, "rb").read() for (i, sh, p) in g.share_files(si)})
                for j in (1, 2):
                    rt.wait(node.overwrite(MutableData(contents[j])))
                    snapshots.append({(i, sh): open(p, "rb").read() for (i, sh, p) in g.share_files(si)})
                other_shares = {sh: open(p, "rb").read() for (i, sh, p) in g.share_files(other.get_storage_index())}
                paths = {(i, sh): p for (i, sh, p) in g.share_files(si)}
                readcap = node.get_readonly_uri()
                published = set(contents)
                for t in range(ctx.rng.randrange(3, 7)):
                    # restore newest everywhere, then tamper with a random subset
                    for key, p in paths.items():
                        with open(p, "wb") as fh:
                            fh.write(snapshots[2][key])
                    tampered = {}
                    rollback = False
                    for key in sorted(paths):
                        if ctx.rng.random() < 0.55:
                            kind = ctx.rng.choice(["flip", "flip", "flipfield", "truncate", "old", "foreign", "delete"])
                            p = paths[key]
                            raw = snapshots[2][key]
                            if kind == "flip":
                                pos = ctx.rng.randrange(DATA_OFFSET, len(raw)) if len(raw) > DATA_OFFSET else 0
                                raw2 = raw[:pos] + bytes([raw[pos] ^ (1 << ctx.rng.randrange(8))]) + raw[pos + 1:]
                                open(p, "wb").write(raw2)
                                try:
                                    _, data0 = read_share(p)
                                    fl0 = share_fields(snapshots[2][key][DATA_OFFSET:])
                                    inside = [nm for nm, (a, b) in fl0.items() if a <= pos - DATA_OFFSET < b]
                                    kind = "flip:" + (inside[0] if inside else "beyond-share")
                                except Exception:
                                    kind = "flip:?"
                            elif kind == "flipfield":
                                _, data = read_share(p)
                                fl = share_fields(data)
                                name = ctx.rng.choice(sorted(fl))
                                (a, b) = fl[name]
                                if b > a:
                                    pos = DATA_OFFSET + ctx.rng.randrange(a, b)
                                    raw2 = raw[:pos] + bytes([raw[pos] ^ (1 << ctx.rng.randrange(8))]) + raw[pos + 1:]
                                    open(p, "wb").write(raw2)
                                kind = "flipfield:" + name
                            elif kind == "truncate":
                                open(p, "wb").write(raw[:ctx.rng.randrange(0, len(raw))])
                            elif kind == "old":
                                v = ctx.rng.choice([0, 1])
                                if key in snapshots[v]:
                                    open(p, "wb").write(snapshots[v][key])
                                    rollback = True
                                else:
                                    os.unlink(p) if os.path.exists(p) else None
                                    kind = "delete"
                            elif kind == "foreign":
                                if key[1] in other_shares:
                                    open(p, "wb").write(other_shares[key[1]])
                                else:
                                    kind = "none"
                            elif kind == "delete":
                                os.unlink(p)
                            if kind != "none":
                                tampered[key] = kind
                    intact_newest = {sh for (i, sh) in paths if (i, sh) not in tampered}
                    n2 = fresh_node(c, readcap)
                    st, val = try_read(rt, n2)
                    case = {"fmt": "SDMF" if fmt == SDMF_VERSION else "MDMF", "k": k, "n": n, "servers": ns, "seed": seed,
                            "tampered": sorted("%d/%d:%s" % (i, sh, kd) for (i, sh), kd in tampered.items()), "result": st}
                    if st == "ok" and val not in published:
                        ctx.violation("read returned bytes that no version ever published", dict(case, got=val.hex()[:80]),
                                      "unpublished-bytes:campaign")
                    elif st == "stuck":
                        ctx.violation("read never completed", case, "read-stuck:campaign")
                    elif len(intact_newest) >= k and not (st == "ok" and val == contents[2]):
                        if st == "ok" and rollback:
                            ctx.count("older-version-returned-with-rollback-shares-present")
                        else:
                            # known finding: a share whose (unsigned) offset table was altered still verifies, but
                            # counts as a separate "version" (verinfo contains the offsets) that can be chosen as best
                            offs = any(kd in ("flip:offsets", "flipfield:offsets") for kd in tampered.values())
                            sig = "newest-not-returned"
                            if offs and st == "err" and "no-remaining-shares-of-the-right-version" in str(val):
                                sig = "newest-not-returned:offset-table-altered"
                            ctx.violation("k intact shares of the newest version were reachable but the read did not return it",
                                          dict(case, got=(val.hex()[:40] if st == "ok" else val)), sig)
                    ctx.case(repr(sorted(case.items())) if tampered else None)
                    ctx.count("campaign:" + st)
                    for kd in tampered.values():
                        ctx.count("tamper:" + kd.split(":")[0])
                    # restore missing files for the next round
                    for key, p in paths.items():
                        os.makedirs(os.path.dirname(p), exist_ok=True)
                # read-cap holders cannot publish
                for key, p in paths.items():
                    with open(p, "wb") as fh:
                        fh.write(snapshots[2][key])
                before = {key: open(p, "rb").read() for key, p in paths.items()}
                ro = fresh_node(c, readcap)
                refused = False
                try:
                    rt.wait(ro.overwrite(MutableData(b"forged by a read-cap holder")))
                except grid.Stuck:
                    refused = True
                except Exception:
                    refused = True
                after = {key: open(p, "rb").read() for key, p in paths.items()}
                if not refused or after != before:
                    ctx.violation("a read-cap node published a version", {"seed": seed, "refused": refused}, "readcap-published")
                ctx.count("readcap-overwrite-refused")
            finally:
                g.close()


def damaged_share_among_few_servers(ctx, rounds):
    """Corpus family (was a genuine defect, fixed in /repo): more servers than shares, one share with a
    valid signature but a truncated body; the read-cap reader's first survey (k+epsilon servers) may see
    the damaged share and only k-1 others: the read must still succeed because k intact shares are
    reachable on servers it has not asked yet."""
    import grid
    from allmydata.mutable.publish import MutableData
    from allmydata.interfaces import SDMF_VERSION, MDMF_VERSION
    for r in range(rounds):
        seed = ctx.rng.randrange(1 << 30)
        fmt = ctx.rng.choice([SDMF_VERSION, SDMF_VERSION, MDMF_VERSION])
        with grid.Runtime(seed=seed) as rt:
            g = grid.Grid(grid.fresh_dir("c10d"), rt, num_servers=6, k=2, happy=1, n=3)
            try:
                c = g.clients[0]
                content = b"D" * ctx.rng.choice([1, 43, 300]) + b"-only-version"
                node = rt.wait(c.create_mutable_file(MutableData(content), version=fmt))
                files = g.share_files(node.get_storage_index())
                for (i, sh, p) in files:
                    raw = open(p, "rb").read()
                    _, data = read_share(p)
                    fl = share_fields(data)
                    lo = max(fl["signature"][1], fl["pubkey"][1], 123)
                    cut = DATA_OFFSET + ctx.rng.randrange(lo, max(lo + 1, len(data)))
                    open(p, "wb").write(raw[:cut])
                    st, val = try_read(rt, fresh_node(c, node.get_readonly_uri()))
                    case = {"fmt": "SDMF" if fmt == SDMF_VERSION else "MDMF", "k": 2, "n": 3, "servers": 6, "seed": seed,
                            "tampered": ["%d/%d:truncate@%d" % (i, sh, cut - DATA_OFFSET)], "result": st}
                    if st == "ok" and val != content:
                        ctx.violation("read returned bytes that no version ever published", dict(case, got=val.hex()[:80]),
                                      "unpublished-bytes:campaign")
                    elif st != "ok":
                        ctx.violation("k intact shares of the newest version were reachable but the read did not return it",
                                      dict(case, got=val), "newest-not-returned")
                    ctx.case(repr(sorted(case.items())))
                    ctx.count("damaged-among-few:" + st)
                    open(p, "wb").write(raw)
            finally:
                g.close()


def offset_table_corpus(ctx):
    """Fixed corpus for the open finding `newest-not-returned:offset-table-altered`."""
    import grid
    from allmydata.mutable.publish import MutableData
    from allmydata.interfaces import SDMF_VERSION
    with grid.Runtime(seed=5) as rt:
        g = grid.Grid(grid.fresh_dir("c10o"), rt, num_servers=2, k=1, happy=1, n=2)
        try:
            c = g.clients[0]
            content = b"B" * 40 + b"-v"
            node = rt.wait(c.create_mutable_file(MutableData(content), version=SDMF_VERSION))
            for (i, sh, p) in g.share_files(node.get_storage_index()):
                raw, data = read_share(p)
                (a, b) = share_fields(data)["offsets"]
                for pos in range(a, b):
                    open(p, "wb").write(raw[:DATA_OFFSET + pos] + bytes([raw[DATA_OFFSET + pos] ^ 8]) + raw[DATA_OFFSET + pos + 1:])
                    st, val = try_read(rt, fresh_node(c, node.get_readonly_uri()))
                    case = {"fmt": "SDMF", "k": 1, "n": 2, "servers": 2, "seed": 5,
                            "tampered": ["%d/%d:flip:offsets@%d" % (i, sh, pos)], "result": st}
                    if st == "ok" and val != content:
                        ctx.violation("read returned bytes that no version ever published", dict(case, got=val.hex()[:80]),
                                      "unpublished-bytes:campaign")
                    elif st != "ok":
                        sig = "newest-not-returned:offset-table-altered" if "no-remaining-shares-of-the-right-version" in str(val) \
                            else "newest-not-returned"
                        ctx.violation("k intact shares of the newest version were reachable but the read did not return it",
                                      dict(case, got=val), sig)
                    ctx.case(repr(sorted(case.items())))
                    ctx.count("offset-corpus:" + st)
                open(p, "wb").write(raw)
        finally:
            g.close()


def run(ctx):
    import common
    common.setup_impl_path()
    offset_table_corpus(ctx)
    single_share_cases(ctx, ctx.budget(3, 60))
    damaged_share_among_few_servers(ctx, ctx.budget(14, 200))
    campaign(ctx, ctx.budget(8, 300))
