"""C10 — mutable reads return only published versions (servermap + retrieve validation of shares)."""
import os
import struct

ID = "C10"
LEAN_PROPS = "Tahoe.Props.C10"
DRIVER = "C10"
GENERATED = []
SOURCES = ["src/allmydata/mutable/servermap.py", "src/allmydata/mutable/retrieve.py", "src/allmydata/mutable/layout.py",
           "src/allmydata/mutable/filenode.py", "src/allmydata/uri.py"]
DESIGN_REF = "DESIGN.md §2 C10"
TECHNIQUE = ("Lean 4 theorems (25) over a symbolic-crypto model of a mutable-file reader: per-share acceptance (fingerprint, signature, "
             "hash chain), the map update's signature cache, which share fields the signature covers, the share hash tree of a whole "
             "Retrieve (invariant: the signed root survives every rejected share; a leaf must be connected to it), the salt handed to the "
             "decryptor, version selection (best_recoverable_version with the offsets inside the version identity), the Retrieve "
             "share-selection loop and download_best_version's one retry, and a Dolev-Yao closure for who can sign. Every model part is "
             "compared with the real code through the driver: single-share field decisions, ServermapUpdater._got_signature_one_share with "
             "real RSA signatures, Retrieve._validate_block/_handle_bad_share/_activate_enough_servers/_decode_blocks driven event by event, "
             "ServerMap.best_recoverable_version, offsets tuples of real verinfos, header fields against the real layout. Tampering "
             "campaigns on real shares on the in-process grid (fixed corpus first, then seeded families) with a 'published versions only, "
             "success when k intact newest shares are reachable' monitor")
LEVEL_TEXT = ("Proved (unforgeability, fingerprint and hash collision-freeness and Merkle binding are explicit hypotheses, satisfiable by a "
              "symbolic instance): accepted_version_published, installed_key_genuine (an accepted share carries the prefix and blocks of a "
              "published version); map_update_enters_only_verified_prefixes (signature cache); version_identity_signed_except_offsets; "
              "signed_root_never_reset, accepted_blocks_hash_to_signed_root, retrieve_validates_only_published_blocks (a whole Retrieve, any "
              "sequence of rejected shares); decrypt_salt_is_signed; intact_share_accepted; best_is_maximal_recoverable; "
              "canonical_offsets_same_identity; readcap_cannot_publish. Liveness is proved under guards only: "
              "retrieve_succeeds_with_k_intact_partial, readOnce_succeeds_partial, read_succeeds_with_k_intact_newest_partial (guards: "
              "bad-share handling drops only the share -- the code since /repo 280b4a6 -- or one share per server; no recoverable version "
              "identity sorts above the newest published one). The last guard is false for the code as it is: offset_table_counterexample "
              "is the open KNOWN-FINDING (unsigned offsets table inside the version identity). Counterexample theorems document the past "
              "defects and seeded variants (reset_variant, surplus_variant, coarse_cache_key, fresh_reader, drop_server, "
              "insertion_order_offsets). Correspondence/monitor only: which bytes of the two hash-chain fields a read consults, which "
              "servers the partial MODE_READ survey asks, decoding of k validated block sets (C36/C09). Assumed: computational soundness of "
              "RSA/SHA-256d.")
LEVEL_NOTE = ("Lean kernel + standard axioms (propext, Classical.choice, Quot.sound); cryptographic assumptions are hypotheses of the "
              "theorems; models hand-written from servermap.py / retrieve.py / layout.py / filenode.py and tied to them by the driver "
              "comparisons; real code run on harness/grid.py. One open finding (offset table altered => separate version identity); the "
              "defects found here and repaired in /repo (280b4a6 bad share dropped its server's other shares, 80fa722 offsets tuple order, "
              "492e568 read-only retry survey) are fixed corpus cases.")
RULE = ("Fixed corpus (runs first, alone under VERIF_CORPUS_ONLY=1): offset-table corpus; one version under two verinfos (histories A/B); "
        "share hash chain rewritten in place; tampering between two reads through one version object; minimal instances of the "
        "prefix-alteration, consistent-forgery, damaged-share-among-few-servers, shared-server families; Retrieve tree / loop / signature "
        "cache corpora; header fields. Seeded families: (a) single-share files with exactly one field altered, cold or warm node, "
        "accept/reject compared with the driver; (b) k-of-N files, 3 versions, random shares flipped / truncated / rolled back / foreign / "
        "deleted; (c) j in {k-1,k,k+1,N} mutually consistent forgeries plus 0/1 damaged share; (d) signed datalength altered next to intact "
        "shares; (e) sibling shares with forged blocks and a chain that stops below the root; (f) several shares per server with damaged "
        "ones; (g) shares altered between two reads through one version object; (h) event sequences on a real Retrieve "
        "(_validate_block/_handle_bad_share), real Retrieve selection loops, real ServerMap version maps, real signature-cache sequences, "
        "compared with the model. SDMF and multi-segment MDMF, delivery policies random/fifo/lifo. A case is one read or one event "
        "sequence; distinct = distinct (format, tamper set) or event text; non-trivial = at least one share was tampered with / rejected "
        "before the last event.")
TRUSTED = ["harness/grid.py", "the share-field map and the share forgers in this module (written from mutable/layout.py and publish.py)",
           "DEFAULT_MUTABLE_MAX_SEGMENT_SIZE is lowered while test files are published (configuration, gives MDMF several segments)",
           "stub node/server objects around the real Retrieve / ServermapUpdater in the event-by-event comparisons"]
ASSUMPTIONS = ["RSA signatures are unforgeable; fingerprints and SHA-256d tagged hashes are collision-free; the share hash tree binds "
               "(hypotheses of the theorems, World structure)",
               "the adversary acts through stored share bytes only (servers answer every request)",
               "liveness theorems: no recoverable version identity sorts above the newest published version's (broken by the open "
               "offset-table finding), the first survey finds some recoverable version, one server per share number of a version"]

DATA_OFFSET = 468


def share_fields(data):
    """name -> (start, end) inside the share data, from mutable/layout.py's formats."""
    ver = data[0]
    f = {}
    if ver == 0:
        (o_sig, o_shc, o_bht, o_sd, o_epk, o_eof) = struct.unpack(">LLLLQQ", data[75:107])
        f.update(version=(0, 1), seqnum=(1, 9), root_hash=(9, 41), salt=(41, 57), kN=(57, 59), segsize=(59, 67), datalen=(67, 75),
                 offsets=(75, 107), pubkey=(107, o_sig), signature=(o_sig, o_shc), share_hash_chain=(o_shc, o_bht),
                 block_hash_tree=(o_bht, o_sd), share_data=(o_sd, o_epk), enc_privkey=(o_epk, o_eof))
    else:
        (o_epk, o_shc, o_sig, o_vk, o_vkend, o_sd, o_bht, o_eof) = struct.unpack(">QQQQQQQQ", data[59:123])
        f.update(version=(0, 1), seqnum=(1, 9), root_hash=(9, 41), kN=(41, 43), segsize=(43, 51), datalen=(51, 59),
                 offsets=(59, 123), enc_privkey=(o_epk, o_shc), share_hash_chain=(o_shc, o_sig), signature=(o_sig, o_vk),
                 pubkey=(o_vk, o_vkend), share_data=(o_sd, o_bht), block_hash_tree=(o_bht, o_eof))
    return f


def read_share(path):
    with open(path, "rb") as fh:
        raw = fh.read()
    (dlen,) = struct.unpack(">Q", raw[84:92])
    return raw, raw[DATA_OFFSET:DATA_OFFSET + dlen]


def write_share_data(path, raw, newdata):
    assert len(newdata) == len(raw[DATA_OFFSET:DATA_OFFSET + struct.unpack(">Q", raw[84:92])[0]])
    with open(path, "wb") as fh:
        fh.write(raw[:DATA_OFFSET] + newdata + raw[DATA_OFFSET + len(newdata):])


def fresh_node(c, cap):
    from allmydata.mutable.filenode import MutableFileNode
    from allmydata import uri
    n = MutableFileNode(c.storage_broker, c._secret_holder, c.get_encoding_parameters(), c.history)
    return n.init_from_cap(uri.from_string(cap))


def try_read(rt, node):
    import grid
    try:
        return ("ok", rt.wait(node.download_best_version()))
    except grid.Stuck:
        return ("stuck", None)
    except Exception as e:
        return ("err", type(e).__name__ + ("[no-remaining-shares-of-the-right-version]"
                                             if "remaining shares of the right version" in str(e) else ""))


CRISP = ["none", "version", "seqnum", "root_hash", "salt", "kN", "segsize", "datalen", "pubkey", "signature", "share_data", "enc_privkey"]


def single_share_cases(ctx, rounds):
    import grid
    from allmydata.mutable.publish import MutableData
    from allmydata.interfaces import SDMF_VERSION, MDMF_VERSION
    lines, impls, cases = [], [], []
    for r in range(rounds):
        seed = ctx.rng.randrange(1 << 30)
        fmt = ctx.rng.choice([SDMF_VERSION, MDMF_VERSION])
        with grid.Runtime(seed=seed) as rt:
            g = grid.Grid(grid.fresh_dir("c10s"), rt, num_servers=2, k=1, happy=1, n=2)
            try:
                c = g.clients[0]
                content = bytes(ctx.rng.randrange(256) for _ in range(ctx.rng.choice([1, 30, 300])))
                node = rt.wait(c.create_mutable_file(MutableData(content), version=fmt))
                readcap = node.get_readonly_uri()
                si = node.get_storage_index()
                files = g.share_files(si)
                # keep share 0 only: a single share decides
                for (i, shnum, path) in files:
                    if shnum != 0:
                        os.unlink(path)
                (_, _, path0) = [f for f in g.share_files(si)][0]
                raw, data = read_share(path0)
                fields = share_fields(data)
                for field in CRISP:
                    if field == "salt" and fmt != SDMF_VERSION:
                        continue
                    for warm in (False, True):
                        write_share_data(path0, raw, data)        # pristine
                        n2 = fresh_node(c, readcap)
                        if warm:
                            st, val = try_read(rt, n2)
                            if (st, val) != ("ok", content):
                                ctx.violation("pristine single share not readable", {"fmt": fmt, "seed": seed}, "pristine-unreadable")
                                continue
                        if field != "none":
                            (a, b) = fields[field]
                            if b <= a:
                                continue
                            pos = ctx.rng.randrange(a, b)
                            if field == "version":
                                newb = bytes([data[pos] ^ 1])
                            else:
                                newb = bytes([data[pos] ^ (1 << ctx.rng.randrange(8))])
                            write_share_data(path0, raw, data[:pos] + newb + data[pos + 1:])
                        st, val = try_read(rt, n2)
                        case = {"fmt": "SDMF" if fmt == SDMF_VERSION else "MDMF", "field": field, "warm": warm, "seed": seed,
                                "size": len(content)}
                        if st == "ok" and val != content:
                            ctx.violation("read returned bytes that were never published", dict(case, got=val.hex()[:80]),
                                          "unpublished-bytes:single:" + field)
                        if st == "stuck":
                            ctx.violation("read never completed", case, "read-stuck:single:" + field)
                        impl = "accept" if st == "ok" else "reject"
                        lines.append("fd %s %s" % ("warm" if warm else "cold", field))
                        impls.append(impl)
                        cases.append(case)
                        ctx.case(repr(sorted(case.items())) if field != "none" else None)
                        ctx.count("single:%s:%s" % (field, impl))
            finally:
                g.close()
    ctx.compare("single-share field decision (accept / reject)", cases, impls, ctx.model(lines))
    if cases:
        ctx.sample(cases[0])


def campaign(ctx, rounds):
    import grid
    from allmydata.mutable.publish import MutableData
    from allmydata.interfaces import SDMF_VERSION, MDMF_VERSION
    from allmydata.mutable.common import NotWriteableError
    for r in range(rounds):
        seed = ctx.rng.randrange(1 << 30)
        fmt = ctx.rng.choice([SDMF_VERSION, MDMF_VERSION])
        k, n, ns = ctx.rng.choice([(1, 2, 2), (2, 4, 4), (2, 4, 5), (3, 5, 5), (2, 3, 6)])
        with grid.Runtime(seed=seed, policy=ctx.rng.choice(["random", "fifo", "lifo"])) as rt:
            g = grid.Grid(grid.fresh_dir("c10c"), rt, num_servers=ns, k=k, happy=1, n=n)
            try:
                c = g.clients[0]
                sizes = [ctx.rng.choice([0, 1, 40, 700]) for _ in range(3)]
                contents = [bytes([65 + j]) * sizes[j] + b"-v%d" % j for j in range(3)]
                node = rt.wait(c.create_mutable_file(MutableData(contents[0]), version=fmt))
                other = rt.wait(c.create_mutable_file(MutableData(b"some other file's contents"), version=fmt))
                si = node.get_storage_index()
                snapshots = []     # per version: {(server, shnum): raw bytes}
                snapshots.append({(i, sh): open(p, "rb").read() for (i, sh, p) in g.share_files(si)})
                for j in (1, 2):
                    rt.wait(node.overwrite(MutableData(contents[j])))
                    snapshots.append({(i, sh): open(p, "rb").read() for (i, sh, p) in g.share_files(si)})
                other_shares = {sh: open(p, "rb").read() for (i, sh, p) in g.share_files(other.get_storage_index())}
                paths = {(i, sh): p for (i, sh, p) in g.share_files(si)}
                readcap = node.get_readonly_uri()
                published = set(contents)
                for t in range(ctx.rng.randrange(3, 7)):
                    # restore newest everywhere, then tamper with a random subset
                    for key, p in paths.items():
                        with open(p, "wb") as fh:
                            fh.write(snapshots[2][key])
                    tampered = {}
                    rollback = False
                    for key in sorted(paths):
                        if ctx.rng.random() < 0.55:
                            kind = ctx.rng.choice(["flip", "flip", "flipfield", "truncate", "old", "foreign", "delete"])
                            p = paths[key]
                            raw = snapshots[2][key]
                            if kind == "flip":
                                pos = ctx.rng.randrange(DATA_OFFSET, len(raw)) if len(raw) > DATA_OFFSET else 0
                                raw2 = raw[:pos] + bytes([raw[pos] ^ (1 << ctx.rng.randrange(8))]) + raw[pos + 1:]
                                open(p, "wb").write(raw2)
                                try:
                                    _, data0 = read_share(p)
                                    fl0 = share_fields(snapshots[2][key][DATA_OFFSET:])
                                    inside = [nm for nm, (a, b) in fl0.items() if a <= pos - DATA_OFFSET < b]
                                    kind = "flip:" + (inside[0] if inside else "beyond-share")
                                except Exception:
                                    kind = "flip:?"
                            elif kind == "flipfield":
                                _, data = read_share(p)
                                fl = share_fields(data)
                                name = ctx.rng.choice(sorted(fl))
                                (a, b) = fl[name]
                                if b > a:
                                    pos = DATA_OFFSET + ctx.rng.randrange(a, b)
                                    raw2 = raw[:pos] + bytes([raw[pos] ^ (1 << ctx.rng.randrange(8))]) + raw[pos + 1:]
                                    open(p, "wb").write(raw2)
                                kind = "flipfield:" + name
                            elif kind == "truncate":
                                open(p, "wb").write(raw[:ctx.rng.randrange(0, len(raw))])
                            elif kind == "old":
                                v = ctx.rng.choice([0, 1])
                                if key in snapshots[v]:
                                    open(p, "wb").write(snapshots[v][key])
                                    rollback = True
                                else:
                                    os.unlink(p) if os.path.exists(p) else None
                                    kind = "delete"
                            elif kind == "foreign":
                                if key[1] in other_shares:
                                    open(p, "wb").write(other_shares[key[1]])
                                else:
                                    kind = "none"
                            elif kind == "delete":
                                os.unlink(p)
                            if kind != "none":
                                tampered[key] = kind
                    intact_newest = {sh for (i, sh) in paths if (i, sh) not in tampered}
                    n2 = fresh_node(c, readcap)
                    st, val = try_read(rt, n2)
                    case = {"fmt": "SDMF" if fmt == SDMF_VERSION else "MDMF", "k": k, "n": n, "servers": ns, "seed": seed,
                            "tampered": sorted("%d/%d:%s" % (i, sh, kd) for (i, sh), kd in tampered.items()), "result": st}
                    if st == "ok" and val not in published:
                        ctx.violation("read returned bytes that no version ever published", dict(case, got=val.hex()[:80]),
                                      "unpublished-bytes:campaign")
                    elif st == "stuck":
                        ctx.violation("read never completed", case, "read-stuck:campaign")
                    elif len(intact_newest) >= k and not (st == "ok" and val == contents[2]):
                        if st == "ok" and rollback:
                            ctx.count("older-version-returned-with-rollback-shares-present")
                        else:
                            # known finding: a share whose (unsigned) offset table was altered still verifies, but
                            # counts as a separate "version" (verinfo contains the offsets) that can be chosen as best
                            offs = any(kd in ("flip:offsets", "flipfield:offsets") for kd in tampered.values())
                            sig = "newest-not-returned"
                            if offs and st == "err" and "no-remaining-shares-of-the-right-version" in str(val):
                                sig = "newest-not-returned:offset-table-altered"
                            ctx.violation("k intact shares of the newest version were reachable but the read did not return it",
                                          dict(case, got=(val.hex()[:40] if st == "ok" else val)), sig)
                    ctx.case(repr(sorted(case.items())) if tampered else None)
                    ctx.count("campaign:" + st)
                    for kd in tampered.values():
                        ctx.count("tamper:" + kd.split(":")[0])
                    # restore missing files for the next round
                    for key, p in paths.items():
                        os.makedirs(os.path.dirname(p), exist_ok=True)
                # read-cap holders cannot publish
                for key, p in paths.items():
                    with open(p, "wb") as fh:
                        fh.write(snapshots[2][key])
                before = {key: open(p, "rb").read() for key, p in paths.items()}
                ro = fresh_node(c, readcap)
                refused = False
                try:
                    rt.wait(ro.overwrite(MutableData(b"forged by a read-cap holder")))
                except grid.Stuck:
                    refused = True
                except Exception:
                    refused = True
                after = {key: open(p, "rb").read() for key, p in paths.items()}
                if not refused or after != before:
                    ctx.violation("a read-cap node published a version", {"seed": seed, "refused": refused}, "readcap-published")
                ctx.count("readcap-overwrite-refused")
            finally:
                g.close()


def damaged_share_among_few_servers(ctx, rounds, rng=None):
    """Corpus family (was a genuine defect, fixed in /repo): more servers than shares, one share with a
    valid signature but a truncated body; the read-cap reader's first survey (k+epsilon servers) may see
    the damaged share and only k-1 others: the read must still succeed because k intact shares are
    reachable on servers it has not asked yet."""
    import grid
    from allmydata.mutable.publish import MutableData
    from allmydata.interfaces import SDMF_VERSION, MDMF_VERSION
    rng = rng or ctx.rng
    for r in range(rounds):
        seed = rng.randrange(1 << 30)
        fmt = rng.choice([SDMF_VERSION, SDMF_VERSION, MDMF_VERSION])
        with grid.Runtime(seed=seed) as rt:
            g = grid.Grid(grid.fresh_dir("c10d"), rt, num_servers=6, k=2, happy=1, n=3)
            try:
                c = g.clients[0]
                content = b"D" * rng.choice([1, 43, 300]) + b"-only-version"
                node = rt.wait(c.create_mutable_file(MutableData(content), version=fmt))
                files = g.share_files(node.get_storage_index())
                for (i, sh, p) in files:
                    raw = open(p, "rb").read()
                    _, data = read_share(p)
                    fl = share_fields(data)
                    lo = max(fl["signature"][1], fl["pubkey"][1], 123)
                    cut = DATA_OFFSET + rng.randrange(lo, max(lo + 1, len(data)))
                    open(p, "wb").write(raw[:cut])
                    st, val = try_read(rt, fresh_node(c, node.get_readonly_uri()))
                    case = {"fmt": "SDMF" if fmt == SDMF_VERSION else "MDMF", "k": 2, "n": 3, "servers": 6, "seed": seed,
                            "tampered": ["%d/%d:truncate@%d" % (i, sh, cut - DATA_OFFSET)], "result": st}
                    if st == "ok" and val != content:
                        ctx.violation("read returned bytes that no version ever published", dict(case, got=val.hex()[:80]),
                                      "unpublished-bytes:campaign")
                    elif st != "ok":
                        ctx.violation("k intact shares of the newest version were reachable but the read did not return it",
                                      dict(case, got=val), "newest-not-returned")
                    ctx.case(repr(sorted(case.items())))
                    ctx.count("damaged-among-few:" + st)
                    open(p, "wb").write(raw)
            finally:
                g.close()


def offset_table_corpus(ctx):
    """Fixed corpus for the open finding `newest-not-returned:offset-table-altered`."""
    import grid
    from allmydata.mutable.publish import MutableData
    from allmydata.interfaces import SDMF_VERSION
    from allmydata.mutable.common import MODE_READ
    rd_lines, rd_impls, rd_cases = [], [], []
    with grid.Runtime(seed=5) as rt:
        g = grid.Grid(grid.fresh_dir("c10o"), rt, num_servers=2, k=1, happy=1, n=2)
        try:
            c = g.clients[0]
            content = b"B" * 40 + b"-v"
            node = rt.wait(c.create_mutable_file(MutableData(content), version=SDMF_VERSION))
            for (i, sh, p) in g.share_files(node.get_storage_index()):
                raw, data = read_share(p)
                (a, b) = share_fields(data)["offsets"]
                for pos in range(a, b):
                    open(p, "wb").write(raw[:DATA_OFFSET + pos] + bytes([raw[DATA_OFFSET + pos] ^ 8]) + raw[DATA_OFFSET + pos + 1:])
                    st, val = try_read(rt, fresh_node(c, node.get_readonly_uri()))
                    case = {"fmt": "SDMF", "k": 1, "n": 2, "servers": 2, "seed": 5,
                            "tampered": ["%d/%d:flip:offsets@%d" % (i, sh, pos)], "result": st}
                    if st == "ok" and val != content:
                        ctx.violation("read returned bytes that no version ever published", dict(case, got=val.hex()[:80]),
                                      "unpublished-bytes:campaign")
                    elif st != "ok":
                        sig = "newest-not-returned:offset-table-altered" if "no-remaining-shares-of-the-right-version" in str(val) \
                            else "newest-not-returned"
                        ctx.violation("k intact shares of the newest version were reachable but the read did not return it",
                                      dict(case, got=val), sig)
                    ctx.case(repr(sorted(case.items())))
                    ctx.count("offset-corpus:" + st)
                    if pos % 2 == 0:
                        # the same history on the model: verinfo identities = ranks of the real verinfo tuples of a real
                        # map update; is the altered share readable at all = a read with the other share taken away
                        sm = rt.wait(fresh_node(c, node.get_readonly_uri()).get_servermap(MODE_READ))
                        vm = sm.make_versionmap()
                        ranks = {v: r for r, v in enumerate(sorted(vm.keys()))}
                        others = [(pp, open(pp, "rb").read()) for (_i2, _s2, pp) in g.share_files(node.get_storage_index()) if pp != p]
                        for (pp, _r) in others:
                            os.unlink(pp)
                        st_alone, _v = try_read(rt, fresh_node(c, node.get_readonly_uri()))
                        for (pp, rr) in others:
                            open(pp, "wb").write(rr)
                        toks = sorted((shn, _share_tok(shn, 0 if shn == sh else 1, 1, 1, 1, ranks[v], True if shn != sh else st_alone == "ok"))
                                      for v, shs in vm.items() for (shn, _srv, _t) in shs)
                        line = "rd t 1 %s / %s" % (" ".join(t for _s, t in toks), " ".join(t for _s, t in toks))
                        rd_lines.append(line)
                        rd_impls.append("ok" if st == "ok" else "fail")
                        rd_cases.append(dict(case, model_line=line))
                open(p, "wb").write(raw)
            mo = ctx.model(rd_lines)
            if mo is not None:
                ctx.compare("download_best_version on a map with an offset-altered share (version selection + retry)", rd_cases, rd_impls,
                            ["fail" if o == "fail" else ("ok" if "," in o else o) for o in mo])
        finally:
            g.close()


# ----------------------------------------------------------------------------- mutually consistent forgeries

def _parse_prefix(data):
    """(seqnum, root_hash, IV-or-None, k, N, segsize, datalen) from the signed prefix of a share."""
    if data[0] == 0:
        (_v, seq, root, iv, k, n, segsize, datalen) = struct.unpack(">BQ32s16sBBQQ", data[:75])
        return seq, root, iv, k, n, segsize, datalen
    (_v, seq, root, k, n, segsize, datalen) = struct.unpack(">BQ32sBBQQ", data[:59])
    return seq, root, None, k, n, segsize, datalen


def forge_consistent_shares(readkey, one_share, plaintext, fresh_salts=None):
    """What somebody holding only the read-cap (readkey) and write access to servers' disks can build:
    for every share number, a share that keeps the genuine signed prefix, signature, verification key,
    offsets and encrypted private key of `one_share` verbatim, and whose block data, block hash tree
    and share hash chain are those of `plaintext` encoded under the same parameters.  The forged
    shares are consistent with each other; the root of their share hash tree is not the signed
    root hash.  Written from mutable/layout.py + publish.py (encrypt, zfec, block_hash, HashTree).
    Returns {shnum: share bytes} (same length as the original)."""
    import zfec
    from allmydata import hashtree
    from allmydata.crypto import aes
    from allmydata.util import hashutil, mathutil
    seq, root, iv, k, n, segsize, datalen = _parse_prefix(one_share)
    assert len(plaintext) == datalen and datalen > 0
    mdmf = one_share[0] == 1
    fl = share_fields(one_share)
    nseg = mathutil.div_ceil(datalen, segsize)
    (sd_a, sd_b) = fl["share_data"]
    # salts: SDMF = the signed IV; MDMF = per segment, stored (unsigned) in front of each block
    blocksize = segsize // k
    salts = []
    for s in range(nseg):
        if not mdmf:
            salts.append(iv)
        elif fresh_salts is not None:
            salts.append(fresh_salts[s])
        else:
            a = sd_a + s * (blocksize + 16)
            salts.append(one_share[a:a + 16])
    per_share_data = [[] for _ in range(n)]
    per_share_leaves = [[] for _ in range(n)]
    for s in range(nseg):
        seg = plaintext[s * segsize:(s + 1) * segsize]
        key = hashutil.ssk_readkey_data_hash(salts[s], readkey)
        crypttext = aes.encrypt_data(aes.create_encryptor(key), seg)
        piece = mathutil.div_ceil(len(seg), k)
        pieces = [crypttext[i * piece:(i + 1) * piece].ljust(piece, b"\x00") for i in range(k)]
        blocks = zfec.Encoder(k, n).encode(pieces)
        for sh in range(n):
            if mdmf:
                per_share_data[sh].append(salts[s] + blocks[sh])
                per_share_leaves[sh].append(hashutil.block_hash(salts[s] + blocks[sh]))
            else:
                per_share_data[sh].append(blocks[sh])
                per_share_leaves[sh].append(hashutil.block_hash(blocks[sh]))
    bhts = [list(hashtree.HashTree(per_share_leaves[sh])) for sh in range(n)]
    sht = hashtree.HashTree([t[0] for t in bhts])
    assert sht[0] != root
    out = {}
    for sh in range(n):
        chain = b"".join(struct.pack(">H32s", i, sht[i]) for i in sorted(sht.needed_hashes(sh)))
        repl = {"share_data": b"".join(per_share_data[sh]), "block_hash_tree": b"".join(bhts[sh]), "share_hash_chain": chain}
        data = bytearray(one_share)
        for name, val in repl.items():
            (a, b) = fl[name]
            assert b - a == len(val), ("forged field has another length than the published one", name, b - a, len(val))
            data[a:b] = val
        out[sh] = bytes(data)
    return out


def forgery_scenario(ctx, prm):
    """One grid, one file with two published versions, then a list of reads (`prm["trials"]`), each
    after restoring the newest version everywhere and planting `forged` mutually consistent forged
    shares and at most one plainly damaged one.  `prm` determines the run completely."""
    import grid
    from allmydata import uri
    from allmydata.mutable import publish
    from allmydata.mutable.publish import MutableData
    from allmydata.interfaces import SDMF_VERSION, MDMF_VERSION
    import random as _random
    fmt = SDMF_VERSION if prm["fmt"] == "SDMF" else MDMF_VERSION
    k, n, ns = prm["k"], prm["n"], prm["servers"]
    saved_seg = publish.DEFAULT_MUTABLE_MAX_SEGMENT_SIZE
    publish.DEFAULT_MUTABLE_MAX_SEGMENT_SIZE = prm["maxseg"]          # configuration: several segments for MDMF
    try:
        with grid.Runtime(seed=prm["seed"], policy=prm["policy"]) as rt:
            g = grid.Grid(grid.fresh_dir("c10f"), rt, num_servers=ns, k=k, happy=1, n=n)
            try:
                c = g.clients[0]
                size = prm["size"]
                v1 = (b"version one, published by the write-cap holder. " * (size // 40 + 1))[:size]
                v2 = (b"version TWO, published by the write-cap holder. " * (size // 40 + 1))[:size]
                node = rt.wait(c.create_mutable_file(MutableData(v1), version=fmt))
                rt.wait(node.overwrite(MutableData(v2)))
                published = {v1, v2}
                readcap = node.get_readonly_uri()
                readkey = uri.from_string(readcap).readkey
                files = {sh: p for (_i, sh, p) in g.share_files(node.get_storage_index())}
                if sorted(files) != list(range(n)):
                    ctx.count("forgery:placement-incomplete")
                    return
                pristine = {sh: open(p, "rb").read() for sh, p in files.items()}
                for ti, tr in enumerate(prm["trials"]):
                    er = _random.Random(tr["evil"])
                    evil = bytes(er.randrange(256) for _ in range(size)) if tr["garbage"] \
                        else (b"FORGED by somebody who holds only the read-cap! " * (size // 40 + 1))[:size]
                    one = pristine[0][DATA_OFFSET:DATA_OFFSET + struct.unpack(">Q", pristine[0][84:92])[0]]
                    nseg = -(-size // _parse_prefix(one)[5])
                    fresh = [bytes(er.randrange(256) for _ in range(16)) for _ in range(nseg)] if tr["fresh_salts"] else None
                    forged = forge_consistent_shares(readkey, one, evil, fresh)
                    for sh, p in files.items():
                        raw = pristine[sh]
                        if sh in tr["forged"]:
                            # verbatim container header (leases, write enabler), forged share data of the same length
                            raw = raw[:DATA_OFFSET] + forged[sh] + raw[DATA_OFFSET + len(forged[sh]):]
                        elif sh == tr["damaged"]:
                            (a, b) = share_fields(raw[DATA_OFFSET:])["share_data"]
                            pos = DATA_OFFSET + a + tr["dmgpos"] % (b - a)
                            raw = raw[:pos] + bytes([raw[pos] ^ 0x10]) + raw[pos + 1:]
                        with open(p, "wb") as fh:
                            fh.write(raw)
                    intact = n - len(tr["forged"]) - (1 if tr["damaged"] is not None and tr["damaged"] not in tr["forged"] else 0)
                    st, val = try_read(rt, fresh_node(c, readcap))
                    case = {"family": "consistent-forgery", "params": dict(prm, trials=prm["trials"][:ti + 1]),
                            "fmt": prm["fmt"], "k": k, "n": n, "forged": tr["forged"], "damaged": tr["damaged"],
                            "intact": intact, "result": st}
                    if st == "ok" and val not in published:
                        ctx.violation("read returned bytes that no write-cap holder published: shares that keep the signed prefix and "
                                      "signature but carry another, mutually consistent, block/hash-tree body were accepted",
                                      dict(case, got=val.hex()[:80], forged_plaintext=(val == evil)),
                                      "forged-content-accepted:consistent-forgery")
                    elif st == "stuck":
                        ctx.violation("read never completed", case, "read-stuck:consistent-forgery")
                    elif intact >= k and st != "ok":
                        ctx.violation("k intact shares of the newest version were reachable but the read failed",
                                      dict(case, got=val), "newest-not-returned:consistent-forgery")
                    ctx.case(repr((prm["fmt"], k, n, prm["seed"], prm["policy"], ti, tuple(tr["forged"]), tr["damaged"])))
                    ctx.count("forgery:%s:j=%s:dmg=%d:%s" % (prm["fmt"], tr["jclass"], tr["damaged"] is not None, st))
            finally:
                g.close()
    finally:
        publish.DEFAULT_MUTABLE_MAX_SEGMENT_SIZE = saved_seg


def gen_forgery_params(rng, fmt, policy):
    k, n, ns = rng.choice([(2, 4, 4), (3, 5, 5), (3, 10, 10), (2, 3, 6), (3, 6, 7), (1, 3, 3), (2, 6, 6), (2, 5, 7), (3, 7, 7)])
    trials = []
    for (jclass, j) in (("k-1", k - 1), ("k", k), ("k+1", min(k + 1, n)), ("N", n)):
        for dmg in (False, True):
            if j == 0 and not dmg:
                continue
            # which share numbers: the reader activates the lowest share numbers first, so forged
            # (and damaged) shares placed low are met before the intact ones; also random placements
            place = rng.choice(["low", "low", "random", "high"])
            shnums = list(range(n))
            damaged = None
            if dmg:
                damaged = rng.choice(shnums[:k]) if place != "random" else rng.choice(shnums)
            rest = [s for s in shnums if s != damaged] if j < n else shnums
            if place == "low":
                forged = rest[:j]
            elif place == "high":
                forged = rest[len(rest) - j:] if j else []
            else:
                forged = sorted(rng.sample(rest, min(j, len(rest))))
            trials.append({"jclass": jclass, "forged": forged, "damaged": damaged, "dmgpos": rng.randrange(1 << 16),
                           "garbage": rng.random() < 0.3, "fresh_salts": rng.random() < 0.3, "evil": rng.randrange(1 << 30)})
    rng.shuffle(trials)
    return {"fmt": fmt, "k": k, "n": n, "servers": ns, "seed": rng.randrange(1 << 30), "policy": policy,
            "maxseg": rng.choice([16, 24, 50]), "size": rng.choice([1, 33, 90, 200]), "trials": trials}


def consistent_forgery_family(ctx, rounds):
    """Shares that pass the servermap update (genuine prefix + signature + key) and agree with each
    other but not with the signed root hash: j of them for j in {k-1, k, k+1, N}, with and without one
    plainly damaged share among the first to be tried, SDMF and MDMF, all delivery policies."""
    combos = [(f, p) for f in ("SDMF", "MDMF") for p in ("random", "fifo", "lifo")]
    for r in range(rounds):
        fmt, policy = combos[r % len(combos)]
        forgery_scenario(ctx, gen_forgery_params(ctx.rng, fmt, policy))


# ----------------------------------------------------------------------------- Retrieve's share hash tree, event by event

class _StubStorageServer:
    def advise_corrupt_share(self, *a, **k):
        return None


class _StubServer:
    def __init__(self, i):
        self.i = i

    def get_serverid(self):
        return b"srv%017d" % self.i

    def get_name(self):
        return b"srv%d" % self.i

    def get_storage_server(self):
        return _StubStorageServer()


class _StubNode:
    def get_pubkey(self):
        return object()

    def get_privkey(self):
        return None

    def get_readkey(self):
        return b"r" * 16

    def get_storage_index(self):
        return b"s" * 16

    def is_readonly(self):
        return True


def gen_tree_events(rng, n, nfam):
    evs = []
    shnums = list(range(n))
    rng.shuffle(shnums)
    for sh in shnums[:rng.randrange(1, n + 1)]:
        r = rng.random()
        fam = 0 if rng.random() < 0.5 else rng.randrange(nfam)
        if r < 0.6:
            evs.append("o:%d:%d" % (sh, fam))
        elif r < 0.72 and n >= 3:
            evs.append("t:%d:%d" % (sh, fam))     # consistent share whose chain names only the sibling leaf
        elif r < 0.85:
            evs.append("d:%d:%d:%d" % (sh, fam, rng.randrange(3)))
        else:
            evs.append("x:%d" % sh)
    return evs


def run_tree_events_impl(seedfam, n, evs, nfam=3):
    """The real Retrieve (stub node and servers, real ServerMap): real `_setup_encoding_parameters` +
    `_setup_download` (which seeds the share hash tree with the root hash of the verinfo), then every
    event through the real `_validate_block` with `_handle_bad_share` as its errback, exactly as
    `_process_segment` wires them; share hashes supplied as `_get_needed_hashes` would request them."""
    from twisted.python.failure import Failure
    from allmydata import hashtree
    from allmydata.util import hashutil
    from allmydata.mutable.retrieve import Retrieve
    from allmydata.mutable.servermap import ServerMap
    from allmydata.mutable.common import BadShareError
    k = 2
    block = {(f, i): b"family %d share %d" % (f, i) for f in range(nfam) for i in range(n)}
    trees = [hashtree.HashTree([hashutil.block_hash(block[(f, i)]) for i in range(n)]) for f in range(nfam)]
    root = trees[seedfam if seedfam is not None else 0][0]
    verinfo = (1, root, b"i" * 16, 4, 4, k, n, b"the signed prefix", ())
    sm = ServerMap()
    servers = [_StubServer(i) for i in range(n)]
    for i in range(n):
        sm.add_new_share(servers[i], i, verinfo, 0.0)
    r = Retrieve(_StubNode(), None, sm, verinfo)
    r._offset, r._read_length = 0, 4
    r._setup_encoding_parameters()
    r._setup_download()
    if seedfam is None:
        r.share_hash_tree = hashtree.IncompleteHashTree(n)        # what set_hashes does when it knows no root
    out = []
    for ev in evs:
        t = ev.split(":")
        sh = int(t[1])
        reader = r.readers[sh]
        if reader not in r._active_readers:
            r._active_readers.append(reader)
        if t[0] == "x":
            r._handle_bad_share(Failure(BadShareError("synthetic failure of another kind")), [reader])
            out.append("r")
            continue
        fam = int(t[2])
        blk = block[(fam, sh)] if t[0] in "ot" else b"damaged block %s" % t[3].encode()
        tree = trees[fam]
        # as _get_needed_hashes: share hashes are requested only while the tree still needs some for this share
        sharehashes = {i: tree[i] for i in tree.needed_hashes(sh)} if r.share_hash_tree.needed_hashes(sh) else {}
        if t[0] == "t" and sharehashes:
            sib = tree.sibling(tree.first_leaf_num + sh)
            sharehashes = {sib: tree[sib]}          # the chain stops right above the leaves
        blockhashes = [hashutil.block_hash(blk)]
        box = []
        d = r._validate_block(((blk, b"i" * 16), blockhashes, sharehashes), 0, reader, reader.server, 0.0)
        d.addErrback(r._handle_bad_share, [reader])
        d.addBoth(box.append)
        assert box, "_validate_block did not complete synchronously"
        if isinstance(box[0], Failure):
            box[0].raiseException()
        out.append("r" if box[0] is None else "a")
    top = r.share_hash_tree[0]
    if top is None:
        rs = "none"
    else:
        fams = [f for f in range(nfam) if trees[f][0] == top]
        rs = "fam:%d" % fams[0] if fams else "junk"
    return "%s | %s" % ("".join(out) or "-", rs)


def retrieve_tree_cases(ctx, count, corpus=True):
    import grid
    lines, impls, cases = [], [], []
    corpus = [] if not corpus else [(0, 4, ["t:0:1", "t:1:1", "o:2:0", "o:3:0"]),                   # the surplus-variant history
              (0, 8, ["o:5:0", "t:2:2", "t:3:2", "t:6:1", "o:7:0"]),
              (0, 5, ["o:0:1", "o:1:1", "o:2:1", "o:3:0", "o:4:0"]),          # the reset-variant history
              (0, 4, ["d:0:0:1", "o:1:1", "o:2:1", "o:3:0"]),
              (0, 4, ["x:0", "o:1:2", "o:2:2", "o:3:0"]),
              (0, 4, ["o:0:0", "o:2:0", "d:3:0:1", "d:1:0:2"]),               # leaf values already known: no chain is asked for
              (None, 4, ["o:0:1", "o:1:1", "o:2:0"]), (None, 3, ["o:2:1", "x:0", "o:1:1"])]
    with grid.Runtime(seed=0) as rt:
        for c in range(count + len(corpus)):
            if c < len(corpus):
                seedfam, n, evs = corpus[c]
            else:
                n = ctx.rng.choice([2, 3, 4, 5, 8, 10])
                seedfam = None if ctx.rng.random() < 0.15 else ctx.rng.randrange(3)
                evs = gen_tree_events(ctx.rng, n, 3)
                # a chain that stops below the root: only for shares of another family than the seeded one (a genuine leaf
                # may legitimately be bridged to the root by nodes the tree already knows; the model does not keep those)
                evs = [("o" + e[1:]) if e[0] == "t" and (seedfam is None or int(e.split(":")[2]) == seedfam) else e for e in evs]
                if seedfam is None:
                    # without a trusted root the real tree also keeps the inner nodes of whatever it adopted
                    # (the model keeps the root only): compare on internally consistent shares only
                    evs = [e for e in evs if e[0] != "d"] or ["x:0"]
            impl = run_tree_events_impl(seedfam, n, evs)
            line = "rt %s %s" % ("-" if seedfam is None else seedfam, " ".join(evs))
            lines.append(line)
            impls.append(impl)
            case = {"seedfam": seedfam, "n": n, "events": evs}
            cases.append(case)
            # the statement on the real object: a Retrieve seeded with the signed root never validates a
            # share of another family, whatever was rejected before
            if seedfam is not None:
                for ev, res in zip(evs, impl.split(" | ")[0]):
                    t = ev.split(":")
                    if res == "a" and (t[0] == "d" or int(t[2]) != seedfam):   # (t events are generated for other families only)
                        ctx.violation("Retrieve validated a share that does not hash to the signed root", case,
                                      "forged-content-accepted:retrieve-tree")
            rejected_before = any(x == "r" for x in impl.split(" | ")[0][:-1])
            ctx.case(line if rejected_before else None)
            ctx.count("tree:" + impl.split(" | ")[1].split(":")[0])
    ctx.compare("Retrieve share-hash-tree decisions (accept/reject per share, final root)", cases, impls, ctx.model(lines))


# ----------------------------------------------------------------------------- altered signed prefix next to intact shares

def prefix_alteration_scenario(ctx, prm):
    """Shares whose signed prefix differs from the published one only in datalength (one byte less, inside
    the padding of the last segment, so block sizes and hash trees are unaffected), signature kept: the
    signature no longer matches these shares.  `intact` shares stay genuine (fewer than k, so the genuine
    version alone is not recoverable).  Whatever order the servers answer in, the read must fail or return
    the published bytes."""
    import grid
    from allmydata.mutable import publish
    from allmydata.mutable.publish import MutableData
    from allmydata.interfaces import SDMF_VERSION, MDMF_VERSION
    fmt = SDMF_VERSION if prm["fmt"] == "SDMF" else MDMF_VERSION
    k, n, ns = prm["k"], prm["n"], prm["servers"]
    saved_seg = publish.DEFAULT_MUTABLE_MAX_SEGMENT_SIZE
    publish.DEFAULT_MUTABLE_MAX_SEGMENT_SIZE = 8 * k
    try:
        with grid.Runtime(seed=prm["seed"], policy=prm["policy"]) as rt:
            g = grid.Grid(grid.fresh_dir("c10p"), rt, num_servers=ns, k=k, happy=1, n=n)
            try:
                c = g.clients[0]
                content = (b"the only version ever published. " * 8)[:prm["size"]]
                node = rt.wait(c.create_mutable_file(MutableData(content), version=fmt))
                readcap = node.get_readonly_uri()
                files = {sh: p for (_i, sh, p) in g.share_files(node.get_storage_index())}
                pristine = {sh: open(p, "rb").read() for sh, p in files.items()}
                for ti, intact in enumerate(prm["trials"]):
                    for sh, p in files.items():
                        raw = pristine[sh]
                        if sh not in intact:
                            (a, b) = share_fields(raw[DATA_OFFSET:])["datalen"]
                            (dl,) = struct.unpack(">Q", raw[DATA_OFFSET + a:DATA_OFFSET + b])
                            raw = raw[:DATA_OFFSET + a] + struct.pack(">Q", dl - 1) + raw[DATA_OFFSET + b:]
                        with open(p, "wb") as fh:
                            fh.write(raw)
                    st, val = try_read(rt, fresh_node(c, readcap))
                    case = {"family": "prefix-alteration", "params": dict(prm, trials=prm["trials"][:ti + 1]), "fmt": prm["fmt"],
                            "k": k, "n": n, "intact": sorted(intact), "result": st}
                    if st == "ok" and val != content:
                        ctx.violation("read returned bytes that no version ever published: shares with an altered signed prefix "
                                      "(datalength) and the old signature were accepted next to intact ones",
                                      dict(case, got=val.hex()[:80], got_len=len(val), published_len=len(content)),
                                      "unpublished-bytes:signed-prefix-altered")
                    elif st == "stuck":
                        ctx.violation("read never completed", case, "read-stuck:signed-prefix-altered")
                    elif len(intact) >= k and st != "ok":
                        ctx.violation("k intact shares of the newest version were reachable but the read failed",
                                      dict(case, got=val), "newest-not-returned:signed-prefix-altered")
                    ctx.case(repr((prm["fmt"], k, n, prm["seed"], prm["policy"], ti, tuple(sorted(intact)))))
                    ctx.count("prefix-alteration:%s:intact=%s:%s" % (prm["fmt"], "<k" if len(intact) < k else ">=k", st))
            finally:
                g.close()
    finally:
        publish.DEFAULT_MUTABLE_MAX_SEGMENT_SIZE = saved_seg


def prefix_alteration_family(ctx, rounds):
    combos = [(f, p) for p in ("fifo", "random", "lifo") for f in ("SDMF", "MDMF")]
    for r in range(rounds):
        fmt, policy = combos[r % len(combos)]
        k, n, ns = ctx.rng.choice([(2, 4, 4), (3, 5, 5), (2, 3, 6), (2, 6, 6)])
        trials = []
        for _ in range(4):
            cnt = ctx.rng.choice([1, 1, max(1, k - 1), k])
            trials.append(sorted(ctx.rng.sample(range(n), cnt)))
        trials.append([0])
        trials.append([n - 1])
        # size: a multiple of k that is not a multiple of the segment size + 1, so that datalength-1 keeps every block size
        prefix_alteration_scenario(ctx, {"fmt": fmt, "k": k, "n": n, "servers": ns, "seed": ctx.rng.randrange(1 << 30),
                                         "policy": policy, "size": k * ctx.rng.choice([3, 10, 21]), "trials": trials})


# ----------------------------------------------------------------------------- several shares on one server

def shared_server_scenario(ctx, prm):
    """Fewer servers than shares, so servers hold several shares each.  Some shares are damaged (one bit
    in the block data / a hash chain; prefix and signature intact, so they enter the servermap); at least
    k other shares stay intact, some of them on the servers that also hold a damaged one.  The statement:
    k intact shares of the newest version are reachable, so the read succeeds."""
    import grid
    from allmydata.mutable.publish import MutableData
    from allmydata.interfaces import SDMF_VERSION, MDMF_VERSION
    fmt = SDMF_VERSION if prm["fmt"] == "SDMF" else MDMF_VERSION
    k, n, ns = prm["k"], prm["n"], prm["servers"]
    with grid.Runtime(seed=prm["seed"], policy=prm["policy"]) as rt:
        g = grid.Grid(grid.fresh_dir("c10m"), rt, num_servers=ns, k=k, happy=1, n=n)
        try:
            c = g.clients[0]
            content = b"the only version, shares doubled up on servers. " * 2
            node = rt.wait(c.create_mutable_file(MutableData(content), version=fmt))
            files = g.share_files(node.get_storage_index())
            where = {sh: i for (i, sh, _p) in files}
            paths = {sh: p for (_i, sh, p) in files}
            if sorted(paths) != list(range(n)):
                ctx.count("shared-server:placement-incomplete")
                return
            pristine = {sh: open(p, "rb").read() for sh, p in paths.items()}
            for ti, tr in enumerate(prm["trials"]):
                for sh, p in paths.items():
                    raw = pristine[sh]
                    if sh in tr["damaged"]:
                        (a, b) = share_fields(raw[DATA_OFFSET:])[tr["field"]]
                        if b > a:
                            pos = DATA_OFFSET + a + tr["pos"] % (b - a)
                            raw = raw[:pos] + bytes([raw[pos] ^ 0x04]) + raw[pos + 1:]
                    with open(p, "wb") as fh:
                        fh.write(raw)
                st, val = try_read(rt, fresh_node(c, node.get_readonly_uri()))
                intact = [sh for sh in range(n) if sh not in tr["damaged"]]
                # the class of the input: does a server hold both a damaged share and an intact one?
                mixed = sorted({where[d] for d in tr["damaged"]} & {where[s] for s in intact})
                case = {"family": "shared-server", "params": dict(prm, trials=prm["trials"][:ti + 1]), "fmt": prm["fmt"], "k": k, "n": n,
                        "servers": ns, "placement": {str(sh): where[sh] for sh in sorted(where)}, "damaged": tr["damaged"],
                        "field": tr["field"], "intact": len(intact), "result": st}
                if st == "ok" and val != content:
                    ctx.violation("read returned bytes that no version ever published", dict(case, got=val.hex()[:80]),
                                  "unpublished-bytes:shared-server")
                elif st == "stuck":
                    ctx.violation("read never completed", case, "read-stuck:shared-server")
                elif len(intact) >= k and st != "ok":
                    sig = "newest-not-returned:shared-server"
                    if mixed and "NotEnoughSharesError" in str(val):
                        sig = "newest-not-returned:bad-share-drops-server"
                    ctx.violation("k intact shares of the newest version were reachable but the read failed",
                                  dict(case, got=val, servers_with_damaged_and_intact=mixed), sig)
                ctx.case(repr((prm["fmt"], k, n, ns, prm["seed"], prm["policy"], ti, tuple(tr["damaged"]), tr["field"])))
                ctx.count("shared-server:%s:%s:%s" % (prm["fmt"], "mixed" if mixed else "apart", st))
        finally:
            g.close()


def shared_server_family(ctx, rounds, corpus=True):
    corpus = [] if not corpus else [{"fmt": "SDMF", "k": 2, "n": 3, "servers": 2, "seed": 1, "policy": "fifo",
               "trials": [{"damaged": [0], "field": "share_data", "pos": 0}, {"damaged": [1], "field": "share_data", "pos": 0},
                          {"damaged": [2], "field": "share_data", "pos": 0}]}]
    for prm in corpus:
        shared_server_scenario(ctx, prm)
    combos = [(f, p) for p in ("random", "fifo", "lifo") for f in ("SDMF", "MDMF")]
    for r in range(rounds):
        fmt, policy = combos[r % len(combos)]
        k, n, ns = ctx.rng.choice([(2, 3, 2), (3, 4, 2), (3, 6, 2), (2, 4, 3), (3, 5, 2), (2, 5, 3), (3, 6, 4)])
        trials = []
        for _ in range(5):
            cnt = ctx.rng.randrange(1, n - k + 1)
            trials.append({"damaged": sorted(ctx.rng.sample(range(n), cnt)),
                           "field": ctx.rng.choice(["share_data", "share_data", "block_hash_tree", "share_hash_chain"]),
                           "pos": ctx.rng.randrange(1 << 16)})
        shared_server_scenario(ctx, {"fmt": fmt, "k": k, "n": n, "servers": ns, "seed": ctx.rng.randrange(1 << 30),
                                     "policy": policy, "trials": trials})


# ----------------------------------------------------------------------------- version selection and the Retrieve loop vs the model

def _share_tok(sh, srv, seq, root, pre, offs, good):
    return "%d:%d:%d:%d:%d:%d:%s" % (sh, srv, seq, root, pre, offs, "g" if good else "b")


def _verinfo(seq, root, pre, offs, k, n):
    return (seq, b"%032d" % root, b"i" * 16, 4, 4, k, n, b"prefix %d" % pre, (("signature", 100 + offs), ("EOF", 900)))


def versionmap_cases(ctx, count):
    """Real ServerMap.best_recoverable_version / recoverable_versions on synthetic verinfo tuples."""
    from allmydata.mutable.servermap import ServerMap
    lines, impls, cases = [], [], []
    for c in range(count):
        k = ctx.rng.randrange(1, 4)
        n = ctx.rng.randrange(k, k + 4)
        nver = ctx.rng.randrange(1, 4)
        vers = [(ctx.rng.randrange(1, 4), ctx.rng.randrange(2), ctx.rng.randrange(2), ctx.rng.randrange(3)) for _ in range(nver)]
        servers = [_StubServer(i) for i in range(5)]
        sm = ServerMap()
        toks = []
        for sh in range(n):
            for srv in ctx.rng.sample(range(5), ctx.rng.choice([0, 1, 1, 1, 2])):
                v = ctx.rng.choice(vers)
                sm.add_new_share(servers[srv], sh, _verinfo(*v, k=k, n=n), 0.0)
                toks.append(_share_tok(sh, srv, *v, True))
        back = {_verinfo(*v, k=k, n=n): "%d,%d,%d,%d" % v for v in vers}
        b = sm.best_recoverable_version()
        recs = sorted(sm.recoverable_versions())
        impl = "%s | %s" % (back[b] if b is not None else "-", " ".join(back[r] for r in recs) or "-")
        lines.append("vm %d %s" % (k, " ".join(toks)))
        impls.append(impl)
        cases.append({"k": k, "shares": toks})
        ctx.case(lines[-1] if len(recs) > 1 else None)
        ctx.count("versionmap:recoverable=%d" % len(recs))
    ctx.compare("ServerMap.best_recoverable_version / recoverable_versions", cases, impls, ctx.model(lines))


def run_retrieve_loop_impl(k, shares):
    """shares: [(shnum, server, good)] sorted by shnum.  The real Retrieve (stub node/servers, real
    ServerMap and _setup_download) driven as loop()/_process_segment drive it: _activate_enough_servers,
    then every newly active reader through _validate_block with _handle_bad_share as errback, until a
    round passes without a rejection (ok) or NotEnoughSharesError (fail)."""
    from twisted.python.failure import Failure
    from allmydata import hashtree
    from allmydata.util import hashutil
    from allmydata.interfaces import NotEnoughSharesError
    from allmydata.mutable.retrieve import Retrieve
    from allmydata.mutable.servermap import ServerMap
    n = max(k, max(sh for (sh, _s, _g) in shares) + 1)
    block = {i: b"genuine share %d" % i for i in range(n)}
    tree = hashtree.HashTree([hashutil.block_hash(block[i]) for i in range(n)])
    verinfo = (1, tree[0], b"i" * 16, 4 * k, 4 * k, k, n, b"the signed prefix", ())
    sm = ServerMap()
    servers = {}
    for (sh, srv, _g) in shares:
        servers.setdefault(srv, _StubServer(srv))
        sm.add_new_share(servers[srv], sh, verinfo, 0.0)
    good = {sh: g for (sh, _s, g) in shares}
    r = Retrieve(_StubNode(), None, sm, verinfo)
    r._offset, r._read_length = 0, 4 * k
    r._setup_encoding_parameters()
    try:
        r._setup_download()
    except NotEnoughSharesError:
        return "fail"
    validated = set()
    for _round in range(len(shares) + 2):
        try:
            r._activate_enough_servers()
        except NotEnoughSharesError:
            return "fail"
        rejected = False
        for reader in list(r._active_readers):
            sh = reader.shnum
            if sh in validated:
                continue
            blk = block[sh] if good[sh] else b"damaged block"
            sharehashes = {i: tree[i] for i in tree.needed_hashes(sh)} if r.share_hash_tree.needed_hashes(sh) else {}
            box = []
            d = r._validate_block(((blk, b"i" * 16), [hashutil.block_hash(blk)], sharehashes), 0, reader, reader.server, 0.0)
            d.addErrback(r._handle_bad_share, [reader])
            d.addBoth(box.append)
            if isinstance(box[0], Failure):
                box[0].raiseException()
            if box[0] is None:
                rejected = True
            else:
                validated.add(sh)
        if not rejected:
            return "ok:%s" % (",".join(str(x.shnum) for x in r._active_readers) or "-")
    return "no-progress"


def retrieve_loop_cases(ctx, count, corpus=True):
    import grid
    lines, impls, cases = [], [], []
    probe = (2, [(0, 0, False), (1, 1, True), (2, 0, True)])
    corpus = [probe] if corpus else []
    with grid.Runtime(seed=0):
        # which bad-share handling does this tree have?  (since /repo 280b4a6: the share goes; before: its whole server)
        variant = "f" if run_retrieve_loop_impl(*probe) == "ok:1,2" else "t"
        ctx.count("retrieve-loop:variant=" + variant)
        for c in range(count + len(corpus)):
            if c < len(corpus):
                k, shares = corpus[c]
            else:
                k = ctx.rng.randrange(1, 4)
                n = ctx.rng.randrange(k, k + 5)
                ns = ctx.rng.randrange(1, n + 1)
                present = sorted(ctx.rng.sample(range(n), ctx.rng.randrange(max(1, k - 1), n + 1)))
                shares = [(sh, ctx.rng.randrange(ns), ctx.rng.random() < 0.65) for sh in present]
            impl = run_retrieve_loop_impl(k, shares)
            toks = " ".join(_share_tok(sh, srv, 1, 1, 1, 0, g) for (sh, srv, g) in shares)
            lines.append("rl %s %d %s" % (variant, k, toks))
            impls.append(impl)
            lines.append("rl %s %d %s" % ("f" if variant == "t" else "t", k, toks))     # the other variant: counted, not compared
            impls.append(None)
            case = {"k": k, "shares": shares, "variant": variant}
            cases += [case, case]
            ngood = sum(1 for s in shares if s[2])
            one_per_server = len({s[1] for s in shares}) == len(shares)
            # the statement on the real loop: k good shares in the map => it must end with k good shares
            if ngood >= k and not impl.startswith("ok"):
                sig = "newest-not-returned:retrieve-loop" if one_per_server else "newest-not-returned:bad-share-drops-server"
                ctx.violation("the Retrieve loop gave up although k good shares were in its sharemap", dict(case, got=impl), sig)
            ctx.case(lines[-2] if any(not s[2] for s in shares) else None)
            ctx.count("retrieve-loop:" + impl.split(":")[0])
    mo = ctx.model(lines)
    if mo is not None:
        keep = [i for i in range(len(lines)) if impls[i] is not None]
        ctx.compare("Retrieve share-selection loop (_activate_enough_servers / _mark_bad_share)", [cases[i] for i in keep],
                    [impls[i] for i in keep], [mo[i] for i in keep])
        differ = sum(1 for i in range(0, len(lines), 2) if mo[i] != mo[i + 1])
        ctx.count("retrieve-loop:variants-differ", differ)


# ----------------------------------------------------------------------------- one version, two verinfos in a reused servermap

def two_verinfos_corpus(ctx):
    """Fixed corpus (was a genuine defect, repaired in /repo 80fa722).  A publisher records its own
    shares in its ServerMap with the write proxy's offsets tuple; a later survey of the same shares uses
    the read proxy's.  When the two tuples differ (dict insertion order), a server that cannot be
    re-surveyed keeps the writer's entry and the one version sits in the reused map under two verinfos;
    best_recoverable_version() may pick the one whose only holder is gone.
      history A: mv = get_best_mutable_version(); mv.overwrite("two"); one server goes down; mv.modify(...)
      history B: node.modify(...) whose publish is partly placed (one server's share was swapped for a
                 stale one after the survey -> UncoordinatedWriteError), another server goes down during
                 the backoff, the retry loop re-surveys into the same map.
    1-of-3 on 3 servers: the newest version stays readable from a live server, so the read inside
    modify() -- and modify() with it -- has to succeed (liveness clause)."""
    import grid
    from allmydata.mutable.publish import MutableData
    from allmydata.mutable.servermap import ServerMap
    from allmydata.interfaces import SDMF_VERSION, MDMF_VERSION
    from allmydata.mutable.common import MODE_CHECK
    WRITE = "slot_testv_and_readv_and_writev"
    seen = []
    ot_lines, ot_impls, ot_cases = [], [], []
    orng = ctx.subrng("offsets-tuple")
    orig_best = ServerMap.best_recoverable_version

    def best(self):
        vs = list(self.make_versionmap().keys())
        if any(a != b and a[:8] == b[:8] for a in vs for b in vs):
            seen.append(True)
        return orig_best(self)
    ServerMap.best_recoverable_version = best
    try:
        for fmtname, fmt in (("SDMF", SDMF_VERSION), ("MDMF", MDMF_VERSION)):
            for hist, stale, down in [("A", None, d) for d in range(3)] + [("B", 2, 1), ("B", 0, 2), ("B", 1, 0)]:
                del seen[:]
                with grid.Runtime(seed=1, policy="fifo") as rt:
                    g = grid.Grid(grid.fresh_dir("c10v"), rt, num_servers=3, k=1, happy=1, n=3)
                    try:
                        c = g.clients[0]
                        node = rt.wait(c.create_mutable_file(MutableData(b"one"), version=fmt))
                        modifier = lambda o, sm, first: o if o.endswith(b"!") else o + b"!"      # noqa: E731
                        res = "ok"
                        try:
                            if hist == "A":
                                mv = rt.wait(node.get_best_mutable_version())
                                rt.wait(mv.overwrite(MutableData(b"two")))
                                # the offsets tuples inside the verinfos: the publisher's own records and a fresh survey
                                fresh_map = rt.wait(fresh_node(c, node.get_uri()).get_servermap(MODE_CHECK))
                                for who, smap in (("publisher", mv._servermap), ("survey", fresh_map)):
                                    for v in smap.make_versionmap().keys():
                                        tup = list(v[8])
                                        rank = {nm: r for r, nm in enumerate(sorted(nm for nm, _o in tup))}
                                        shuffled = list(tup)
                                        orng.shuffle(shuffled)
                                        ot_lines.append("ot c " + " ".join("%d:%d" % (rank[nm], o) for nm, o in shuffled))
                                        ot_impls.append(" ".join("%d:%d" % (rank[nm], o) for nm, o in tup))
                                        ot_cases.append({"fmt": fmtname, "who": who, "offsets_tuple": [[nm, o] for nm, o in tup]})
                                pub = {v[:8]: v[8] for v in mv._servermap.make_versionmap().keys()}
                                for v in fresh_map.make_versionmap().keys():
                                    if v[:8] in pub and pub[v[:8]] != v[8]:
                                        ctx.disagree("one share, two identities: the publisher's record and a fresh survey of the same "
                                                     "version carry different offsets tuples", {"fmt": fmtname},
                                                     repr(pub[v[:8]]), repr(v[8]))
                                g.wrappers[down].broken = True
                                rt.wait(mv.modify(modifier))
                            else:
                                files = {i: p for (i, _sh, p) in g.share_files(node.get_storage_index())}
                                old = open(files[stale], "rb").read()
                                rt.wait(node.overwrite(MutableData(b"two")))
                                d = node.modify(modifier)
                                while not any(lb and lb[1] == WRITE for (lb, _d) in rt.pending):
                                    if not rt.step():
                                        break
                                with open(files[stale], "wb") as fh:
                                    fh.write(old)
                                while rt.step():            # first attempt runs out; the backoff timer is pending
                                    pass
                                g.wrappers[down].broken = True
                                rt.wait(d)
                        except grid.Stuck:
                            res = "stuck"
                        except Exception as e:
                            res = type(e).__name__
                        st, val = try_read(rt, fresh_node(c, node.get_readonly_uri()))
                        case = {"family": "two-verinfos", "fmt": fmtname, "history": hist, "stale_server": stale, "down_server": down,
                                "k": 1, "n": 3, "servers": 3, "modify": res, "fresh_read": st,
                                "one_version_under_two_verinfos": bool(seen)}
                        if res == "stuck" or st == "stuck":
                            ctx.violation("operation never completed", case, "read-stuck:two-verinfos")
                        elif res in ("NotEnoughSharesError", "UnrecoverableFileError"):
                            ctx.violation("the newest version was readable from a live server but the read inside modify() through the "
                                          "node's reused servermap failed", case,
                                          "newest-not-returned:one-version-two-verinfos" if seen else "newest-not-returned:reused-servermap")
                        elif res != "ok":
                            ctx.violation("modify() failed: %s" % res, case, "reused-servermap:unexpected-error")
                        elif st == "ok" and val not in (b"one", b"two", b"two!"):
                            ctx.violation("read returned bytes that no version ever published", dict(case, got=val.hex()[:80]),
                                          "unpublished-bytes:two-verinfos")
                        elif st != "ok":
                            ctx.violation("k intact shares of the newest version were reachable but the read failed", dict(case, got=val),
                                          "newest-not-returned:two-verinfos-fresh-read")
                        ctx.case(repr(sorted(case.items())))
                        ctx.count("two-verinfos:%s:%s:%s" % (fmtname, hist, res))
                    finally:
                        g.close()
    finally:
        ServerMap.best_recoverable_version = orig_best
    ctx.compare("offsets tuple inside verinfo (canonical order, whichever proxy made it)", ot_cases, ot_impls, ctx.model(ot_lines))


# ----------------------------------------------------------------------------- share hash chain rewritten in place

def _rewrite_chain(data, records):
    """Replace the (index, hash) records of the share hash chain, same length."""
    (a, b) = share_fields(data)["share_hash_chain"]
    blob = b"".join(struct.pack(">H32s", i, h) for (i, h) in records)
    assert len(blob) == b - a, (len(blob), b - a)
    return data[:a] + blob + data[b:]


def chain_rewrite_scenario(ctx, prm):
    """Sibling shares (2p, 2p+1) carry forged blocks with a recomputed block hash tree; the records of
    their share hash chains are rewritten in place (same number of records, so offsets, version identity
    and signed prefix are untouched) so that the chain does not reach up to the signed root:
      sibling   every record names the sibling leaf (forged value)
      below:L   records for nodes deeper than level L are the forged family's, the rest repeat the sibling record
      junk      the sibling leaf plus irrelevant indices (a far leaf, an index beyond the tree) and duplicates
    The other shares are intact or deleted.  Whatever the delivery order: the read returns a published
    version or fails; it succeeds when k intact shares remain."""
    import grid
    import random as _random
    from allmydata import uri, hashtree
    from allmydata.mutable import publish
    from allmydata.mutable.publish import MutableData
    from allmydata.interfaces import SDMF_VERSION, MDMF_VERSION
    fmt = SDMF_VERSION if prm["fmt"] == "SDMF" else MDMF_VERSION
    k, n = prm["k"], prm["n"]
    saved_seg = publish.DEFAULT_MUTABLE_MAX_SEGMENT_SIZE
    publish.DEFAULT_MUTABLE_MAX_SEGMENT_SIZE = prm["maxseg"]
    try:
        with grid.Runtime(seed=prm["seed"], policy=prm["policy"]) as rt:
            g = grid.Grid(grid.fresh_dir("c10h"), rt, num_servers=n, k=k, happy=1, n=n)
            try:
                c = g.clients[0]
                size = prm["size"]
                v1 = (b"version one, published by the write-cap holder. " * (size // 40 + 1))[:size]
                v2 = (b"version TWO, published by the write-cap holder. " * (size // 40 + 1))[:size]
                node = rt.wait(c.create_mutable_file(MutableData(v1), version=fmt))
                rt.wait(node.overwrite(MutableData(v2)))
                readcap = node.get_readonly_uri()
                files = {sh: p for (_i, sh, p) in g.share_files(node.get_storage_index())}
                if sorted(files) != list(range(n)):
                    ctx.count("chain-rewrite:placement-incomplete")
                    return
                pristine = {sh: open(p, "rb").read() for sh, p in files.items()}
                dlen = struct.unpack(">Q", pristine[0][84:92])[0]
                one = pristine[0][DATA_OFFSET:DATA_OFFSET + dlen]
                er = _random.Random(prm["seed"])
                evil = bytes(er.randrange(256) for _ in range(size))
                # forged blocks + recomputed block hash trees for every share number (a consistent family of their own)
                forged = forge_consistent_shares(uri.from_string(readcap).readkey, one, evil)
                leaf = {sh: forged[sh][slice(*share_fields(forged[sh])["block_hash_tree"])][:32] for sh in range(n)}
                shape = hashtree.IncompleteHashTree(n)
                ftree = hashtree.HashTree([leaf[sh] for sh in range(n)])
                for ti, tr in enumerate(prm["trials"]):
                    pair = [2 * tr["pair"], 2 * tr["pair"] + 1]
                    for sh, p in files.items():
                        raw = pristine[sh]
                        if sh in pair:
                            node_i = shape.first_leaf_num + sh
                            sib = shape.sibling(node_i)
                            (a, b) = share_fields(forged[sh])["share_hash_chain"]
                            nrec = (b - a) // 34
                            sibrec = (sib, ftree[sib])
                            if tr["variant"] == "sibling":
                                recs = [sibrec] * nrec
                            elif tr["variant"].startswith("below:"):
                                lvl = int(tr["variant"][6:])
                                recs = [(i, ftree[i]) if hashtree.depth_of(i) > lvl else sibrec for i in sorted(ftree.needed_hashes(sh))]
                                recs = (recs + [sibrec] * nrec)[:nrec]
                            else:
                                far = shape.first_leaf_num + (sh + n // 2 + 1) % n
                                pool = [sibrec, (far, bytes(32)), (0xFFF0, b"\x55" * 32) if tr["variant"] == "junk+range" else sibrec, sibrec]
                                recs = (pool * nrec)[:nrec]
                            newdata = _rewrite_chain(forged[sh], recs)
                            raw = raw[:DATA_OFFSET] + newdata + raw[DATA_OFFSET + len(newdata):]
                        if sh in tr["deleted"] and sh not in pair:
                            if os.path.exists(p):
                                os.unlink(p)
                            continue
                        with open(p, "wb") as fh:
                            fh.write(raw)
                    intact = [sh for sh in range(n) if sh not in pair and sh not in tr["deleted"]]
                    st, val = try_read(rt, fresh_node(c, readcap))
                    case = {"family": "chain-rewritten", "params": dict(prm, trials=prm["trials"][:ti + 1]), "fmt": prm["fmt"], "k": k, "n": n,
                            "pair": pair, "variant": tr["variant"], "deleted": tr["deleted"], "intact": len(intact), "result": st}
                    if st == "ok" and val not in (v1, v2):
                        ctx.violation("read returned bytes that no write-cap holder published: sibling shares with forged blocks and a share "
                                      "hash chain that does not reach up to the signed root were accepted",
                                      dict(case, got=val.hex()[:80]), "forged-content-accepted:chain-rewritten")
                    elif st == "stuck":
                        ctx.violation("read never completed", case, "read-stuck:chain-rewritten")
                    elif len(intact) >= k and st != "ok":
                        ctx.violation("k intact shares of the newest version were reachable but the read failed", dict(case, got=val),
                                      "newest-not-returned:chain-rewritten")
                    ctx.case(repr((prm["fmt"], k, n, prm["seed"], prm["policy"], ti, tr["pair"], tr["variant"], tuple(tr["deleted"]))))
                    ctx.count("chain-rewrite:%s:%s:%s" % (prm["fmt"], tr["variant"].split(":")[0], st))
            finally:
                g.close()
    finally:
        publish.DEFAULT_MUTABLE_MAX_SEGMENT_SIZE = saved_seg


def chain_rewrite_corpus(ctx):
    for fmt in ("SDMF", "MDMF"):
        chain_rewrite_scenario(ctx, {"fmt": fmt, "k": 2, "n": 4, "seed": 11, "policy": "fifo", "maxseg": 16, "size": 90,
                                     "trials": [{"pair": 0, "variant": "sibling", "deleted": []},
                                                {"pair": 1, "variant": "sibling", "deleted": [0, 1]},
                                                {"pair": 0, "variant": "junk", "deleted": [2, 3]}]})
        chain_rewrite_scenario(ctx, {"fmt": fmt, "k": 3, "n": 10, "seed": 12, "policy": "lifo", "maxseg": 24, "size": 200,
                                     "trials": [{"pair": 0, "variant": "sibling", "deleted": []},
                                                {"pair": 0, "variant": "below:3", "deleted": []},
                                                {"pair": 0, "variant": "below:2", "deleted": [2, 3, 4, 5, 6, 7, 8]},
                                                {"pair": 0, "variant": "junk+range", "deleted": []},
                                                {"pair": 1, "variant": "below:3", "deleted": [0, 1]},
                                                {"pair": 2, "variant": "sibling", "deleted": [0, 1, 2, 3, 6, 7, 8]}]})


def chain_rewrite_family(ctx, rounds):
    combos = [(f, p) for p in ("random", "fifo", "lifo") for f in ("SDMF", "MDMF")]
    for r in range(rounds):
        fmt, policy = combos[r % len(combos)]
        k, n = ctx.rng.choice([(2, 4), (3, 5), (3, 10), (2, 6), (3, 7), (2, 3)])
        depth = max(1, (n - 1).bit_length())
        trials = []
        for _ in range(5):
            pair = ctx.rng.randrange(n // 2)
            variant = ctx.rng.choice(["sibling", "sibling", "junk", "junk+range"] + ["below:%d" % lv for lv in range(1, depth + 1)])
            others = [sh for sh in range(n) if sh // 2 != pair]
            # shares below the pair are mostly taken away so that the forged ones are tried first; 0..N-k others stay
            deleted = [sh for sh in others if sh < 2 * pair and ctx.rng.random() < 0.85]
            rest = [sh for sh in others if sh not in deleted]
            keep = ctx.rng.randrange(0, len(rest) + 1)
            deleted += sorted(ctx.rng.sample(rest, len(rest) - keep))
            trials.append({"pair": pair, "variant": variant, "deleted": sorted(deleted)})
        chain_rewrite_scenario(ctx, {"fmt": fmt, "k": k, "n": n, "seed": ctx.rng.randrange(1 << 30), "policy": policy,
                                     "maxseg": ctx.rng.choice([16, 24, 50]), "size": ctx.rng.choice([33, 90, 200]), "trials": trials})


# ----------------------------------------------------------------------------- tampering between two reads through one version object

def second_read_scenario(ctx, prm):
    """mv = get_best_readable_version() on a read-only node; one read through mv; then servers alter
    their shares (a header field -- for SDMF the IV is part of the signed header --, block data, a hash
    chain, ...); then a full and a ranged read through the SAME mv, and a fresh read.  Every read returns
    bytes of a published version (the right range of them) or fails."""
    import grid
    from allmydata.mutable import publish
    from allmydata.mutable.publish import MutableData
    from allmydata.interfaces import SDMF_VERSION, MDMF_VERSION
    from allmydata.util.consumer import MemoryConsumer
    fmt = SDMF_VERSION if prm["fmt"] == "SDMF" else MDMF_VERSION
    k, n = prm["k"], prm["n"]
    from allmydata.mutable.retrieve import Retrieve
    saved_seg = publish.DEFAULT_MUTABLE_MAX_SEGMENT_SIZE
    publish.DEFAULT_MUTABLE_MAX_SEGMENT_SIZE = prm["maxseg"]
    seen_decodes, ds_lines, ds_impls, ds_cases = [], [], [], []
    orig_decode = Retrieve._decode_blocks

    def decode_blocks(self, results, segnum):
        merged = {}
        for d_ in results:
            merged.update(d_)
        cached = list(self.servermap.proxies.values())
        seen_decodes.append((self.verinfo[2], [(r_.shnum, any(r_ is c_ for c_ in cached)) for r_ in self._active_readers],
                             list(merged.items())[0][1][1]))
        return orig_decode(self, results, segnum)
    Retrieve._decode_blocks = decode_blocks
    try:
        with grid.Runtime(seed=prm["seed"], policy=prm["policy"]) as rt:
            g = grid.Grid(grid.fresh_dir("c10e"), rt, num_servers=n, k=k, happy=1, n=n)
            try:
                c = g.clients[0]
                size = prm["size"]
                v1 = (b"version one, published by the write-cap holder. " * (size // 40 + 1))[:size]
                v2 = (b"version TWO, published by the write-cap holder. " * (size // 40 + 1))[:size]
                node = rt.wait(c.create_mutable_file(MutableData(v1), version=fmt))
                rt.wait(node.overwrite(MutableData(v2)))
                readcap = node.get_readonly_uri()
                files = {sh: p for (_i, sh, p) in g.share_files(node.get_storage_index())}
                pristine = {sh: open(p, "rb").read() for sh, p in files.items()}
                for ti, tr in enumerate(prm["trials"]):
                    for sh, p in files.items():
                        with open(p, "wb") as fh:
                            fh.write(pristine[sh])
                    mv = rt.wait(fresh_node(c, readcap).get_best_readable_version())
                    outcomes = []
                    del seen_decodes[:]

                    def one(label, thunk, lo, hi):
                        try:
                            got = rt.wait(thunk())
                        except grid.Stuck:
                            outcomes.append((label, "stuck", None))
                            return
                        except Exception as e:
                            outcomes.append((label, "err", type(e).__name__))
                            return
                        if isinstance(got, MemoryConsumer):
                            got = b"".join(got.chunks)
                        outcomes.append((label, "ok" if got in (v1[lo:hi], v2[lo:hi]) else "unpublished", got))
                    one("first", mv.download_to_data, 0, None)
                    for sh in tr["shares"]:
                        if sh not in files:
                            continue
                        raw = pristine[sh]
                        fl = share_fields(raw[DATA_OFFSET:])
                        if tr["field"] not in fl or fl[tr["field"]][1] <= fl[tr["field"]][0]:
                            continue
                        (a, b) = fl[tr["field"]]
                        a, b = a + DATA_OFFSET, b + DATA_OFFSET
                        if tr["how"] == "xor":
                            raw = raw[:a] + bytes(x ^ 0x5a for x in raw[a:b]) + raw[b:]
                        else:
                            pos = a + tr["pos"] % (b - a)
                            raw = raw[:pos] + bytes([raw[pos] ^ (1 << (tr["pos"] % 8))]) + raw[pos + 1:]
                        with open(files[sh], "wb") as fh:
                            fh.write(raw)
                    lo = tr["offset"] % size
                    hi = min(size, lo + 1 + tr["length"] % size)
                    one("second-full", mv.download_to_data, 0, None)
                    ndec = len(seen_decodes)
                    one("second-ranged", lambda: mv.read(MemoryConsumer(), lo, hi - lo), lo, hi)
                    if prm["fmt"] == "SDMF":
                        # the salt each SDMF segment was decrypted with, against the model: readers in activation order,
                        # cached or fresh, signed IV = 1, whatever else the share file holds now = 2
                        for (signed_iv, readers, used) in seen_decodes[1:ndec]:
                            toks = []
                            for (shnum, cached) in readers:
                                now = open(files[shnum], "rb").read()[DATA_OFFSET + 41:DATA_OFFSET + 57]
                                toks.append("%s:1:%d" % ("c" if cached else "f", 1 if now == signed_iv else 2))
                                if not cached:
                                    ctx.disagree("a Retrieve for a version the map update verified made a fresh slot reader (the model's "
                                                 "readers are the cached ones)", {"fmt": "SDMF", "shnum": shnum, "trial": tr}, "fresh", "cached")
                            ds_lines.append("ds " + " ".join(toks))
                            ds_impls.append("1" if used == signed_iv else "2")
                            ds_cases.append({"params": dict(prm, trials=prm["trials"][:ti + 1]), "readers": toks})
                    one("fresh", fresh_node(c, readcap).download_best_version, 0, None)
                    case = {"family": "second-read", "params": dict(prm, trials=prm["trials"][:ti + 1]), "fmt": prm["fmt"], "k": k, "n": n,
                            "tampered_shares": tr["shares"], "field": tr["field"], "how": tr["how"], "range": [lo, hi],
                            "outcomes": [(lb, st, (v if st == "err" else None)) for (lb, st, v) in outcomes]}
                    intact = n - len([sh for sh in tr["shares"] if sh in files])
                    for (lb, st, v) in outcomes:
                        if st == "unpublished":
                            ctx.violation("a read returned bytes that no write-cap holder published (%s read, shares altered after the first "
                                          "read through the same version object)" % lb, dict(case, read=lb, got=v.hex()[:80]),
                                          "forged-content-accepted:second-read-same-version-object" if lb.startswith("second")
                                          else "forged-content-accepted:" + lb + "-read")
                        elif st == "stuck":
                            ctx.violation("read never completed", dict(case, read=lb), "read-stuck:second-read")
                        elif st == "err" and lb == "first":
                            ctx.violation("untampered file not readable", dict(case, read=lb), "pristine-unreadable")
                        elif st == "err" and intact >= k and tr["field"] != "offsets":
                            ctx.violation("k intact shares of the newest version were reachable but the %s read failed" % lb,
                                          dict(case, read=lb), "newest-not-returned:second-read")
                    ctx.case(repr((prm["fmt"], k, n, prm["seed"], prm["policy"], ti, tuple(tr["shares"]), tr["field"], tr["how"])))
                    ctx.count("second-read:%s:%s:%s" % (prm["fmt"], tr["field"], "/".join(st for (_l, st, _v) in outcomes[1:3])))
            finally:
                g.close()
    finally:
        publish.DEFAULT_MUTABLE_MAX_SEGMENT_SIZE = saved_seg
        Retrieve._decode_blocks = orig_decode
    ctx.compare("salt handed to the decryptor (SDMF: the IV of the signed prefix)", ds_cases, ds_impls, ctx.model(ds_lines))


SECOND_READ_FIELDS = ["salt", "salt", "seqnum", "root_hash", "kN", "segsize", "datalen", "pubkey", "signature", "share_hash_chain",
                      "block_hash_tree", "share_data", "share_data", "enc_privkey"]


def second_read_corpus(ctx):
    tr = lambda shares, field, how="xor": {"shares": shares, "field": field, "how": how, "pos": 3, "offset": 7, "length": 39}   # noqa: E731
    second_read_scenario(ctx, {"fmt": "SDMF", "k": 2, "n": 4, "seed": 41, "policy": "fifo", "maxseg": 16, "size": 100,
                               "trials": [tr([0], "salt"), tr([0], "salt", "bit"), tr([0, 1], "salt"), tr([0], "share_data"),
                                          tr([0], "share_hash_chain"), tr([1], "seqnum", "bit"), tr([0], "datalen", "bit")]})
    second_read_scenario(ctx, {"fmt": "SDMF", "k": 3, "n": 5, "seed": 42, "policy": "lifo", "maxseg": 16, "size": 700,
                               "trials": [tr([0], "salt"), tr([0], "root_hash", "bit"), tr([0], "segsize", "bit")]})
    second_read_scenario(ctx, {"fmt": "MDMF", "k": 2, "n": 4, "seed": 43, "policy": "fifo", "maxseg": 16, "size": 100,
                               "trials": [tr([0], "share_data"), tr([0], "root_hash", "bit"), tr([0], "datalen", "bit"), tr([0, 1], "block_hash_tree")]})


def second_read_family(ctx, rounds):
    combos = [(f, p) for p in ("random", "fifo", "lifo") for f in ("SDMF", "SDMF", "MDMF")]
    for r in range(rounds):
        fmt, policy = combos[r % len(combos)]
        k, n = ctx.rng.choice([(2, 4), (3, 5), (1, 2), (2, 3), (3, 10)])
        trials = []
        for _ in range(5):
            cnt = ctx.rng.choice([1, 1, 1, 2, k])
            shares = [0] if ctx.rng.random() < 0.5 and cnt == 1 else sorted(ctx.rng.sample(range(n), min(cnt, n)))
            field = ctx.rng.choice(SECOND_READ_FIELDS)
            if field == "salt" and fmt != "SDMF":
                field = "share_data"
            trials.append({"shares": shares, "field": field, "how": ctx.rng.choice(["xor", "bit"]), "pos": ctx.rng.randrange(1 << 16),
                           "offset": ctx.rng.randrange(1 << 16), "length": ctx.rng.randrange(1 << 16)})
        second_read_scenario(ctx, {"fmt": fmt, "k": k, "n": n, "seed": ctx.rng.randrange(1 << 30), "policy": policy,
                                   "maxseg": ctx.rng.choice([16, 24, 50]), "size": ctx.rng.choice([33, 100, 700]), "trials": trials})


# ----------------------------------------------------------------------------- the map update's signature cache

_SC_KEYS = []


def signature_cache_cases(ctx, count, corpus=True, rng=None):
    """The real ServermapUpdater._got_signature_one_share (an updater object without its network side,
    a real ServerMap, a real RSA key pair and real signatures) fed sequences of shares: per share, was
    it entered into the servermap or rejected with CorruptShareError?  Compared with the model's cache."""
    from allmydata.crypto import rsa
    from allmydata.mutable.servermap import ServermapUpdater, ServerMap
    from allmydata.mutable.common import CorruptShareError
    rng = rng or ctx.rng
    if not _SC_KEYS:
        _SC_KEYS.append(rsa.create_signing_keypair(2048))
    (priv, pub) = _SC_KEYS[0]

    class _Node:
        def get_pubkey(self):
            return pub
    sigs = {}
    lines, impls, cases = [], [], []
    fixed = [["2:9:7:10:0:g", "2:9:7:9:0:b", "2:9:7:10:0:b", "2:9:7:10:1:b", "3:1:1:5:0:b"],          # C10-a: same seq/root/salt, other datalength
             ["2:9:7:10:0:b", "2:9:7:10:0:g", "2:9:7:10:0:b"]] if corpus else []
    for c in range(count + len(fixed)):
        if c < len(fixed):
            toks = fixed[c]
        else:
            base = [(rng.randrange(1, 3), rng.randrange(2), rng.randrange(2), rng.choice([9, 10]), rng.randrange(2)) for _ in range(3)]
            toks = []
            for _ in range(rng.randrange(1, 9)):
                v = rng.choice(base)
                toks.append("%d:%d:%d:%d:%d:%s" % (v + (rng.choice("ggb"),)))
        u = ServermapUpdater.__new__(ServermapUpdater)
        u._running = True
        u._valid_versions = set()
        u._node = _Node()
        u._servermap = ServerMap()
        u._servers_with_shares = set()
        u.log = lambda *a, **k: None
        out = []
        for i, t in enumerate(toks):
            (seq, root, salt, datalen, offs, g) = t.split(":")
            prefix = struct.pack(">BQ32s16sBBQQ", 0, int(seq), b"%032d" % int(root), b"%016d" % int(salt), 1, 1, 1, int(datalen))
            if g == "g":
                if prefix not in sigs:
                    sigs[prefix] = rsa.sign_data(priv, prefix)
                sig = sigs[prefix]
            else:
                if b"other" not in sigs:
                    sigs[b"other"] = rsa.sign_data(priv, b"some other message")
                sig = sigs[b"other"]
            raw = (int(seq), b"%032d" % int(root), b"%016d" % int(salt), 1, int(datalen), 1, 1, prefix,
                   {"signature": 100 + int(offs), "EOF": 900})
            try:
                u._got_signature_one_share((None, (True, raw), (True, sig), None, None), i, _StubServer(i), None)
                out.append("e")
            except CorruptShareError:
                out.append("r")
            # the statement on the real object: nothing enters the map without a signature over exactly its prefix
            if out[-1] == "e" and g == "b" and not any(tt.split(":")[:5] == t.split(":")[:5] and tt.endswith("g") for tt in toks[:i]):
                ctx.violation("the map update entered a share whose signed prefix was never verified", {"shares": toks, "index": i},
                              "unverified-prefix-entered:signature-cache")
        lines.append("sc v " + " ".join(toks))
        impls.append("".join(out))
        cases.append({"shares": toks})
        ctx.case(lines[-1] if "b" in "".join(t[-1] for t in toks) else None)
        ctx.count("sigcache:" + ("all-entered" if "r" not in out else "some-rejected"))
    ctx.compare("ServermapUpdater._got_signature_one_share: entered / rejected per share", cases, impls, ctx.model(lines))


# ----------------------------------------------------------------------------- what the signature covers / what is in the version identity

def header_field_cases(ctx):
    """Per share field (names from the driver): is its byte range inside the signed prefix of the real
    layout; is it a component of the real verinfo; and what a real map update by a fresh read-cap node
    does with a share in which one bit of exactly that field was flipped (rejected / entered under the
    identity of the intact shares / entered under an identity of its own).  SDMF and MDMF."""
    import grid
    from allmydata.mutable.publish import MutableData
    from allmydata.mutable.common import MODE_CHECK
    from allmydata.mutable.layout import SIGNED_PREFIX_LENGTH, MDMFHEADERWITHOUTOFFSETSSIZE
    from allmydata.interfaces import SDMF_VERSION, MDMF_VERSION
    mo = ctx.model(["hf names"])
    if mo is None or mo[0] == "bad-op":
        return
    names = mo[0].split()
    lines, impls, cases = [], [], []
    for fmtname, fmt in (("SDMF", SDMF_VERSION), ("MDMF", MDMF_VERSION)):
        with grid.Runtime(seed=23, policy="fifo") as rt:
            g = grid.Grid(grid.fresh_dir("c10hf"), rt, num_servers=4, k=2, happy=1, n=4)
            try:
                c = g.clients[0]
                node = rt.wait(c.create_mutable_file(MutableData(b"what does the signature cover? " * 3), version=fmt))
                files = {sh: (srv, p) for (srv, sh, p) in g.share_files(node.get_storage_index())}
                (srv0, path0) = files[0]
                raw = open(path0, "rb").read()
                fl = share_fields(raw[DATA_OFFSET:])
                plen = SIGNED_PREFIX_LENGTH if fmt == SDMF_VERSION else MDMFHEADERWITHOUTOFFSETSSIZE
                for name in names:
                    if name not in fl:
                        if name == "salt" and fmt == MDMF_VERSION:
                            continue                 # MDMF has no IV in the prefix
                        lines.append("hf " + name); impls.append("not-driven"); cases.append({"fmt": fmtname, "field": name})
                        continue
                    (a, b) = fl[name]
                    signed = b <= plen
                    pos = DATA_OFFSET + (b - 1 if name in ("offsets", "seqnum", "segsize", "datalen") else a)
                    bit = 0x01
                    with open(path0, "wb") as fh:
                        fh.write(raw[:pos] + bytes([raw[pos] ^ bit]) + raw[pos + 1:])
                    sm = rt.wait(fresh_node(c, node.get_readonly_uri()).get_servermap(MODE_CHECK))
                    with open(path0, "wb") as fh:
                        fh.write(raw)
                    vm = sm.make_versionmap()
                    mine = [v for v, shs in vm.items() if any(shn == 0 for (shn, _s, _t) in shs)]
                    others = [v for v, shs in vm.items() if any(shn != 0 for (shn, _s, _t) in shs)]
                    outcome = "rejected" if not mine else ("same" if mine[0] in others else "new")
                    # component of verinfo: the field's bytes appear in the tuple (prefix bytes / offsets) of an intact share
                    intact_v = others[0]
                    in_verinfo = signed or name == "offsets"
                    if name == "offsets":
                        table = raw[DATA_OFFSET + a:DATA_OFFSET + b]
                        vals = struct.unpack(">LLLLQQ" if fmt == SDMF_VERSION else ">QQQQQQQQ", table)
                        in_verinfo = sorted(vals) == sorted(o for (_nm, o) in intact_v[8])
                    elif signed:
                        in_verinfo = raw[DATA_OFFSET + a:DATA_OFFSET + b] in intact_v[7]
                    else:
                        in_verinfo = len(raw[DATA_OFFSET + a:DATA_OFFSET + b]) >= 8 and any(
                            isinstance(x, bytes) and raw[DATA_OFFSET + a:DATA_OFFSET + b][:16] in x for x in intact_v)
                    lines.append("hf " + name)
                    impls.append("signed=%s verinfo=%s map=%s" % (str(signed).lower(), str(bool(in_verinfo)).lower(), outcome))
                    cases.append({"fmt": fmtname, "field": name})
                    ctx.case("hf %s %s" % (fmtname, name))
                    ctx.count("header-field:%s:%s" % (outcome, "signed" if signed else "unsigned"))
            finally:
                g.close()
    ctx.compare("share fields: covered by the signature / part of verinfo / map update's reaction to an altered field", cases, impls, ctx.model(lines))


def fixed_minimal_corpus(ctx):
    """One minimal, fully fixed instance of each random family that is the only catcher of some past
    change (nothing here draws from ctx.rng): the VERIF_CORPUS_ONLY run ends after this."""
    import random as _random
    # signed prefix altered next to intact shares (servermap signature cache keyed too coarsely)
    for fmt, policy in (("SDMF", "fifo"), ("MDMF", "lifo"), ("SDMF", "random")):
        prefix_alteration_scenario(ctx, {"fmt": fmt, "k": 2, "n": 4, "servers": 4, "seed": 21, "policy": policy, "size": 20,
                                         "trials": [[0], [3], [1], [2]]})
    # mutually consistent forgeries (share hash tree must stay tied to the signed root), and a forged share met
    # when its leaf value is already known so that no chain is requested (the leaf check must not depend on one)
    t = lambda forged, damaged, jc: {"jclass": jc, "forged": forged, "damaged": damaged, "dmgpos": 3, "garbage": False,      # noqa: E731
                                      "fresh_salts": False, "evil": 5}
    forgery_scenario(ctx, {"fmt": "SDMF", "k": 2, "n": 4, "servers": 4, "seed": 31, "policy": "fifo", "maxseg": 16, "size": 33,
                           "trials": [t([0, 1, 2], None, "k+1"), t([0, 1, 2, 3], None, "N"), t([1, 2], 0, "k"), t([0], None, "k-1")]})
    forgery_scenario(ctx, {"fmt": "MDMF", "k": 3, "n": 5, "servers": 5, "seed": 32, "policy": "lifo", "maxseg": 24, "size": 90,
                           "trials": [t([0, 1, 2, 3], None, "k+1"), t([3], 1, "single"), t([4], 0, "single"), t([0, 1, 2, 3, 4], 2, "N")]})
    forgery_scenario(ctx, {"fmt": "SDMF", "k": 3, "n": 5, "servers": 5, "seed": 33, "policy": "fifo", "maxseg": 24, "size": 90,
                           "trials": [t([3], 1, "single"), t([3, 4], 0, "k-1"), t([2, 3, 4], 0, "k")]})
    # more servers than shares, one share with a valid signature and a truncated body (read-only retry must survey all servers)
    damaged_share_among_few_servers(ctx, 8, rng=_random.Random("c10-fixed-few-servers"))
    # several shares per server, one of them bad (only that share may be dropped)
    shared_server_family(ctx, 0, corpus=True)
    retrieve_loop_cases(ctx, 0, corpus=True)
    retrieve_tree_cases(ctx, 0, corpus=True)
    signature_cache_cases(ctx, 0, corpus=True)
    header_field_cases(ctx)


def run(ctx):
    import common
    common.setup_impl_path()
    rc = (ctx.replay or {}).get("case") or {}
    if rc.get("family") == "consistent-forgery":
        forgery_scenario(ctx, rc["params"])
        return
    if rc.get("family") == "second-read":
        second_read_scenario(ctx, rc["params"])
        return
    if rc.get("family") == "chain-rewritten":
        chain_rewrite_scenario(ctx, rc["params"])
        return
    if rc.get("family") == "shared-server":
        shared_server_scenario(ctx, rc["params"])
        return
    if rc.get("family") == "prefix-alteration":
        prefix_alteration_scenario(ctx, rc["params"])
        return
    offset_table_corpus(ctx)
    two_verinfos_corpus(ctx)
    chain_rewrite_corpus(ctx)
    second_read_corpus(ctx)
    fixed_minimal_corpus(ctx)
    if os.environ.get("VERIF_CORPUS_ONLY"):
        return
    consistent_forgery_family(ctx, ctx.budget(12, 240))
    retrieve_tree_cases(ctx, ctx.budget(300, 20000), corpus=False)
    versionmap_cases(ctx, ctx.budget(300, 20000))
    signature_cache_cases(ctx, ctx.budget(150, 5000), corpus=False)
    retrieve_loop_cases(ctx, ctx.budget(300, 20000), corpus=False)
    prefix_alteration_family(ctx, ctx.budget(6, 120))
    shared_server_family(ctx, ctx.budget(6, 120), corpus=False)
    chain_rewrite_family(ctx, ctx.budget(8, 160))
    second_read_family(ctx, ctx.budget(6, 120))
    single_share_cases(ctx, ctx.budget(3, 60))
    damaged_share_among_few_servers(ctx, ctx.budget(14, 200))
    campaign(ctx, ctx.budget(8, 300))
