"""C32 — servers are ordered consistently and upload permission is enforced (storage_client.py, mutable/publish.py)."""
import base64
import contextlib
import hashlib
import io
import json
import os
from datetime import datetime, timedelta, timezone

ID = "C32"
LEAN_PROPS = "Tahoe.Props.C32"
DRIVER = "C32"
GENERATED = []
SOURCES = ["src/allmydata/storage_client.py", "src/allmydata/util/hashutil.py", "src/allmydata/mutable/publish.py",
           "src/allmydata/grid_manager.py"]
DESIGN_REF = "DESIGN.md §2 C32"
TECHNIQUE = ("Lean 4 theorems over executable models of StorageFarmBroker.get_servers_for_psi (with SHA-1 of storage index + seed computed in "
             "Lean), of the broker's announcement table (_got_announcement: latest announcement per server id) composed with the C33 "
             "certificate verifier, and of Publish.update_goal; differential correspondence on real StorageFarmBroker / NativeStorageServer / "
             "Publish objects configured through tahoe.cfg text (StorageClientConfig.from_node_config) with really signed grid-manager "
             "certificates, as histories on long-lived objects under a stepping clock and as re-announcement histories through the real "
             "_got_announcement; monitor written from the statement (two brokers agree; preferred first then SHA-1(psi+seed); upload list = "
             "servers whose latest announcement holds a currently valid certificate)")
LEVEL_TEXT = ("14 theorems in Tahoe.Props.C32, for all server lists, preferred lists, storage indexes, announcement histories, keys and times: "
              "order_is_function_of_set, preferred_is_a_set, order_is_function_of_psi_and_seeds (same order for every client), preferred_first, "
              "ordered_by_sha1_of_psi_and_seed (preferred first, then SHA-1 of storage index + seed), upload_only_permitted, "
              "upload_filter_applies_to_preferred, upload_candidates_hold_valid_certificate_now, currently_valid_server_is_offered, "
              "broker_holds_latest_announcement, upload_set_depends_only_on_latest, upload_candidates_follow_latest_announcement (uploads only "
              "to servers that currently hold a valid certificate, end to end over certificates, time and re-announcements), "
              "publish_goal_only_permitted, publish_new_shares_only_permitted (mutable publish).  Tied to storage_client.py / publish.py / "
              "hashutil.py by the driver ops psi, psib (SHA-1 computed by the model), hist (announcement histories) and goal on every query of "
              "the seeded histories.")
LEVEL_NOTE = ("Lean kernel + standard axioms only.  SHA-1 is the executable Tahoe/Base/Sha256.lean implementation (FIPS vectors as #guard, "
              "compared with the code on every psib line); that Python's lexicographic order on equal-length digests is the order of the "
              "big-endian numbers is assumed.  The certificate verdict is C33's model (Ed25519 symbolic, JSON/ISO-8601 parsing a parameter). "
              "The peers.preferred defect found here (configured ids kept as str) is repaired in /repo (fixes/C32-preferred-bytes.diff, "
              "committed).  Not covered: connection management (is_connected is an input), HTTPNativeStorageServer, the immutable "
              "uploader's own use of the list, equal sort keys (order then follows the frozenset iteration order; reproduced, no theorem).")
RULE = ("seeded HISTORIES on long-lived objects: two real StorageFarmBroker objects (same server set, different insertion order, tahoe.cfg "
        "preferred list and grid-manager keys) and their NativeStorageServer objects are queried repeatedly (upload_permitted, "
        "get_servers_for_psi with both for_upload values and fresh storage indexes, Publish.update_goal) while a patched clock steps "
        "forward across every certificate expiry instant (one microsecond before, exactly at, one microsecond after, and beyond); every "
        "answer is compared with the documented predicate at the current time and with the driver (psi: digest handed over, psib: SHA-1 "
        "computed by the model); a case is one call; distinct = distinct (driver line, clock value); non-trivial = at least two servers are "
        "connected.  Plus announcement HISTORIES through the real StorageFarmBroker._got_announcement: the same server ids re-announce with "
        "changed certificate lists (dropped / expired / foreign-signed / other server's / tampered / newly gained / renewed; FURL, NURLs and "
        "seed unchanged) and after every step the full order, the upload order, every upload_permitted() and update_goal are compared with "
        "the model evaluated on each server's LATEST announcement (hist lines).  A fixed corpus (preferred peers from tahoe.cfg, expiry "
        "walk, preferred + share-holding server losing its certificate, two re-announcement histories) runs first; VERIF_CORPUS_ONLY=1 runs "
        "only that")
TRUSTED = ["lean/Tahoe/StorageClient/Model.lean, Upload.lean, Permute.lean are hand transcriptions of get_servers_for_psi, _got_announcement / _make_storage_server / upload_permitted and update_goal (sorted() modelled as a stable insertion sort)",
           "hashlib.sha1 for the psi lines (digest handed to the model); on the psib lines the model computes SHA-1 itself, so Tahoe/Base/Sha256.lean is compared with hashutil.permute_server_hash through the code's own order",
           "the symbolic certificate tokens of the hist lines are produced by harness/props/c33.py (Tokeniser / classify)",
           "the iteration order of the frozenset of connected servers is read back from get_connected_servers() (only matters for equal sort keys)"]
ASSUMPTIONS = ["servers enter through StorageFarmBroker.test_add_rref / _make_storage_server, or through _got_announcement with a stand-in Tub (no Tub can be created in this sandbox: pyOpenSSL lacks X509Req), and are marked connected the way test_add_rref does; connection management is not exercised",
               "the clock is allmydata.grid_manager.current_datetime_with_zone, replaced by a stepping clock for the duration of the run (the broker passes no now_fn, so this is the clock the verifiers read); certificates have no not-before field, so a server cannot become permitted later without a new announcement",
               "Publish objects are built with Publish.__new__ and only the attributes update_goal reads",
               "Ed25519 and JSON / ISO-8601 parsing as in C33 (explicit hypothesis / parameter of the model)"]

FURL = "pb://62ubehyunnyhzs7r6vdonnm2hpi52w6y@127.0.0.1:1/x"
T0 = datetime(2030, 1, 1, 12, 0, 0, tzinfo=timezone.utc)
CLOCK = [T0]


def b32(b):
    return base64.b32encode(b).decode("ascii").lower().rstrip("=")


def keypair(seed_hex):
    from allmydata.crypto import ed25519
    return ed25519.signing_keypair_from_string(b"priv-v0-" + b32(bytes.fromhex(seed_hex)).encode("ascii"))


def gen_case(rng):
    n = rng.choice([1, 2, 3, 4, 5, 6, 8])
    gm_seeds = [rng.randbytes(32).hex() for _ in range(3)]
    gm_keys = [] if rng.random() < 0.2 else rng.sample(range(3), rng.choice([1, 1, 2]))
    shared_seed = b32(rng.randbytes(rng.choice([4, 20])))
    servers = []
    exps = []
    for i in range(n):
        r = rng.random()
        perm = None if r < 0.4 else (shared_seed if r < 0.5 else b32(rng.randbytes(rng.choice([1, 8, 20, 32]))))
        certs = []
        for _ in range(rng.choice([0, 1, 1, 2, 3])):
            kind = rng.choice(["good", "good", "good", "good", "expired", "foreign", "other-server", "tampered"])
            if kind == "other-server" and n < 2:
                kind = "good"
            g = rng.choice(gm_keys) if (gm_keys and kind != "foreign") else rng.randrange(3)
            if kind == "foreign":
                others = [x for x in range(3) if x not in gm_keys]
                g = rng.choice(others) if others else g
            # expiry as microseconds after T0 (the clock starts at T0 and only moves forward)
            if kind == "expired":
                exp = -rng.choice([1, 10**6, 86400 * 10**6, 400 * 86400 * 10**6])
            elif exps and rng.random() < 0.25:
                exp = rng.choice(exps) + rng.choice([0, 1, -1])
            else:
                exp = rng.choice([1, 2, 1000, 10**6, 3600 * 10**6, 86400 * 10**6, 400 * 86400 * 10**6]) * rng.choice([1, 1, 3, 7])
            if kind != "expired" and exp > 0:
                exps.append(exp)
            certs.append({"kind": kind, "gm": g, "for": i if kind != "other-server" else (i + 1) % max(n, 2), "exp": exp})
        servers.append({"seed": rng.randbytes(32).hex(), "perm": perm, "connected": rng.random() < 0.85, "certs": certs,
                        "nickname": "srv%d" % i})
    pref = []
    if rng.random() < 0.6:
        pref = [("s", x) for x in rng.sample(range(n), rng.randrange(0, min(n, 3) + 1))]
        if rng.random() < 0.3:
            pref.insert(rng.randrange(len(pref) + 1), ("x", "v0-" + b32(rng.randbytes(32))))
    orders = [list(range(n)), list(range(n))]
    rng.shuffle(orders[0])
    rng.shuffle(orders[1])
    # the clock: starts at T0, then walks over expiry instants (before / exactly at / after), strictly forward
    times = {0}
    for e in rng.sample(sorted(set(exps)), min(len(set(exps)), 3)):
        for d in rng.sample([-1, 0, 1, 5], rng.choice([2, 3, 4])):
            if e + d >= 0:
                times.add(e + d)
    if exps:
        times.add(max(exps) + rng.choice([1, 10**9]))
    times.add(rng.randrange(0, 10**7))
    steps = []
    for t in sorted(times):
        total = rng.choice([1, 2, 3, 5, 10])
        goal = sorted(set((rng.randrange(n), rng.randrange(total)) for _ in range(rng.choice([0, 0, 1, 2, 4]))))
        bad = sorted(rng.sample(range(n), rng.choice([0, 0, 0, 1, min(2, n)])))
        steps.append({"t": t, "psi": rng.randbytes(16).hex(),
                      "goal": {"total": total, "goal": [list(x) for x in goal], "bad": bad} if rng.random() < 0.6 else None})
    return {"gm_seeds": gm_seeds, "gm_keys": gm_keys, "servers": servers, "preferred": [list(p) for p in pref], "orders": orders,
            "steps": steps}


class World:
    """The real, long-lived objects of one history."""

    def __init__(self, case, workdir):
        from allmydata.crypto import ed25519
        from allmydata.node import config_from_string
        from allmydata.client import _valid_config
        from allmydata.storage_client import StorageClientConfig
        self.case = case
        self.gms = [keypair(s) for s in case["gm_seeds"]]
        self.skeys = [keypair(s["seed"]) for s in case["servers"]]
        self.sids = [ed25519.string_from_verifying_key(pk)[len(b"pub-"):] for (_, pk) in self.skeys]
        names = []
        for kind, v in case["preferred"]:
            names.append(self.sids[v].decode("ascii") if kind == "s" else v)
        txt = "[client]\n"
        if names:
            txt += "peers.preferred = %s\n" % ", ".join(names)
        if case["gm_keys"]:
            txt += "[grid_managers]\n" + "".join(
                "gm%d = %s\n" % (g, ed25519.string_from_verifying_key(self.gms[g][1]).decode("ascii")) for g in case["gm_keys"])
        self.cfg = config_from_string(os.path.join(workdir, "no-such-basedir"), "tub.port", txt, _valid_config())
        self.scc = StorageClientConfig.from_node_config(self.cfg)
        self.anns = [self.announcement(i) for i in range(len(case["servers"]))]
        self.seeds = []
        for i, s in enumerate(case["servers"]):
            raw = s["perm"].upper() if s["perm"] is not None else self.sids[i][3:].decode("ascii").upper()
            self.seeds.append(base64.b32decode(raw + "=" * (-len(raw) % 8)))

    def permitted(self, i, t):
        """The documented predicate (C33) at clock value t, from the construction metadata only."""
        case = self.case
        return (not case["gm_keys"]) or any(c["kind"] in ("good", "expired") and c["gm"] in case["gm_keys"] and c["for"] == i and c["exp"] > t
                                            for c in case["servers"][i]["certs"])

    def announcement(self, i):
        from allmydata.crypto import ed25519
        s = self.case["servers"][i]
        ann = {"anonymous-storage-FURL": FURL, "nickname": s["nickname"], "service-name": "storage"}
        if s["perm"] is not None:
            ann["permutation-seed-base32"] = s["perm"]
        certs = []
        for c in s["certs"]:
            exp = T0 + timedelta(microseconds=c["exp"])
            target = self.sids[c["for"] % len(self.sids)]
            body = json.dumps({"expires": exp.isoformat(), "public_key": "pub-" + target.decode("ascii"), "version": 1},
                              separators=(",", ":"), sort_keys=True).encode("utf-8")
            sig = ed25519.sign_data(self.gms[c["gm"]][0], body)
            if c["kind"] == "tampered":
                body = body.replace(b'"version":1', b'"version":1 ')       # bytes changed after signing
            certs.append({"certificate": body.decode("utf-8"), "signature": b32(sig)})
        if certs:
            ann["grid-manager-certificates"] = certs
        return ann

    def broker(self, order):
        from allmydata.storage_client import StorageFarmBroker
        sb = StorageFarmBroker(True, None, self.cfg, self.scc)
        for i in order:
            if self.case["servers"][i]["connected"]:
                sb.test_add_rref(self.sids[i], object(), self.anns[i])
            else:
                s = sb._make_storage_server(self.sids[i], {"ann": dict(self.anns[i])})
                sb.servers[self.sids[i]] = s
        return sb

    def idx(self, server):
        return self.sids.index(server.get_serverid())


def pref_ids(w):
    res = []
    unknown = 100
    for kind, v in w.case["preferred"]:
        if kind == "s":
            res.append(v)
        else:
            res.append(unknown)
            unknown += 1
    return res


def psi_line(w, sb, psi, fu, t):
    conn = [w.idx(s) for s in sb.get_connected_servers()]
    rest = [i for i in range(len(w.sids)) if i not in conn]
    toks = []
    for i in conn + rest:
        toks.append("%d:%d:%d:%s" % (i, 1 if w.case["servers"][i]["connected"] else 0, 1 if w.permitted(i, t) else 0,
                                     hashlib.sha1(psi + w.seeds[i]).hexdigest()))
    return "psi %s %d %s" % (",".join(map(str, pref_ids(w))) or "-", 1 if fu else 0, " ".join(toks))


def stale_sig(w, i, t, base):
    """signature of a wrongly offered server: was it permitted earlier in this history (certificate expired since)?"""
    if w.permitted(i, 0) and not w.permitted(i, t):
        return base + ":stale-after-expiry"
    kinds = sorted(set(c["kind"] for c in w.case["servers"][i]["certs"])) or ["no-cert"]
    return base + ":" + "+".join(kinds)


def monitor_psi(ctx, w, case, step, psi, fu, t, a_ids, b_ids):
    n = len(w.sids)
    prefs = [v for (k, v) in case["preferred"] if k == "s"]
    key = lambda i: (i not in prefs, hashlib.sha1(psi + w.seeds[i]).digest())
    eligible = [i for i in range(n) if case["servers"][i]["connected"] and (not fu or w.permitted(i, t))]
    distinct = len(set(key(i) for i in eligible)) == len(eligible)
    tag = {"step": step, "t": t, "psi": psi.hex(), "for_upload": fu}
    for name, ids in (("A", a_ids), ("B", b_ids)):
        if fu:
            extra = [i for i in ids if not w.permitted(i, t)]
            missing = [i for i in eligible if i not in ids]
            if extra:
                ctx.violation("for_upload list contains a server without a currently valid grid-manager certificate (clock T0+%dus)" % t,
                              dict(case, at=tag), stale_sig(w, extra[0], t, "upload-filter:unpermitted-included"))
            if missing:
                ctx.violation("for_upload list drops a server holding a valid grid-manager certificate", dict(case, at=tag),
                              "upload-filter:permitted-dropped")
            if extra or missing:
                continue
        if sorted(ids) != sorted(eligible):
            ctx.violation("get_servers_for_psi does not return exactly the connected servers", dict(case, at=tag), "membership-wrong")
            continue
        keys = [key(i) for i in ids]
        if keys != sorted(keys):
            by_hash_only = [k[1] for k in keys] == sorted(k[1] for k in keys)
            pref_matter = len(set(k[0] for k in keys)) > 1
            sig = "preferred-from-tahoe-cfg-ignored" if (by_hash_only and pref_matter) else "order-not-preferred-then-hash"
            ctx.violation("servers are not ordered preferred-first then by SHA-1(psi + seed)", dict(case, at=tag), sig)
    if distinct and a_ids != b_ids:
        ctx.violation("two clients with the same server set (different insertion order) computed different orders", dict(case, at=tag),
                      "clients-disagree")
    if not distinct:
        ctx.count("tie-in-sort-keys")


def run_case(ctx, case, workdir, lines, impl, cases, canon):
    from allmydata.mutable.publish import Publish
    from allmydata.mutable.common import NotEnoughServersError
    CLOCK[0] = T0
    w = World(case, workdir)
    with contextlib.redirect_stdout(io.StringIO()):     # create_grid_manager_verifier print()s every failed signature
        A, B = w.broker(case["orders"][0]), w.broker(case["orders"][1])
    nconn = sum(1 for s in case["servers"] if s["connected"])
    byidx = {w.idx(s): s for s in A.servers.values()}
    n = len(w.sids)
    for si, st in enumerate(case["steps"]):
        t = st["t"]
        CLOCK[0] = T0 + timedelta(microseconds=t)
        psi = bytes.fromhex(st["psi"])
        at_expiry = any(c["exp"] == t for s in case["servers"] for c in s["certs"])
        ctx.count("clock:" + ("start" if t == 0 else "at-an-expiry-instant" if at_expiry else "other"))
        # every long-lived server object, asked again at the current time
        for sb in (A, B):
            for s in sb.servers.values():
                i = w.idx(s)
                got, want = s.upload_permitted(), w.permitted(i, t)
                ctx.count("upload_permitted:%s" % want)
                if got is not want:
                    sig = stale_sig(w, i, t, "upload-permitted-wrong:granted") if got else "upload-permitted-wrong:denied"
                    ctx.violation("upload_permitted() = %r differs from the documented certificate predicate at clock T0+%dus" % (got, t),
                                  dict(case, at={"step": si, "t": t, "server": i}), sig)
        for fu in (False, True):
            outs = []
            for sb in (A, B):
                ids = [w.idx(s) for s in sb.get_servers_for_psi(psi, for_upload=fu)]
                outs.append(ids)
                lines.append(psi_line(w, sb, psi, fu, t))
                impl.append(",".join(map(str, ids)) or "-")
                cases.append(dict(case, at={"step": si, "t": t, "for_upload": fu}))
                canon.append(False)
                ctx.case((lines[-1], t) if nconn >= 2 else None)
                ctx.count("psi:for_upload=%d" % fu)
            # the same query with the SHA-1 computed by the model from storage index and permutation seeds
            conn = [w.idx(s) for s in A.get_connected_servers()]
            lines.append("psib %s %d %s %s" % (",".join(map(str, pref_ids(w))) or "-", 1 if fu else 0, psi.hex(), " ".join(
                "%d:%d:%d:%s" % (i, 1 if case["servers"][i]["connected"] else 0, 1 if w.permitted(i, t) else 0, w.seeds[i].hex())
                for i in conn + [j for j in range(n) if j not in conn])))
            impl.append(",".join(map(str, outs[0])) or "-")
            cases.append(dict(case, at={"step": si, "t": t, "for_upload": fu, "sha1": "model"}))
            canon.append(False)
            ctx.count("psib")
            monitor_psi(ctx, w, case, si, psi, fu, t, outs[0], outs[1])
        g = st["goal"]
        if g is None:
            continue
        full = list(A.get_servers_for_psi(psi))
        p = Publish.__new__(Publish)
        p._log_number = None
        p._new_seqnum = 1
        p._first_write_error = None
        p.total_shares = g["total"]
        p.goal = set((byidx[i], sh) for (i, sh) in g["goal"])
        p.bad_servers = set(byidx[i] for i in g["bad"])
        p.full_serverlist = list(full)
        before = set(p.goal)
        tag = dict(g, step=si, t=t)
        try:
            p.update_goal()
            res = sorted((w.idx(s), sh) for (s, sh) in p.goal)
            out = ",".join("%d.%d" % x for x in res) or "-"
            for (s, sh) in p.goal - before:
                i = w.idx(s)
                if i in g["bad"]:
                    ctx.violation("update_goal places a share on a bad server", dict(case, at=tag), "publish-goal:bad-server")
                elif not w.permitted(i, t):
                    ctx.violation("update_goal places a share on a server without a currently valid grid-manager certificate (clock T0+%dus)" % t,
                                  dict(case, at=tag), stale_sig(w, i, t, "publish-goal:unpermitted-server"))
            if set(sh for (_, sh) in p.goal) != set(range(g["total"])):
                ctx.violation("update_goal left a share without a home", dict(case, at=tag), "publish-goal:homeless-share")
        except NotEnoughServersError:
            out = "none"
            if any(w.permitted(w.idx(s), t) and w.idx(s) not in g["bad"] for s in full) and \
                    set(sh for (i, sh) in g["goal"] if i not in g["bad"]) != set(range(g["total"])):
                ctx.violation("update_goal found no server although a permitted, non-bad server is connected", dict(case, at=tag),
                              "publish-goal:permitted-server-unused")
        toks = ["%d:1:%d:0" % (w.idx(s), 1 if w.permitted(w.idx(s), t) else 0) for s in full]
        lines.append(" ".join(("goal %d %s %s %s" % (g["total"], ",".join("%d.%d" % tuple(x) for x in g["goal"]) or "-",
                                                      ",".join(map(str, g["bad"])) or "-", " ".join(toks))).split()))
        impl.append(out)
        cases.append(dict(case, at=tag))
        canon.append(True)
        ctx.case((lines[-1], t) if nconn >= 2 else None)
        ctx.count("goal:" + ("none" if out == "none" else "ok"))
    ctx.count("servers:%d" % n)
    ctx.count("gm-keys:%d" % len(case["gm_keys"]))
    ctx.count("preferred:%d" % len(case["preferred"]))
    ctx.count("steps:%d" % len(case["steps"]))


# ----------------------------------------------------------------------------- announcement histories (real _got_announcement)

AH = 3600 * 10**6
A0 = 1_700_000_000_000_000        # clock base of the announcement histories (microseconds since the epoch)


def ann_specs(rng, what, i, n, keys, t):
    """certificate list of a (re-)announcement of server i: specs {k, gm, for, exp}"""
    g = lambda: rng.choice(keys) if keys else rng.randrange(5)
    foreign = [x for x in range(5) if x not in keys] or [0]
    valid = lambda exp: {"k": "valid", "gm": g(), "for": i, "exp": exp}
    if what == "valid":
        return [valid(t + rng.choice([AH, 2 * AH, 10 * AH]))]
    if what == "none":
        return []
    if what == "expired":
        return [valid(t - rng.choice([0, 1, AH]))]
    if what == "foreign":
        return [{"k": "valid", "gm": rng.choice(foreign), "for": i, "exp": t + AH}]
    if what == "other-server":
        return [{"k": "valid", "gm": g(), "for": (i + 1) % n, "exp": t + AH}] if n > 1 else []
    if what == "tampered":
        return [{"k": "tampered", "gm": g(), "for": i, "exp": t + AH}]
    if what == "short":
        return [valid(t + rng.choice([1, 5, 1000]))]
    return [valid(t - 5), {"k": "valid", "gm": rng.choice(foreign), "for": i, "exp": t + AH}, valid(t + AH)]     # "mixed"


def gen_ann_history(rng, fixed=None):
    n = fixed or rng.choice([2, 3, 4, 6])
    keys = rng.sample(range(5), rng.choice([1, 1, 2])) if (fixed or rng.random() < 0.9) else []
    kinds = ["valid", "none", "expired", "foreign", "other-server", "tampered", "short", "mixed"]
    t = A0
    events = [["t", t]]
    for i in range(n):
        events.append(["ann", i, ann_specs(rng, ["valid", "other-server", "valid", "foreign"][i % 4] if fixed else rng.choice(kinds), i, n, keys, t), "srv%d" % i])
    events.append(["q", rng.randbytes(16).hex()])
    for step in range(fixed and 8 or rng.choice([3, 5, 8])):
        if rng.random() < 0.4:
            t += rng.choice([1, 1000, AH, AH + 1, 3 * AH])
            events.append(["t", t])
        i = step % n if fixed else rng.randrange(n)
        # the same server id re-announces: certificates dropped / expired / foreign-signed / newly gained / renewed;
        # FURL, NURLs and permutation seed never change; the nickname changes only sometimes
        what = (["none", "valid", "expired", "other-server", "foreign", "valid", "short", "mixed"][step] if fixed else rng.choice(kinds))
        events.append(["ann", i, ann_specs(rng, what, i, n, keys, t), "srv%d" % i if rng.random() < 0.7 else "srv%d-%d" % (i, step)])
        events.append(["q", rng.randbytes(16).hex()])
        if rng.random() < 0.5:
            total = rng.choice([2, 3, 5])
            events.append(["goal", {"total": total, "goal": [list(x) for x in sorted(set((rng.randrange(n), rng.randrange(total)) for _ in range(rng.choice([0, 1, 3]))))],
                                    "bad": sorted(rng.sample(range(n), rng.choice([0, 0, 1])))}])
    return {"kind": "ann-history", "gm_seeds": [("%02x" % (0x31 + j) * 32) if fixed else rng.randbytes(32).hex() for j in range(5)], "keys": keys,
            "srv_seeds": [("%02x" % (0x71 + j) * 32) if fixed else rng.randbytes(32).hex() for j in range(n)],
            "preferred": rng.sample(range(n), rng.choice([0, 1, 2])) if rng.random() < 0.6 else [], "events": events}


def run_ann_history(ctx, case, workdir, lines, impl, cases, canon):
    from twisted.application import service
    from allmydata.crypto import ed25519
    from allmydata.node import config_from_string
    from allmydata.client import _valid_config
    from allmydata.storage_client import StorageClientConfig, StorageFarmBroker
    from allmydata.mutable.publish import Publish
    from allmydata.mutable.common import NotEnoughServersError
    from props import c33

    class Reconnector:
        def stopConnecting(self):
            pass

        def reset(self):
            pass

    class StandInTub(service.MultiService):
        def connectTo(self, furl, cb):
            return Reconnector()

    gms = c33._keys(case["gm_seeds"])
    keys = case["keys"]
    srv_strings = [ed25519.string_from_verifying_key(pk) for (_, pk) in c33._keys(case["srv_seeds"])]
    sids = [x[len(b"pub-"):] for x in srv_strings]
    n = len(sids)
    seeds = []
    for sid in sids:
        raw = sid[3:].decode("ascii").upper()
        seeds.append(base64.b32decode(raw + "=" * (-len(raw) % 8)))
    txt = "[client]\n"
    if case["preferred"]:
        txt += "peers.preferred = %s\n" % ", ".join(sids[i].decode("ascii") for i in case["preferred"])
    if keys:
        txt += "[grid_managers]\n" + "".join("gm%d = %s\n" % (g, ed25519.string_from_verifying_key(gms[g][1]).decode("ascii")) for g in keys)
    cfg = config_from_string(os.path.join(workdir, "no-such-basedir"), "tub.port", txt, _valid_config())
    sb = StorageFarmBroker(True, lambda overrides: StandInTub(), cfg, StorageClientConfig.from_node_config(cfg))
    hist = []                   # every announcement so far: (server, certificate dicts)
    latest = {}                 # server -> (certificate dicts, time of that announcement)
    sigcache = {}
    t = A0
    CLOCK[0] = c33.dt_of("a%d" % t)

    def cert_dicts(i, specs):
        return c33.cert_dicts({"versions": [[specs] if j == i else [[]] for j in range(n)]}, gms, srv_strings, i, 0)

    def permitted(i, when):
        if not keys:
            return True
        return any(c["meta"]["intact"] and c["meta"]["signer"] in keys and c["meta"]["server"] == i and c["meta"]["exp"] > when
                   for c in latest.get(i, ([], 0))[0])

    def ever_differently(i, when):
        """some earlier announcement of this server would give the other verdict now (the stale-announcement signature)"""
        mine = [cs for (j, cs) in hist if j == i][:-1]
        return any(any(c["meta"]["intact"] and c["meta"]["signer"] in keys and c["meta"]["server"] == i and c["meta"]["exp"] > when for c in cs)
                   != permitted(i, when) for cs in mine)

    def hist_line(fu, psi):
        tk = c33.Tokeniser(gms, srv_strings, sigcache)
        for (_, cs) in hist:
            tk.learn(cs)
        groups = ["S %d 1 %s %s" % (i, hashlib.sha1(psi + seeds[i]).hexdigest(), " ".join(tk.tok(c) for c in cs)) for (i, cs) in hist]
        return " ".join(("hist %s %s %d a%d %s" % (",".join(map(str, keys)) or "-", ",".join(map(str, case["preferred"])) or "-",
                                                   1 if fu else 0, t, " ".join(groups))).split())

    for ei, ev in enumerate(case["events"]):
        if ev[0] == "t":
            t = ev[1]
            CLOCK[0] = c33.dt_of("a%d" % t)
        elif ev[0] == "ann":
            i, specs, nick = ev[1], ev[2], ev[3]
            cs = cert_dicts(i, specs)
            ann = {"service-name": "storage", "anonymous-storage-FURL": FURL, "nickname": nick}
            if cs:
                ann["grid-manager-certificates"] = [{"certificate": bytes.fromhex(c["certificate"]).decode("utf-8"),
                                                     "signature": b32(bytes.fromhex(c["signature"]))} for c in cs]
            old = sb.servers.get(sids[i])
            with contextlib.redirect_stdout(io.StringIO()):
                sb._got_announcement(sids[i], ann)
            srv = sb.servers[sids[i]]
            srv._rref = object()          # as StorageFarmBroker.test_add_rref does
            srv._is_connected = True
            changed = (i not in latest) or ([(c["certificate"], c["signature"]) for c in latest[i][0]] != [(c["certificate"], c["signature"]) for c in cs])
            ctx.count("ann-history:" + ("first" if old is None else "certificates-changed" if changed else "certificates-same") +
                      ("" if old is None else ":object-replaced" if srv is not old else ":object-kept"))
            hist.append((i, cs))
            latest[i] = (cs, t)
        elif ev[0] == "q":
            psi = bytes.fromhex(ev[1])
            tag = {"event": ei, "t": t, "psi": ev[1]}
            for s in sb.servers.values():
                i = sids.index(s.get_serverid())
                got, want = s.upload_permitted(), permitted(i, t)
                if got is not want:
                    ctx.violation("upload_permitted() = %r although the server's latest announcement says %r at the current time" % (got, want),
                                  dict(case, at=dict(tag, server=i)),
                                  "upload-permitted-wrong:" + ("granted" if got else "denied") + (":stale-announcement" if ever_differently(i, t) else ""))
            prefs = list(case["preferred"])
            for fu in (False, True):
                ids = [sids.index(s.get_serverid()) for s in sb.get_servers_for_psi(psi, for_upload=fu)]
                lines.append(hist_line(fu, psi))
                impl.append(",".join(map(str, ids)) or "-")
                cases.append(dict(case, at=dict(tag, for_upload=fu)))
                canon.append(False)
                ctx.case((lines[-1], t) if len(latest) >= 2 else None)
                ctx.count("ann-history:query:for_upload=%d" % fu)
                eligible = [i for i in latest if (not fu or permitted(i, t))]
                want = sorted(eligible, key=lambda i: (i not in prefs, hashlib.sha1(psi + seeds[i]).digest()))
                extra = [i for i in ids if i not in eligible]
                missing = [i for i in eligible if i not in ids]
                if extra:
                    ctx.violation("server offered%s although its latest announcement holds no currently valid certificate" % (" for upload" if fu else ""),
                                  dict(case, at=dict(tag, for_upload=fu, server=extra[0])),
                                  "upload-filter:unpermitted-included" + (":stale-announcement" if ever_differently(extra[0], t) else ""))
                elif missing:
                    ctx.violation("server whose latest announcement holds a currently valid certificate is not offered",
                                  dict(case, at=dict(tag, for_upload=fu, server=missing[0])),
                                  "upload-filter:permitted-dropped" + (":stale-announcement" if ever_differently(missing[0], t) else ""))
                elif ids != want:
                    ctx.violation("servers are not ordered preferred-first then by SHA-1(psi + seed)", dict(case, at=dict(tag, for_upload=fu)),
                                  "order-not-preferred-then-hash")
        else:
            g = ev[1]
            byidx = {sids.index(s.get_serverid()): s for s in sb.servers.values()}
            if any(i not in byidx for (i, _) in g["goal"]) or any(i not in byidx for i in g["bad"]):
                continue
            psi = hashlib.sha1(b"goal%d" % ei).digest()[:16]
            full = list(sb.get_servers_for_psi(psi))
            p = Publish.__new__(Publish)
            p._log_number = None
            p._new_seqnum = 1
            p._first_write_error = None
            p.total_shares = g["total"]
            p.goal = set((byidx[i], sh) for (i, sh) in g["goal"])
            p.bad_servers = set(byidx[i] for i in g["bad"])
            p.full_serverlist = list(full)
            before = set(p.goal)
            tag = dict(g, event=ei, t=t)
            try:
                p.update_goal()
                out = ",".join("%d.%d" % x for x in sorted((sids.index(s.get_serverid()), sh) for (s, sh) in p.goal)) or "-"
                for (s, sh) in p.goal - before:
                    i = sids.index(s.get_serverid())
                    if not permitted(i, t):
                        ctx.violation("update_goal places a share on a server whose latest announcement holds no currently valid certificate",
                                      dict(case, at=tag), "publish-goal:unpermitted-server" + (":stale-announcement" if ever_differently(i, t) else ""))
            except NotEnoughServersError:
                out = "none"
            toks = ["%d:1:%d:0" % (sids.index(s.get_serverid()), 1 if permitted(sids.index(s.get_serverid()), t) else 0) for s in full]
            lines.append(" ".join(("goal %d %s %s %s" % (g["total"], ",".join("%d.%d" % tuple(x) for x in g["goal"]) or "-",
                                                          ",".join(map(str, g["bad"])) or "-", " ".join(toks))).split()))
            impl.append(out)
            cases.append(dict(case, at=tag))
            canon.append(True)
            ctx.case((lines[-1], t))


def ann_corpus():
    import random
    return [gen_ann_history(random.Random("C32-ann-history-%d" % k), fixed=4) for k in range(2)]


def corpus():
    res = []
    # peers.preferred from tahoe.cfg must move a server to the front (found 2026-09: the configured ids stayed `str`, never equal
    # to the `bytes` server ids) — every server in turn is the preferred one
    for p in range(3):
        res.append({"gm_seeds": ["%02x" % (i + 1) * 32 for i in range(3)], "gm_keys": [],
                    "servers": [{"seed": "%02x" % (0x41 + i) * 32, "perm": None, "connected": True, "certs": [], "nickname": "srv%d" % i}
                                for i in range(3)],
                    "preferred": [["s", p]], "orders": [[0, 1, 2], [2, 0, 1]],
                    "steps": [{"t": 0, "psi": "00" * 16, "goal": {"total": 3, "goal": [], "bad": []}},
                              {"t": 5, "psi": "ff" * 16, "goal": None}]})
    # a long-lived server object whose only certificate expires while the broker keeps being asked: permitted one microsecond
    # before the expiry, not at the instant, not after; a second server stays valid
    res.append({"gm_seeds": ["%02x" % (i + 1) * 32 for i in range(3)], "gm_keys": [0],
                "servers": [{"seed": "51" * 32, "perm": None, "connected": True, "nickname": "a",
                             "certs": [{"kind": "good", "gm": 0, "for": 0, "exp": 1000}]},
                            {"seed": "52" * 32, "perm": None, "connected": True, "nickname": "b",
                             "certs": [{"kind": "good", "gm": 0, "for": 1, "exp": 10**12}]}],
                "preferred": [], "orders": [[0, 1], [1, 0]],
                "steps": [{"t": t, "psi": "%02x" % k * 16, "goal": {"total": 2, "goal": [], "bad": []}}
                          for k, t in enumerate([0, 999, 1000, 1001, 10**9])]})
    # the same expiry history with server 0 preferred and already holding share 0 of the file being published: after the expiry
    # neither its being preferred (seed C32-c) nor its holding a share (seed C32-b) may bring it new uploads
    res.append({"gm_seeds": ["%02x" % (i + 1) * 32 for i in range(3)], "gm_keys": [0],
                "servers": [{"seed": "51" * 32, "perm": None, "connected": True, "nickname": "a",
                             "certs": [{"kind": "good", "gm": 0, "for": 0, "exp": 1000}]},
                            {"seed": "52" * 32, "perm": None, "connected": True, "nickname": "b",
                             "certs": [{"kind": "good", "gm": 0, "for": 1, "exp": 10**12}]},
                            {"seed": "53" * 32, "perm": None, "connected": True, "nickname": "c", "certs": []}],
                "preferred": [["s", 0], ["s", 2]], "orders": [[0, 1, 2], [2, 1, 0]],
                "steps": [{"t": t, "psi": "%02x" % (k + 7) * 16, "goal": {"total": 5, "goal": [[0, 0], [2, 1]], "bad": []}}
                          for k, t in enumerate([0, 999, 1000, 1001, 10**9])]})
    return res


def run(ctx):
    import allmydata.grid_manager as gm_mod
    workdir = os.path.join(os.path.dirname(os.path.dirname(os.path.dirname(os.path.abspath(__file__)))), ".work")
    if ctx.replay:
        c = dict(ctx.replay["case"])
        c.pop("at", None)
        gen = [c]
    else:
        corpus_only = bool(os.environ.get("VERIF_CORPUS_ONLY"))
        gen = corpus() + ann_corpus()
        if not corpus_only:
            gen += [gen_case(ctx.rng) for _ in range(ctx.budget(400, 8000))]
            arng = ctx.subrng("ann-histories")
            gen += [gen_ann_history(arng) for _ in range(ctx.budget(60, 2500))]
    lines, impl, cases, canon = [], [], [], []
    real_clock = gm_mod.current_datetime_with_zone
    # StorageFarmBroker._make_storage_server passes no now_fn: the verifiers read this module-level clock
    gm_mod.current_datetime_with_zone = lambda: CLOCK[0]
    try:
        for case in gen:
            if case.get("kind") == "ann-history":
                run_ann_history(ctx, case, workdir, lines, impl, cases, canon)
            else:
                run_case(ctx, case, workdir, lines, impl, cases, canon)
    finally:
        gm_mod.current_datetime_with_zone = real_clock
    model = ctx.model(lines)
    if model is not None:
        model = [(",".join(sorted(m.split(","), key=lambda t: tuple(map(int, t.split("."))))) if (c and m not in ("none", "-")) else m)
                 for m, c in zip(model, canon)]
    ctx.compare("history on long-lived brokers: get_servers_for_psi (two brokers, both for_upload values) and Publish.update_goal at each clock step",
                cases, impl, model)
    ctx.sample({"line": lines[0], "impl": impl[0]})
    ctx.sample({"line": lines[-1], "impl": impl[-1]})
