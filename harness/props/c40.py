"""C40 — Web API byte-range downloads follow RFC 7233 (web/filenode.py: FileDownloader)."""
import re

ID = "C40"
LEAN_PROPS = "Tahoe.Props.C40"
DRIVER = "C40"
GENERATED = []
SOURCES = ["src/allmydata/web/filenode.py"]
DESIGN_REF = "DESIGN.md §2 C40"
TECHNIQUE = ("Lean 4 theorems over an executable model of FileDownloader.parse_range_header and the status/header/body decision of "
             "FileDownloader.render; differential correspondence through the real resource (DummyRequest, real LiteralFileNode) and "
             "an independent RFC 7233 oracle")
LEVEL_TEXT = ("For every file and every header of the RFC 7233 single-range grammar the model's response is proved to be the RFC one "
              "(206 exact / 416 / ignored) in Lean, for the code with fixes/C40-range-edges.diff applied (a `decide`d counterexample for "
              "the code as it is); the model is tied to web/filenode.py by comparing status, Content-Range, Content-Length and body for "
              "sizes 0..300 x all range forms around the boundaries x GET/HEAD.")
LEVEL_NOTE = ("Lean kernel + standard axioms; model hand-written, tied by correspondence; headers are ASCII (Python's int()/strip() on "
              "non-ASCII digits and white space are outside the model); CHK and mutable nodes need a grid and are not exercised — the "
              "resource only calls get_size() and read(consumer, offset, size) on them.")
RULE = ("file sizes 0..300 (quick: a seeded sample that always contains 0,1,2,3,255,256,300; thorough: all, plus random larger ones) x "
        "single first-last / first- / -suffix ranges with every bound taken around 0 and the file size, multi-range sets, white-space and "
        "lenient-numeral variants, malformed headers, x GET/HEAD, through FileDownloader.render; a case is one request; non-trivial = "
        "the request carries a non-empty Range header")
TRUSTED = ["lean/Tahoe/Web/Range.lean is a hand transcription of parse_range_header/render (str.split, str.strip and int() modelled for ASCII)",
           "twisted.web.test.requesthelper.DummyRequest stands for the HTTP request (headers in, status/headers/body out)"]
ASSUMPTIONS = ["filenode.get_size() is the length of the bytes that filenode.read(consumer, first, size) delivers from",
               "Range header values are ASCII"]

SPEC = r"(?:[0-9]+-[0-9]*|-[0-9]+)"
GRAMMAR = re.compile(r"bytes=(%s(?:[ \t]*,[ \t]*%s)*)" % (SPEC, SPEC))


def file_of(n):
    return bytes(i % 251 for i in range(n))


# ----------------------------------------------------------------------------- the real resource

class FakeNode:
    """minimal stand-in for a CHK/mutable node: only what FileDownloader calls"""

    def __init__(self, data):
        self.data = data

    def get_size(self):
        return len(self.data)

    def read(self, consumer, offset=0, size=None):
        from twisted.internet import defer
        data = self.data[offset:] if size is None else self.data[offset:offset + size]
        half = len(data) // 2
        consumer.write(data[:half])
        consumer.write(data[half:])
        return defer.succeed(consumer)


_nodes = {}


def node_for(kind, n):
    key = (kind, n)
    if key not in _nodes:
        if len(_nodes) > 2000:
            _nodes.clear()
        if kind == "lit":
            from allmydata.immutable.literal import LiteralFileNode
            from allmydata.uri import LiteralFileURI
            _nodes[key] = LiteralFileNode(LiteralFileURI(file_of(n)))
        else:
            _nodes[key] = FakeNode(file_of(n))
    return _nodes[key]


_Req = None


def req_class():
    global _Req
    if _Req is None:
        from twisted.web.test.requesthelper import DummyRequest
        from twisted.internet import defer

        class Req(DummyRequest):
            def notifyFinish(self):
                if self._finishedDeferreds is None:      # already finished synchronously
                    return defer.Deferred()
                return DummyRequest.notifyFinish(self)
        _Req = Req
    return _Req


def do_request(kind, n, method, hdr):
    """-> (status, content_range or None, content_length or None, body)"""
    from allmydata.web.filenode import FileDownloader
    fd = FileDownloader(node_for(kind, n), b"x.bin")
    req = req_class()([b""])
    req.method = b"GET" if method == "G" else b"HEAD"
    req.uri = b"/file/x"
    req.fields = None
    if hdr is not None:
        req.requestHeaders.setRawHeaders("range", [hdr])
    fd.render(req)
    if not req.finished:
        raise RuntimeError("request not finished synchronously")
    status = req.responseCode if req.responseCode is not None else 200
    h = {k.lower(): v for k, v in req.responseHeaders.getAllRawHeaders()}
    cr = h.get(b"content-range")
    cl = h.get(b"content-length")
    return (status, cr[0].decode("ascii") if cr else None, cl[0].decode("ascii") if cl else None, b"".join(req.written))


def canon(resp):
    from common import hx
    status, cr, cl, body = resp
    if status == 416:
        return "416"
    if cr is None:
        c = "-"
    elif cr.startswith("bytes "):
        c = cr[6:]
    else:
        c = "RAW:" + cr
    return "%d|%s|%s|%s" % (status, c, cl, hx(body))


# ----------------------------------------------------------------------------- RFC 7233 oracle (independent of the model)

def rfc_specs(h):
    """the byte-range-set of a header in the RFC 7233 grammar, else None.
    ('int', first, last|None) | ('suffix', length)"""
    m = GRAMMAR.fullmatch(h)
    if not m:
        return None
    specs = []
    for piece in m.group(1).split(","):
        piece = piece.strip(" \t")
        a, b = piece.split("-", 1)
        if a == "":
            specs.append(("suffix", int(b)))
        else:
            specs.append(("int", int(a), int(b) if b != "" else None))
    return specs


def lenient_specs(h):
    """headers outside the grammar whose numerals Python's int() still accepts (white space, '+', '_'):
    DESIGN C40 only asks for a coherent answer there. None if not even leniently a range set."""
    if not h.startswith("bytes="):
        return None
    specs = []
    for piece in h[6:].split(","):
        piece = piece.strip()
        if "-" not in piece:
            return None
        a, b = piece.split("-", 1)
        try:
            if a == "":
                v = int(b)
                if v < 0:
                    return None
                specs.append(("suffix", v))
            else:
                fa = int(a)
                fb = int(b) if b != "" else None
                if fa < 0 or (fb is not None and fb < 0):
                    return None
                specs.append(("int", fa, fb))
        except ValueError:
            return None
    return specs


def answers_for_spec(spec, n):
    """set of acceptable answers for one range on a file of n bytes:
    ('full',) | ('partial', first, last) | ('unsat',)"""
    if spec[0] == "int":
        _, a, b = spec
        if b is not None and b < a:
            return {("full",)}                      # invalid byte-range-spec: MUST be ignored
        if a >= n:
            return {("unsat",)}                     # "416 when the range starts at or beyond the end"
        return {("partial", a, n - 1 if b is None else min(b, n - 1))}
    k = spec[1]
    if k == 0 or n == 0:
        # recorded reading (DESIGN C40): a server may ignore Range; 200 and 416 are both accepted,
        # a 206 is not (there is no byte to send)
        return {("full",), ("unsat",)}
    return {("partial", max(0, n - k), n - 1)}


def acceptable(h, n):
    """-> (set of acceptable abstract answers, class label)"""
    if h is None or h == "":
        return {("full",)}, "no-range"
    specs = rfc_specs(h)
    if specs is not None:
        if len(specs) == 1:
            return answers_for_spec(specs[0], n), "single"
        # multi-range: outside the statement; any coherent answer for a subset of the set
        acc = {("full",), ("unsat",)}
        for s in specs:
            acc |= {a for a in answers_for_spec(s, n) if a[0] == "partial"}
        return acc, "multi"
    ls = lenient_specs(h)
    if ls is not None:
        acc = {("full",)}
        if len(ls) == 1:
            acc |= answers_for_spec(ls[0], n)
        else:
            acc.add(("unsat",))
            for s in ls:
                acc |= {a for a in answers_for_spec(s, n) if a[0] == "partial"}
        return acc, "lenient"
    return {("full",)}, "unparsable"                # "the full file when the header cannot be parsed"


def abstract(resp, n, method):
    """classify a concrete response; ('malformed', why) when it is not a coherent 200/206/416"""
    status, cr, cl, body = resp
    data = file_of(n)
    if status == 416:
        return ("unsat",)
    if status == 200:
        if cr is not None:
            return ("malformed", "200 with Content-Range")
        if cl != str(n):
            return ("malformed", "200 Content-Length %r for %d bytes" % (cl, n))
        if body != (data if method == "G" else b""):
            return ("malformed", "200 body differs from the file")
        return ("full",)
    if status == 206:
        m = re.fullmatch(r"bytes ([0-9]+)-([0-9]+)/([0-9]+)", cr or "")
        if not m:
            return ("malformed", "206 Content-Range %r" % (cr,))
        a, b, total = int(m.group(1)), int(m.group(2)), int(m.group(3))
        if not (a <= b < n and total == n):
            return ("malformed", "206 Content-Range %r for %d bytes" % (cr, n))
        if cl != str(b - a + 1):
            return ("malformed", "206 Content-Length %r for %r" % (cl, cr))
        if body != (data[a:b + 1] if method == "G" else b""):
            return ("malformed", "206 body is not file[%d..%d]" % (a, b))
        return ("partial", a, b)
    return ("malformed", "status %r" % (status,))


def signature(h, n, cls, got):
    specs = rfc_specs(h) if h else None
    if specs is None and h:
        specs = lenient_specs(h)
    s0 = specs[0] if specs else None
    if s0 and s0[0] == "suffix" and n == 0 and got[0] in ("malformed", "partial"):
        return "suffix-range-on-empty-file-206"
    if s0 and s0[0] == "int" and s0[2] is None and s0[1] >= n and got[0] != "unsat":
        return "open-ended-range-at-or-beyond-eof-not-416"
    if s0 and s0[0] == "int" and s0[2] is not None and s0[2] >= s0[1] >= n and got[0] != "unsat":
        return "closed-range-beyond-eof-not-416"
    if cls in ("unparsable", "no-range"):
        return "unparsable-header-not-full-200"
    if got[0] == "malformed":
        return "incoherent-response"
    return "wrong-answer-for-%s-range" % cls


# ----------------------------------------------------------------------------- generation

def bounds(n):
    vs = {0, 1, 2, n // 2, n - 2, n - 1, n, n + 1, n + 5, 2 * n, 10 ** 12}
    return sorted(v for v in vs if v >= 0)


FIXED_MALFORMED = [
    "", "bytes", "bytes=", "bytes=abc", "bytes=5", "bits=0-5", "BYTES=0-5", "Bytes=0-5", "bytes =0-5", " bytes=0-5",
    "bytes=0-5=", "bytes==0-5", "=0-5", "bytes=--5", "bytes=5--", "bytes=-", "bytes=- ", "bytes=,", "bytes=0-5,", ",bytes=0-5",
    "bytes=0-5,,7-8", "bytes=0x1-5", "bytes=1e2-", "bytes=0-5;q=1", "bytes=0 5", "bytes=5-2", "bytes=-5-", "bytes=1.0-2",
    "bytes=0-\t5", "bytes=\t0-5\t", "bytes=+1-+3", "bytes=0_1-0_3", "bytes=_1-3", "bytes=1_-3", "bytes=1__0-", "bytes= 1 - 3 ",
    "bytes=-+2", "bytes=- 2", "bytes=-0", "bytes=-00", "bytes=00-01", "bytes=0-0", "bytes=0-", "bytes=\x1f1-2", "none",
]


def headers_for(n, rng):
    hs = [None]
    bs = bounds(n)
    for a in bs:
        hs.append("bytes=%d-" % a)
        hs.append("bytes=-%d" % a)
        for b in bs:
            hs.append("bytes=%d-%d" % (a, b))
    # multi-range sets
    for _ in range(6):
        k = rng.randrange(2, 4)
        parts = []
        for _ in range(k):
            a, b = rng.choice(bs), rng.choice(bs)
            parts.append(rng.choice(["%d-%d" % (a, b), "%d-" % a, "-%d" % a]))
        hs.append("bytes=" + rng.choice([",", ", ", " ,", " , ", ",\t"]).join(parts))
    # white space / lenient numerals around a boundary range
    a, b = rng.choice(bs), rng.choice(bs)
    hs += ["bytes= %d-%d" % (a, b), "bytes=%d-%d " % (a, b), "bytes=%d - %d" % (a, b), "bytes=+%d-%d" % (a, b),
           "bytes=%d-+%d" % (a, b), "bytes=0%d-00%d" % (a, b), "bytes=- %d" % a, "bytes=%s-" % "_".join(str(a)),
           "bytes=%d-%d,x" % (a, b), "bytes=%d-%d,%d-%d" % (b, a, a, b)]
    hs += FIXED_MALFORMED
    # random garbage over the modelled alphabet
    alpha = "0123456789-=,_+ \tbytesx"
    for _ in range(8):
        g = "".join(rng.choice(alpha) for _ in range(rng.randrange(1, 14)))
        hs.append(g if rng.random() < 0.5 else "bytes=" + g)
    return hs


CORPUS = [
    (0, "bytes=-5"),            # DESIGN §3 probe: suffix range on an empty file
    (0, "bytes=0-"), (0, "bytes=0-0"), (0, "bytes=-0"),
    (10, "bytes=10-"), (10, "bytes=11-"), (10, "bytes=10-12"), (10, "bytes=9-"), (10, "bytes=-20"), (1, "bytes=-1"),
]


def run(ctx):
    from common import hx
    rng = ctx.rng
    reqs = []     # (kind, n, method, hdr)
    if ctx.replay:
        c = ctx.replay["case"]
        reqs.append((c.get("node", "lit"), c["size"], c["method"], c["hdr"]))
    else:
        for (n, h) in CORPUS:
            for m in "GH":
                reqs.append(("lit", n, m, h))
        if ctx.tier == "thorough":
            sizes = list(range(0, 301)) + [rng.randrange(301, 70000) for _ in range(40)]
        else:
            sizes = sorted({0, 1, 2, 3, 255, 256, 300} | {rng.randrange(0, 301) for _ in range(ctx.budget(20, 20))}) + \
                [rng.randrange(301, 70000) for _ in range(3)]
        for n in sizes:
            kind = "lit" if n <= 300 else "fake"
            for h in headers_for(n, rng):
                for m in "GH":
                    reqs.append((kind, n, m, h))
                if kind == "lit" and h is not None and rng.random() < 0.05:
                    reqs.append(("fake", n, "G", h))
    impl = []
    cases = []
    got_by_key = {}
    for (kind, n, m, h) in reqs:
        resp = do_request(kind, n, m, h)
        impl.append(canon(resp))
        case = {"node": kind, "size": n, "method": m, "hdr": h}
        cases.append(case)
        ctx.case((kind, n, m, h) if h else None)
        # --- monitor
        acc, cls = acceptable(h, n)
        got = abstract(resp, n, m)
        ctx.count("class:" + cls)
        ctx.count("answer:%s" % got[0])
        if cls == "multi" and got == ("unsat",) and any(a[0] == "partial" for a in acc):
            ctx.count("note:multi-range-416-although-a-later-range-is-satisfiable")
        if got not in acc:
            ctx.violation("FileDownloader answers %r (%s) to Range %r on a %d-byte file (%s); acceptable: %s" % (
                canon(resp)[:80], "/".join(str(x) for x in got), h, n, "GET" if m == "G" else "HEAD", sorted(acc)),
                case, signature(h, n, cls, got))
        # HEAD: same status and headers as GET
        key = (kind, n, h)
        if key in got_by_key and got_by_key[key][0] != m:
            om, oresp = got_by_key[key]
            if (oresp[0], oresp[1]) != (resp[0], resp[1]) or (resp[0] != 416 and oresp[2] != resp[2]):
                ctx.violation("HEAD and GET differ in status/headers for Range %r on %d bytes: %r vs %r" % (h, n, oresp[:3], resp[:3]),
                              case, "head-differs-from-get")
        got_by_key[key] = (m, resp)
    lines = ["c40 %d %s %s" % (n, m, "none" if h is None else hx(h.encode("ascii"))) for (_, n, m, h) in reqs]
    model = ctx.model(lines)
    ctx.compare("FileDownloader.render (status, Content-Range, Content-Length, body)", cases, impl, model)
    for i in (0, len(cases) // 2, len(cases) - 1):
        if cases:
            ctx.sample({"case": cases[i], "impl": impl[i][:120]})
