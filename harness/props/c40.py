"""C40 — Web API byte-range downloads follow RFC 7233 (web/filenode.py: FileDownloader, FileNodeHandler)."""
import os
import re

ID = "C40"
LEAN_PROPS = "Tahoe.Props.C40"
DRIVER = "C40"
GENERATED = []
SOURCES = ["src/allmydata/web/filenode.py"]
DESIGN_REF = "DESIGN.md §2 C40"
TECHNIQUE = ("Lean 4 theorems over executable models of FileDownloader.parse_range_header / FileDownloader.render (over an abstract "
             "filenode.read) and of FileNodeHandler.render_GET / render_HEAD (ETag, If-None-Match); differential correspondence through "
             "the real resource (DummyRequest, real LiteralFileNode) and, routed, through a real twisted.web Site + allmydata.web.root.Root "
             "+ FileNodeHandler on the in-process grid (literal, CHK, SDMF, MDMF; mutable files also after shorter/longer overwrites; "
             "multi-segment files); an independent RFC 7233 oracle")
LEVEL_TEXT = ("Proved in Lean for the code as it is in /repo (fixes 5eb3fd9 range edges and aa58e25 HEAD ETag included), for every file and "
              "every header of the RFC 7233 single-range grammar: closed_range_206 / open_range_206 / suffix_range_206 (206, exact bytes "
              "clipped at EOF, matching Content-Range and Content-Length), beyond_end_416, unparsed_full / inverted_range_full / "
              "unknown_unit_full / no_equals_full / suffix_zero_or_empty_full (ignored -> full 200), every_206_wellformed (any header string), "
              "multi_range_first_only; head_is_get_without_body (render_HEAD = render_GET minus the body, ETag included), "
              "if_none_match_hit_304 / if_none_match_miss_ignored / handler_is_downloader; render_over_any_slice_reader (the same answers "
              "over any node whose read(offset,size) is a slice reader). `decide`d counterexamples for the code before 5eb3fd9. The models are "
              "tied to web/filenode.py by comparing status, ETag, Content-Range, Content-Length and body, directly and through the routed path.")
LEVEL_NOTE = ("Lean kernel + standard axioms (propext, Classical.choice, Quot.sound); models hand-written, tied by correspondence; headers are "
              "ASCII (Python's int()/strip() on non-ASCII digits and white space are outside the model). That real CHK / SDMF / MDMF / LIT nodes "
              "are slice readers (the hypothesis of render_over_any_slice_reader) is what C04 read_slice / read_slice_literal and C09 "
              "read_range_slice / read_to_end prove for their node models (cited, not imported) and is tied here by the routed correspondence "
              "only. Accept-Ranges and Content-Type are compared between HEAD and GET on the implementation only (monitor, not modelled). "
              "Recorded readings: `bytes=-0` and a suffix range on an empty file are ignored (200); multi-range answers the first range.")
RULE = ("a fixed corpus first (independent of VERIF_SEED; VERIF_CORPUS_ONLY=1 runs only it): one input per repaired defect and seeded "
        "change, direct and routed (incl. a production-size 3-segment MDMF file and a 3-of-5 grid with CHK segment size 66); then "
        "file sizes 0..300 (quick: a seeded sample that always contains 0,1,2,3,255,256,300; thorough: all, plus random larger ones) x "
        "single first-last / first- / -suffix ranges with every bound taken around 0 and the file size, multi-range sets, white-space and "
        "lenient-numeral variants, malformed headers, x GET/HEAD, through FileDownloader.render; a case is one request; non-trivial = "
        "the request carries a non-empty Range header; in addition every boundary family (first-last / first- / -suffix / multi / "
        "lenient / garbage around 0, size-1, size, size+1, size 0) is sent as GET and HEAD through the real Site/Root/FileNodeHandler "
        "for literal, CHK, SDMF and MDMF files (mutable: as created, overwritten shorter, longer, emptied), HEAD compared with GET "
        "(status, Content-Range, Content-Length, Accept-Ranges, Content-Type, ETag, empty body) and with the handler model (driver "
        "command c40h); conditional GET/HEAD (If-None-Match with the file's ETag / * / a foreign tag / a multi-tag list / a near miss, "
        "with and without Range) must both answer 304 resp. as without it; multi-segment files get Range headers around every segment "
        "boundary and 1..15 bytes after it, body == file slice and len(body) == Content-Length; the random routed family draws k in "
        "{2,3,5} and small max_segment_size")
TRUSTED = ["lean/Tahoe/Web/Range.lean is a hand transcription of parse_range_header/render (str.split, str.strip and int() modelled for ASCII)",
           "lean/Tahoe/Web/Handler.lean is a hand transcription of FileNodeHandler.render_GET (t='') / render_HEAD and twisted's "
           "Request.setETag (If-None-Match, bytes.split())",
           "twisted.web.test.requesthelper.DummyRequest stands for the HTTP request (headers in, status/headers/body out)",
           "harness/grid.py (in-process grid, virtual clock) and the raw HTTP/1.0 feeding shim RoutedWeb in harness/props/c40.py"]
ASSUMPTIONS = ["filenode.get_size() is the length of the bytes that filenode.read(consumer, first, size) slices (SliceReader; proved for "
               "the node models by C04 / C09, tied for the real nodes by the routed correspondence)",
               "Range and If-None-Match header values are ASCII"]

SPEC = r"(?:[0-9]+-[0-9]*|-[0-9]+)"
GRAMMAR = re.compile(r"bytes=(%s(?:[ \t]*,[ \t]*%s)*)" % (SPEC, SPEC))


def file_of(n):
    return bytes(i % 251 for i in range(n))


# ----------------------------------------------------------------------------- the real resource

class FakeNode:
    """minimal stand-in for a CHK/mutable node: only what FileDownloader calls"""

    def __init__(self, data):
        self.data = data

    def get_size(self):
        return len(self.data)

    def read(self, consumer, offset=0, size=None):
        from twisted.internet import defer
        data = self.data[offset:] if size is None else self.data[offset:offset + size]
        half = len(data) // 2
        consumer.write(data[:half])
        consumer.write(data[half:])
        return defer.succeed(consumer)


_nodes = {}


def node_for(kind, n):
    key = (kind, n)
    if key not in _nodes:
        if len(_nodes) > 2000:
            _nodes.clear()
        if kind == "lit":
            from allmydata.immutable.literal import LiteralFileNode
            from allmydata.uri import LiteralFileURI
            _nodes[key] = LiteralFileNode(LiteralFileURI(file_of(n)))
        else:
            _nodes[key] = FakeNode(file_of(n))
    return _nodes[key]


_Req = None


def req_class():
    global _Req
    if _Req is None:
        from twisted.web.test.requesthelper import DummyRequest
        from twisted.internet import defer

        class Req(DummyRequest):
            def notifyFinish(self):
                if self._finishedDeferreds is None:      # already finished synchronously
                    return defer.Deferred()
                return DummyRequest.notifyFinish(self)
        _Req = Req
    return _Req


def do_request(kind, n, method, hdr):
    """-> (status, content_range or None, content_length or None, body)"""
    from allmydata.web.filenode import FileDownloader
    fd = FileDownloader(node_for(kind, n), b"x.bin")
    req = req_class()([b""])
    req.method = b"GET" if method == "G" else b"HEAD"
    req.uri = b"/file/x"
    req.fields = None
    if hdr is not None:
        req.requestHeaders.setRawHeaders("range", [hdr])
    fd.render(req)
    if not req.finished:
        raise RuntimeError("request not finished synchronously")
    status = req.responseCode if req.responseCode is not None else 200
    h = {k.lower(): v for k, v in req.responseHeaders.getAllRawHeaders()}
    cr = h.get(b"content-range")
    cl = h.get(b"content-length")
    return (status, cr[0].decode("ascii") if cr else None, cl[0].decode("ascii") if cl else None, b"".join(req.written))


def canon(resp):
    from common import hx
    status, cr, cl, body = resp
    if status == 416:
        return "416"
    if cr is None:
        c = "-"
    elif cr.startswith("bytes "):
        c = cr[6:]
    else:
        c = "RAW:" + cr
    return "%d|%s|%s|%s" % (status, c, cl, hx(body))


# ----------------------------------------------------------------------------- RFC 7233 oracle (independent of the model)

def rfc_specs(h):
    """the byte-range-set of a header in the RFC 7233 grammar, else None.
    ('int', first, last|None) | ('suffix', length)"""
    m = GRAMMAR.fullmatch(h)
    if not m:
        return None
    specs = []
    for piece in m.group(1).split(","):
        piece = piece.strip(" \t")
        a, b = piece.split("-", 1)
        if a == "":
            specs.append(("suffix", int(b)))
        else:
            specs.append(("int", int(a), int(b) if b != "" else None))
    return specs


def lenient_specs(h):
    """headers outside the grammar whose numerals Python's int() still accepts (white space, '+', '_'):
    DESIGN C40 only asks for a coherent answer there. None if not even leniently a range set."""
    if not h.startswith("bytes="):
        return None
    specs = []
    for piece in h[6:].split(","):
        piece = piece.strip()
        if "-" not in piece:
            return None
        a, b = piece.split("-", 1)
        try:
            if a == "":
                v = int(b)
                if v < 0:
                    return None
                specs.append(("suffix", v))
            else:
                fa = int(a)
                fb = int(b) if b != "" else None
                if fa < 0 or (fb is not None and fb < 0):
                    return None
                specs.append(("int", fa, fb))
        except ValueError:
            return None
    return specs


def answers_for_spec(spec, n):
    """set of acceptable answers for one range on a file of n bytes:
    ('full',) | ('partial', first, last) | ('unsat',)"""
    if spec[0] == "int":
        _, a, b = spec
        if b is not None and b < a:
            return {("full",)}                      # invalid byte-range-spec: MUST be ignored
        if a >= n:
            return {("unsat",)}                     # "416 when the range starts at or beyond the end"
        return {("partial", a, n - 1 if b is None else min(b, n - 1))}
    k = spec[1]
    if k == 0 or n == 0:
        # recorded reading (DESIGN C40): a server may ignore Range; 200 and 416 are both accepted,
        # a 206 is not (there is no byte to send)
        return {("full",), ("unsat",)}
    return {("partial", max(0, n - k), n - 1)}


def acceptable(h, n):
    """-> (set of acceptable abstract answers, class label)"""
    if h is None or h == "":
        return {("full",)}, "no-range"
    specs = rfc_specs(h)
    if specs is not None:
        if len(specs) == 1:
            return answers_for_spec(specs[0], n), "single"
        # multi-range: outside the statement; any coherent answer for a subset of the set
        acc = {("full",), ("unsat",)}
        for s in specs:
            acc |= {a for a in answers_for_spec(s, n) if a[0] == "partial"}
        return acc, "multi"
    ls = lenient_specs(h)
    if ls is not None:
        acc = {("full",)}
        if len(ls) == 1:
            acc |= answers_for_spec(ls[0], n)
        else:
            acc.add(("unsat",))
            for s in ls:
                acc |= {a for a in answers_for_spec(s, n) if a[0] == "partial"}
        return acc, "lenient"
    return {("full",)}, "unparsable"                # "the full file when the header cannot be parsed"


def abstract(resp, n, method):
    """classify a concrete response; ('malformed', why) when it is not a coherent 200/206/416"""
    status, cr, cl, body = resp
    data = file_of(n)
    if status == 416:
        return ("unsat",)
    if status == 200:
        if cr is not None:
            return ("malformed", "200 with Content-Range")
        if cl != str(n):
            return ("malformed", "200 Content-Length %r for %d bytes" % (cl, n))
        if body != (data if method == "G" else b""):
            return ("malformed", "200 body differs from the file")
        return ("full",)
    if status == 206:
        m = re.fullmatch(r"bytes ([0-9]+)-([0-9]+)/([0-9]+)", cr or "")
        if not m:
            return ("malformed", "206 Content-Range %r" % (cr,))
        a, b, total = int(m.group(1)), int(m.group(2)), int(m.group(3))
        if not (a <= b < n and total == n):
            return ("malformed", "206 Content-Range %r for %d bytes" % (cr, n))
        if cl != str(b - a + 1):
            return ("malformed", "206 Content-Length %r for %r" % (cl, cr))
        if body != (data[a:b + 1] if method == "G" else b""):
            return ("malformed", "206 body is not file[%d..%d]" % (a, b))
        return ("partial", a, b)
    return ("malformed", "status %r" % (status,))


def signature(h, n, cls, got):
    specs = rfc_specs(h) if h else None
    if specs is None and h:
        specs = lenient_specs(h)
    s0 = specs[0] if specs else None
    if s0 and s0[0] == "suffix" and n == 0 and got[0] in ("malformed", "partial"):
        return "suffix-range-on-empty-file-206"
    if s0 and s0[0] == "int" and s0[2] is None and s0[1] >= n and got[0] != "unsat":
        return "open-ended-range-at-or-beyond-eof-not-416"
    if s0 and s0[0] == "int" and s0[2] is not None and s0[2] >= s0[1] >= n and got[0] != "unsat":
        return "closed-range-beyond-eof-not-416"
    if cls in ("unparsable", "no-range"):
        return "unparsable-header-not-full-200"
    if got[0] == "malformed":
        return "incoherent-response"
    return "wrong-answer-for-%s-range" % cls


# ----------------------------------------------------------------------------- generation

def bounds(n):
    vs = {0, 1, 2, n // 2, n - 2, n - 1, n, n + 1, n + 5, 2 * n, 10 ** 12}
    return sorted(v for v in vs if v >= 0)


FIXED_MALFORMED = [
    "", "bytes", "bytes=", "bytes=abc", "bytes=5", "bits=0-5", "BYTES=0-5", "Bytes=0-5", "bytes =0-5", " bytes=0-5",
    "bytes=0-5=", "bytes==0-5", "=0-5", "bytes=--5", "bytes=5--", "bytes=-", "bytes=- ", "bytes=,", "bytes=0-5,", ",bytes=0-5",
    "bytes=0-5,,7-8", "bytes=0x1-5", "bytes=1e2-", "bytes=0-5;q=1", "bytes=0 5", "bytes=5-2", "bytes=-5-", "bytes=1.0-2",
    "bytes=0-\t5", "bytes=\t0-5\t", "bytes=+1-+3", "bytes=0_1-0_3", "bytes=_1-3", "bytes=1_-3", "bytes=1__0-", "bytes= 1 - 3 ",
    "bytes=-+2", "bytes=- 2", "bytes=-0", "bytes=-00", "bytes=00-01", "bytes=0-0", "bytes=0-", "bytes=\x1f1-2", "none",
]


def headers_for(n, rng):
    hs = [None]
    bs = bounds(n)
    for a in bs:
        hs.append("bytes=%d-" % a)
        hs.append("bytes=-%d" % a)
        for b in bs:
            hs.append("bytes=%d-%d" % (a, b))
    # multi-range sets
    for _ in range(6):
        k = rng.randrange(2, 4)
        parts = []
        for _ in range(k):
            a, b = rng.choice(bs), rng.choice(bs)
            parts.append(rng.choice(["%d-%d" % (a, b), "%d-" % a, "-%d" % a]))
        hs.append("bytes=" + rng.choice([",", ", ", " ,", " , ", ",\t"]).join(parts))
    # white space / lenient numerals around a boundary range
    a, b = rng.choice(bs), rng.choice(bs)
    hs += ["bytes= %d-%d" % (a, b), "bytes=%d-%d " % (a, b), "bytes=%d - %d" % (a, b), "bytes=+%d-%d" % (a, b),
           "bytes=%d-+%d" % (a, b), "bytes=0%d-00%d" % (a, b), "bytes=- %d" % a, "bytes=%s-" % "_".join(str(a)),
           "bytes=%d-%d,x" % (a, b), "bytes=%d-%d,%d-%d" % (b, a, a, b)]
    hs += FIXED_MALFORMED
    # random garbage over the modelled alphabet
    alpha = "0123456789-=,_+ \tbytesx"
    for _ in range(8):
        g = "".join(rng.choice(alpha) for _ in range(rng.randrange(1, 14)))
        hs.append(g if rng.random() < 0.5 else "bytes=" + g)
    return hs


# Fixed corpus (direct FileDownloader path): runs first, independent of VERIF_SEED; one input per known mechanism.
CORPUS = [
    (0, "bytes=-5"),            # fix 5eb3fd9, part 1 (DESIGN §3 probe): suffix range on an empty file gave 206 `bytes 0--1/0`
    (10, "bytes=10-"), (10, "bytes=11-"), (0, "bytes=0-"),      # fix 5eb3fd9, part 2: open-ended range at/beyond EOF gave 200
    (10, "bytes=10-12"), (10, "bytes=10-10"), (1, "bytes=9-51"), (0, "bytes=0-0"),   # seeded C40-a: `A-B` with A >= size clipped before the check -> 200
    (0, "bytes=0-9"), (0, "bytes=1-"), (0, "bytes=0-1,3-4"),    # seeded C40-c: empty-file fast path skips range evaluation -> 200
    (0, "bytes=-0"), (10, "bytes=9-"), (10, "bytes=-20"), (1, "bytes=-1"), (10, "bytes=2-4"), (10, "bytes=5-2"), (10, "bits=0-5"),
]


# ----------------------------------------------------------------------------- the routed path (real Site + Root + grid)

ROUTED_KINDS = ["lit", "chk", "sdmf", "mdmf"]
NEEDS_ETAG = ("match", "quoted", "multi", "near")
LIT_MAX = 55           # URI_LIT_SIZE_THRESHOLD: upload.Data up to this size yields a LIT cap


def routable(h):
    """headers that reach the resource unchanged through an HTTP/1.0 request line (twisted strips outer white space)"""
    return h is None or (h != "" and h == h.strip() and all(32 <= ord(c) < 127 or c == "\t" for c in h))


def routed_headers(n, rng, full):
    """every boundary family (first-last / first- / -suffix / multi / lenient / garbage) around 0, size-1, size, size+1"""
    if full:
        return [h for h in headers_for(n, rng) if routable(h)]
    b = sorted({v for v in (0, 1, n - 1, n, n + 1, n + 7) if v >= 0})
    hs = [None]
    hs += ["bytes=%d-" % a for a in b]
    hs += ["bytes=-%d" % a for a in sorted({v for v in (0, 1, n - 1, n, n + 1) if v >= 0})]
    e = sorted({v for v in (0, n - 1, n, n + 1) if v >= 0})
    hs += ["bytes=%d-%d" % (a, c) for a in e for c in e]
    a, c = rng.choice(b), rng.choice(b)
    hs += ["bytes=%d-%d,%d-" % (a, c, rng.choice(b)), "bytes=-%d, %d-%d" % (rng.choice(b), a, c), "bytes=%d-,-1" % n,
           "bytes=+%d-%d" % (a, c), "bytes=%d - %d" % (a, c), "bytes=0_0-%s" % "_".join(str(n)),
           "bytes=abc", "bits=0-%d" % n, "bytes", "bytes=%d" % n, "bytes=--%d" % max(n, 1), "BYTES=0-0"]
    return [h for h in hs if routable(h)]


def canon_h(status, rh, body):
    """handler-level canonical answer: status|etag|content-range|content-length|body (304/416: status and etag only)"""
    from common import hx
    et = rh.get("etag") or "-"
    if status in (304, 416):
        return "%d|%s|-|-|-" % (status, et)
    cr = rh.get("content-range")
    c = "-" if cr is None else (cr[6:] if cr.startswith("bytes ") else "RAW:" + cr)
    return "%d|%s|%s|%s|%s" % (status, et, c, rh.get("content-length") or "-", hx(body))


def body_signature(resp, h, n, kind, seg):
    """a 206 whose headers are right but whose body runs past the announced range"""
    status, cr, cl, body = resp
    m = re.fullmatch(r"bytes ([0-9]+)-([0-9]+)/([0-9]+)", cr or "")
    if status == 206 and m and cl is not None and cl.isdigit() and len(body) > int(cl):
        last = int(m.group(2))
        return "body-longer-than-range:%s%s" % (kind, "-segment-boundary" if seg and (last + 1) % seg == 0 else "")
    return None


def quiet_twisted_log():
    """errors rendered into HTTP responses (416) are also logged by Twisted; keep them off stderr"""
    from twisted.logger import globalLogBeginner
    try:
        globalLogBeginner.beginLoggingTo([lambda event: None], redirectStandardIO=False, discardBuffer=True)
    except Exception:
        pass


class RoutedWeb:
    """A real twisted.web Site (allmydata.webish.TahoeLAFSRequest + allmydata.web.root.Root) over an in-memory
    transport on the in-process grid of harness/grid.py."""

    def __init__(self, rt, client):
        from twisted.web.server import Site
        from allmydata.webish import TahoeLAFSRequest
        from allmydata.web.root import Root
        self.rt = rt
        self.site = Site(Root(client, None, lambda: 0.0), requestFactory=TahoeLAFSRequest)

    def request(self, method, path, hdr=None, body=b"", extra=None):
        """-> (status, {header: value}, body)"""
        import grid
        from twisted.internet import defer
        from twisted.internet.address import IPv4Address
        from twisted.internet.testing import StringTransport
        from twisted.python.failure import Failure
        from twisted.internet.error import ConnectionDone

        class Transport(StringTransport):
            def __init__(self):
                StringTransport.__init__(self, hostAddress=IPv4Address("TCP", "127.0.0.1", 3456),
                                         peerAddress=IPv4Address("TCP", "127.0.0.1", 50000))
                self.closed = defer.Deferred()

            def loseConnection(self):
                StringTransport.loseConnection(self)
                if not self.closed.called:
                    self.closed.callback(None)
        lines = ["%s %s HTTP/1.0" % (method, path), "Host: localhost"]
        if hdr is not None:
            lines.append("Range: " + hdr)
        for k, v in (extra or {}).items():
            lines.append("%s: %s" % (k, v))
        if body or method == "PUT":
            lines.append("Content-Length: %d" % len(body))
        raw = ("\r\n".join(lines) + "\r\n\r\n").encode("ascii") + body
        proto = self.site.buildProtocol(IPv4Address("TCP", "127.0.0.1", 50000))
        tr = Transport()
        proto.makeConnection(tr)
        proto.dataReceived(raw)
        try:
            self.rt.wait(tr.closed, horizon=600.0)
            proto.connectionLost(Failure(ConnectionDone()))
        except grid.Stuck:
            proto.connectionLost(Failure(ConnectionDone()))
            raise RuntimeError("routed %s %s (Range %r) never completed" % (method, path[:24], hdr))
        self.rt.settle()
        head, _, rbody = tr.value().partition(b"\r\n\r\n")
        hl = head.split(b"\r\n")
        status = int(hl[0].split()[1])
        hdrs = {}
        for line in hl[1:]:
            k, _, v = line.partition(b":")
            hdrs[k.strip().lower().decode("ascii")] = v.strip().decode("latin-1")
        return status, hdrs, rbody


# Fixed routed corpus (independent of VERIF_SEED): one file state per kind, every boundary family once; these are the cases
# that catch seeded C40-b (render_HEAD drops the Range header) and a revert of aa58e25 (HEAD omits the ETag of a CHK file).
# Multi-segment files: CHK with the grid client's max_segment_size = 64 (203 bytes = 4 segments), and one production-size
# MDMF file (mutable/publish.py has no knob: DEFAULT_MUTABLE_MAX_SEGMENT_SIZE = 128 KiB, rounded up to a multiple of k;
# 2 segments + 4321 bytes = 3 segments).  `seg` adds Range headers around every segment boundary (seeded C40-d: the mutable
# retriever fetched one segment too many when the span ends exactly on an interior boundary).
ROUTED_K = 2
MDMF_SEG = ((128 * 1024 + ROUTED_K - 1) // ROUTED_K) * ROUTED_K
CHK_SEG = 64
ROUTED_CORPUS_PLANS = [{"kind": "lit", "chain": [0]}, {"kind": "lit", "chain": [30]},
                       {"kind": "chk", "chain": [203], "seg": CHK_SEG},
                       {"kind": "sdmf", "chain": [120, 41, 260]}, {"kind": "mdmf", "chain": [120, 0]},
                       {"kind": "mdmf", "chain": [2 * MDMF_SEG + 4321], "seg": MDMF_SEG, "only_seg": True}]


def seg_headers(n, seg):
    """Range headers around every interior segment boundary B (= first byte of a later segment): spans ending exactly on a
    boundary (last = B-1), just before/after it, single bytes at B-1/B/B+1, spans starting on B, crossing one and two
    boundaries, exactly one whole segment, suffix ranges whose first byte lands on B-1/B/B+1."""
    hs = []
    bs = list(range(seg, n, seg))
    for B in bs:
        lo = max(B - 7, 0)
        hs += ["bytes=%d-%d" % (lo, e) for e in (B - 2, B - 1, B, B + 1)]
        hs += ["bytes=%d-%d" % (p, p) for p in (B - 1, B, B + 1) if p < n]
        hs += ["bytes=%d-%d" % (a, B + 5) for a in (B - 1, B, B + 1)]
        hs += ["bytes=%d-" % a for a in (B - 1, B)]
        hs += ["bytes=0-%d" % (B - 1), "bytes=0-%d" % B]
        hs += ["bytes=-%d" % k for k in (n - B - 1, n - B, n - B + 1) if k > 0]
    for B0, B1 in zip(bs, bs[1:]):
        hs += ["bytes=%d-%d" % (B0, B1 - 1), "bytes=%d-%d" % (B0 - 3, B1 + 3), "bytes=%d-%d" % (B0 - 3, B1 - 1),
               "bytes=%d-%d" % (B0, B1)]
    out = []
    for h in hs:
        if h not in out:
            out.append(h)
    return out


def routed_corpus_headers(n):
    return [None, "bytes=0-", "bytes=3-10", "bytes=%d-" % n, "bytes=%d-%d" % (n, n + 10), "bytes=%d-%d" % (max(n - 1, 0), n + 20),
            "bytes=-7", "bytes=-0", "bytes=2-5, 9-12", "bytes=9-2", "bytes=abc", "chars=0-5"]


def make_plans(ctx, rng, cfg=(2, 3, 4, 64)):
    """[{kind, chain (sizes: created, then overwritten ...)}]: literal, CHK, SDMF and MDMF; the mutable ones are
    read as created, after a shorter and after a longer overwrite (and once emptied)"""
    plans = []
    k, maxseg = cfg[0], cfg[3]

    def chk(n):
        return {"kind": "chk", "chain": [n], "seg": next_multiple(min(maxseg, n), k), "after": True}
    mseg = next_multiple(128 * 1024, k)
    if ctx.tier == "thorough":
        for n in sorted({0, 1, 2, LIT_MAX - 1, LIT_MAX} | {rng.randrange(0, LIT_MAX + 1) for _ in range(6)}):
            plans.append({"kind": "lit", "chain": [n]})
        for n in sorted({LIT_MAX + 1, 63, 64, 65, 128, 129, 300} | {rng.randrange(LIT_MAX + 1, 700) for _ in range(6)}):
            plans.append(chk(n))
        for kind in ("sdmf", "mdmf"):
            for _ in range(4):
                a = rng.randrange(1, 300)
                plans.append({"kind": kind, "chain": [a, rng.randrange(0, a), rng.randrange(a + 1, 700), rng.choice([0, 1, 64, 65])]})
            plans.append({"kind": kind, "chain": [0, 70, 3]})
        plans.append({"kind": "mdmf", "chain": [rng.choice([1, 2, 3]) * mseg + rng.randrange(1, mseg)], "seg": mseg, "only_seg": True})
        plans.append({"kind": "mdmf", "chain": [2 * mseg], "seg": mseg, "only_seg": True})      # a multiple of the segment size
    else:
        plans.append({"kind": "lit", "chain": [0]})
        plans.append({"kind": "lit", "chain": [rng.randrange(1, LIT_MAX + 1)]})
        plans.append(chk(rng.choice([LIT_MAX + 1, 64, 65, 129])))
        plans.append(chk(rng.randrange(130, 400)))
        for kind in ("sdmf", "mdmf"):
            a = rng.randrange(60, 200)
            plans.append({"kind": kind, "chain": [a, rng.randrange(1, a), rng.randrange(a + 1, 400), 0]})
    return plans


HEAD_FIELDS = [("status", None), ("content-range", "content-range"), ("content-length", "content-length"),
               ("accept-ranges", "accept-ranges"), ("content-type", "content-type")]


def next_multiple(n, k):
    return ((n + k - 1) // k) * k


DEFAULT_CFG = (ROUTED_K, 3, 4, CHK_SEG)          # (k, n, servers, client max_segment_size)
AES_CFG = (3, 5, 5, 64)                          # CHK segment size 66: not a multiple of the AES block (seeded C40-e)
# CHK file of 6 segments of 66 bytes; `after` adds ranges starting 1..15 bytes after every segment boundary
ROUTED_CORPUS_PLANS_AES = [{"kind": "chk", "chain": [334], "seg": 66, "after": True, "only_seg": True},
                           {"kind": "chk", "chain": [133], "seg": 66, "after": True}]


def after_boundary_headers(n, seg):
    """ranges whose first byte lies 1..15 bytes after a segment boundary (closed, open-ended and suffix forms)"""
    hs = []
    for B in range(seg, n, seg):
        for d in range(1, 16):
            a = B + d
            if a >= n:
                break
            hs.append("bytes=%d-%d" % (a, a + 20))
            if d in (1, 2, 7, 13, 15):
                hs.append("bytes=%d-" % a)
                hs.append("bytes=-%d" % (n - a))
            if d in (3, 9):
                hs.append("bytes=%d-%d" % (a, a))
    return hs


def run_routed(ctx, plans, cases, impl, lines, hand, only=None, corpus=False, cfg=DEFAULT_CFG):
    """GET and HEAD through the real resource tree for every (file state, Range header).
    `only` = (chain, hdr, inm) restricts to one state/header (replay)."""
    import grid
    from common import hx
    from allmydata.immutable import upload
    from allmydata.mutable.publish import MutableData
    from allmydata.interfaces import SDMF_VERSION, MDMF_VERSION
    quiet_twisted_log()
    rng = ctx.rng
    base = grid.fresh_dir("c40")
    try:
        with grid.Runtime(seed=0 if corpus else ctx.seed, policy="fifo") as rt:
            g = grid.Grid(base, rt, num_servers=cfg[2], num_clients=1, k=cfg[0], happy=1, n=cfg[1], max_segment_size=cfg[3])
            ctx.count("routed-grid:k=%d,n=%d,maxseg=%d" % (cfg[0], cfg[1], cfg[3]))
            c = g.clients[0]
            web = RoutedWeb(rt, c)
            for plan in plans:
                kind, chain = plan["kind"], plan["chain"]
                n0 = chain[0]
                if kind in ("lit", "chk"):
                    res = rt.wait(c.upload(upload.Data(file_of(n0), convergence=b"c40" + b"\x00" * 13)))
                    cap = res.get_uri().decode("ascii")
                    if cap.startswith("URI:LIT:") != (kind == "lit"):
                        raise RuntimeError("expected a %s cap for %d bytes, got %s" % (kind, n0, cap[:12]))
                else:
                    mn = rt.wait(c.create_mutable_file(MutableData(file_of(n0)),
                                                       version=SDMF_VERSION if kind == "sdmf" else MDMF_VERSION))
                    cap = mn.get_uri().decode("ascii")
                    if cap.startswith("URI:MDMF:") != (kind == "mdmf"):
                        raise RuntimeError("expected a %s cap, got %s" % (kind, cap[:12]))
                path = "/uri/" + cap
                # what the handler model is told about the node (independent of the ETag header it is compared with)
                from allmydata.util import base32
                si = c.create_node_from_uri(cap.encode("ascii")).get_storage_index()
                si_hex = hx(base32.b2a(si)) if si else "none"
                mut = "1" if kind in ("sdmf", "mdmf") else "0"
                for depth, n in enumerate(chain):
                    if depth > 0:
                        st, _, body = web.request("PUT", path, None, file_of(n))
                        if st != 200:
                            raise RuntimeError("PUT (overwrite with %d bytes) answered %r %r" % (n, st, body[:80]))
                    if only is not None and (chain[:depth + 1] != only[0]):
                        continue
                    if only is not None:
                        pairs = [(only[1], only[2])]
                    else:
                        base = [] if plan.get("only_seg") else (routed_corpus_headers(n) if corpus else
                                                                routed_headers(n, rng, ctx.tier == "thorough" and depth == 0))
                        if plan.get("seg"):
                            base = base + [None, "bytes=%d-" % (n - 1), "bytes=%d-%d" % (n - 3, n + 9)] + seg_headers(n, plan["seg"])
                            if plan.get("after"):
                                base = base + after_boundary_headers(n, plan["seg"])
                            ctx.count("routed-segment-boundary-headers:%s" % kind, len(seg_headers(n, plan["seg"])))
                        pairs = [(h, None) for h in base]
                        if plan.get("only_seg"):
                            pairs.append((None, "nonmatch"))
                        # conditional requests: If-None-Match with the file's own ETag, "*", a foreign tag, the tag in quotes
                        for h in (() if plan.get("only_seg") else (None, "bytes=1-3", "bytes=%d-" % n)):
                            for inm in (("match", "star", "nonmatch", "quoted", "multi", "near") if kind in ("lit", "chk") else ("nonmatch", "star")):
                                pairs.append((h, inm))
                    state = "created" if depth == 0 else ("shorter" if n < chain[depth - 1] else "longer")
                    ctx.count("routed-state:%s-%s" % (kind, state))
                    etag = None
                    if any(inm in NEEDS_ETAG for _, inm in pairs):
                        etag = web.request("GET", path, None)[1].get("etag")
                    for (h, inm) in pairs:
                        if inm in NEEDS_ETAG and etag is None:
                            ctx.count("routed-inm:no-etag-to-match:" + kind)      # literal files carry no ETag
                            continue
                        extra = None
                        if inm is not None:
                            extra = {"If-None-Match": {"match": etag, "star": "*", "nonmatch": "someothertag-",
                                                       "quoted": '"%s"' % etag, "multi": 'W/"x"  %s\t,y' % etag,
                                                       "near": "%sx %s" % (etag, (etag or "")[:-1])}[inm]}
                            ctx.count("routed-inm:%s:%s" % (inm, kind))
                        # with a matching tag (or "*" on a file that has an ETag) the answer is 304; otherwise as without the header
                        expect304 = inm in ("match", "multi") or (inm == "star" and kind == "chk")
                        got = {}
                        for m, meth in (("G", "GET"), ("H", "HEAD")):
                            status, rh, body = web.request(meth, path, h, extra=extra)
                            resp = (status, rh.get("content-range"), rh.get("content-length"), body)
                            got[m] = (resp, rh)
                            case = {"route": "site", "kind": kind, "chain": chain[:depth + 1], "size": n, "method": m, "hdr": h, "inm": inm,
                                    "seg": plan.get("seg"), "cfg": list(cfg), "after": plan.get("after")}
                            ctx.case(("site", kind, n, m, h, inm) if (h or inm) else None)
                            ctx.count("routed:%s:%s" % (kind, meth))
                            # handler-level correspondence (render_GET / render_HEAD model incl. ETag and If-None-Match)
                            hand[0].append(case)
                            hand[1].append(canon_h(status, rh, body))
                            hand[2].append("c40h %d %s %s %s %s %s" % (
                                n, m, mut, si_hex, "none" if extra is None else hx(extra["If-None-Match"].encode("ascii")),
                                "none" if h is None else hx(h.encode("ascii"))))
                            if expect304 or inm in ("quoted", "near"):
                                continue            # 304 / tag matching are in the handler model only (hand[...] above)
                            cases.append(case)
                            impl.append(canon(resp))
                            lines.append("c40 %d %s %s" % (n, m, "none" if h is None else hx(h.encode("ascii"))))
                        (gresp, gh), (hresp, hh) = got["G"], got["H"]
                        hcase = {"route": "site", "kind": kind, "chain": chain[:depth + 1], "size": n, "method": "H", "hdr": h, "inm": inm,
                                 "seg": plan.get("seg"), "cfg": list(cfg), "after": plan.get("after")}
                        what = "Range %r%s on a %d-byte %s file (%s)" % (h, "" if inm is None else " + If-None-Match (%s)" % inm, n, kind, state)
                        # --- HEAD: the same status and headers as GET, no body
                        for name, key in HEAD_FIELDS:
                            gv = gresp[0] if key is None else gh.get(key)
                            hv = hresp[0] if key is None else hh.get(key)
                            if gv != hv:
                                ctx.violation("HEAD differs from GET in %s for %s: GET %r, HEAD %r" % (
                                    name, what, (gresp[0], gresp[1], gresp[2]), (hresp[0], hresp[1], hresp[2])),
                                    hcase, "head-differs-from-get:" + name)
                                break
                        if hh.get("etag") != gh.get("etag"):
                            ctx.violation("HEAD ETag %r differs from GET ETag %r for %s" % (hh.get("etag"), gh.get("etag"), what),
                                          hcase, "head-differs-from-get:etag")
                        if hresp[3] != b"":
                            ctx.violation("HEAD carried a %d-byte body for %s" % (len(hresp[3]), what), hcase, "head-has-body")
                        if gresp[0] in (200, 206) and gh.get("accept-ranges") != "bytes":
                            ctx.violation("GET answer lacks Accept-Ranges: bytes (%r)" % (gh.get("accept-ranges"),),
                                          dict(hcase, method="G"), "accept-ranges-missing")
                        if expect304:
                            for m in "GH":
                                resp = got[m][0]
                                if resp[0] != 304 or resp[3] != b"":
                                    ctx.violation("%s with If-None-Match naming the file's ETag answers %r with a %d-byte body instead of 304 for %s" % (
                                        "GET" if m == "G" else "HEAD", resp[0], len(resp[3]), what), dict(hcase, method=m),
                                        "if-none-match-not-304:" + ("get" if m == "G" else "head"))
                            continue
                        if inm in ("quoted", "near"):
                            continue
                        # --- RFC 7233 oracle on both answers
                        acc, cls = acceptable(h, n)
                        for m in "GH":
                            resp = got[m][0]
                            ab = abstract(resp, n, m)
                            ctx.count("class:" + cls)
                            ctx.count("answer:%s" % ab[0])
                            if ab not in acc:
                                ctx.violation("%s through the web tree answers %r (%s) to %s; acceptable: %s" % (
                                    "GET" if m == "G" else "HEAD", canon(resp)[:80], "/".join(str(x) for x in ab), what,
                                    sorted(acc)), dict(hcase, method=m), body_signature(resp, h, n, kind, plan.get("seg")) or
                                    signature(h, n, cls, ab))
            g.close()
    finally:
        import shutil
        shutil.rmtree(base, ignore_errors=True)


def run(ctx):
    from common import hx
    rng = ctx.rng
    reqs = []     # (kind, n, method, hdr)
    routed_only = None
    plans = []
    if ctx.replay:
        c = ctx.replay["case"]
        if c.get("route") == "site":
            routed_only = (c["chain"], c["hdr"], c.get("inm"))
            plans = [{"kind": c["kind"], "chain": c["chain"], "seg": c.get("seg"), "after": c.get("after")}]
            replay_cfg = tuple(c.get("cfg") or DEFAULT_CFG)
        else:
            for m in "GH":
                reqs.append((c.get("node", "lit"), c["size"], m, c["hdr"]))
    else:
        for (n, h) in CORPUS:
            for m in "GH":
                reqs.append(("lit", n, m, h))
        corpus_only = bool(os.environ.get("VERIF_CORPUS_ONLY"))
        if corpus_only:
            sizes = []
            ctx.note("VERIF_CORPUS_ONLY: fixed corpus only")
        elif ctx.tier == "thorough":
            sizes = list(range(0, 301)) + [rng.randrange(301, 70000) for _ in range(40)]
        else:
            sizes = sorted({0, 1, 2, 3, 255, 256, 300} | {rng.randrange(0, 301) for _ in range(ctx.budget(9, 9))}) + \
                [rng.randrange(301, 70000) for _ in range(2)]
        for n in sizes:
            kind = "lit" if n <= 300 else "fake"
            for h in headers_for(n, rng):
                for m in "GH":
                    reqs.append((kind, n, m, h))
                if kind == "lit" and h is not None and rng.random() < 0.05:
                    reqs.append(("fake", n, "G", h))
        k = rng.choice([2, 3, 5])
        rcfg = (k, k + 2, k + 2, rng.choice([33, 40, 50, 64, 70, 100]))
        plans = [] if corpus_only else make_plans(ctx, rng, rcfg)
    impl = []
    cases = []
    got_by_key = {}
    for (kind, n, m, h) in reqs:
        resp = do_request(kind, n, m, h)
        impl.append(canon(resp))
        case = {"node": kind, "size": n, "method": m, "hdr": h}
        cases.append(case)
        ctx.case((kind, n, m, h) if h else None)
        # --- monitor
        acc, cls = acceptable(h, n)
        got = abstract(resp, n, m)
        ctx.count("class:" + cls)
        ctx.count("answer:%s" % got[0])
        if cls == "multi" and got == ("unsat",) and any(a[0] == "partial" for a in acc):
            ctx.count("note:multi-range-416-although-a-later-range-is-satisfiable")
        if got not in acc:
            ctx.violation("FileDownloader answers %r (%s) to Range %r on a %d-byte file (%s); acceptable: %s" % (
                canon(resp)[:80], "/".join(str(x) for x in got), h, n, "GET" if m == "G" else "HEAD", sorted(acc)),
                case, signature(h, n, cls, got))
        # HEAD: same status and headers as GET
        key = (kind, n, h)
        if key in got_by_key and got_by_key[key][0] != m:
            om, oresp = got_by_key[key]
            for name, i in (("status", 0), ("content-range", 1), ("content-length", 2)):
                if oresp[i] != resp[i] and not (i == 2 and resp[0] == 416):
                    ctx.violation("HEAD and GET differ in %s for Range %r on %d bytes (FileDownloader.render): %r vs %r" % (
                        name, h, n, oresp[:3], resp[:3]), case, "head-differs-from-get:" + name)
                    break
        got_by_key[key] = (m, resp)
    lines = ["c40 %d %s %s" % (n, m, "none" if h is None else hx(h.encode("ascii"))) for (_, n, m, h) in reqs]
    hand = ([], [], [])
    if not ctx.replay:
        run_routed(ctx, ROUTED_CORPUS_PLANS, cases, impl, lines, hand, corpus=True)      # fixed routed corpus first
        run_routed(ctx, ROUTED_CORPUS_PLANS_AES, cases, impl, lines, hand, corpus=True, cfg=AES_CFG)
    if plans:
        run_routed(ctx, plans, cases, impl, lines, hand, only=routed_only, cfg=replay_cfg if ctx.replay else rcfg)
    model = ctx.model(lines)
    ctx.compare("FileDownloader.render directly and through Site/Root/FileNodeHandler (status, Content-Range, Content-Length, body)",
                cases, impl, model)
    if hand[0]:
        ctx.compare("FileNodeHandler.render_GET / render_HEAD through Site/Root (status, ETag, Content-Range, Content-Length, body; "
                    "If-None-Match)", hand[0], hand[1], ctx.model(hand[2]))
    for i in (0, len(cases) // 2, len(cases) - 1):
        if cases:
            ctx.sample({"case": cases[i], "impl": impl[i][:120]})
