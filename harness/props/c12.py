"""C12 — concurrent writers are detected, never silently clobbered (publish.py / layout.py / storage test-and-set /
filenode.py retry loop)."""
ID = "C12"
LEAN_PROPS = "Tahoe.Props.C12"
DRIVER = "C12"
GENERATED = []
SOURCES = ["src/allmydata/mutable/publish.py", "src/allmydata/mutable/layout.py", "src/allmydata/storage/server.py",
           "src/allmydata/storage/mutable.py", "src/allmydata/mutable/filenode.py"]
DESIGN_REF = "DESIGN.md §2 C12"
TECHNIQUE = ("Lean 4 theorems over an executable model of W concurrent publishers against per-share test-and-set at the "
             "level of checkstrings, for arbitrary interleavings of atomic server operations and any W; trace validation: "
             "2-3 real MutableFileNode clients publish concurrently on the in-process grid under seeded delivery orders, "
             "every slot_readv / slot_testv_and_readv_and_writev is recorded at the server in execution order and the "
             "model replays the same schedule (wrote flag and test-vector kind of every write, final share versions, each "
             "publisher's outcome); deterministic staged and gated races in a fixed corpus that runs first; "
             "implementation-side monitors from the statement on the recorded events, the share files and the final "
             "contents (including concurrent modify() with the retry loop)")
LEVEL_TEXT = ("Proved in Lean for every schedule and every number of writers: write_only_if_unchanged and "
              "view_is_survey_or_own_write (a write changes a share only if it still holds what the writer's own survey or "
              "own previous write saw), new_share_write_must_not_exist (a share placed for the first time lands only on an "
              "empty slot), surprise_reported (a failed test or a foreign version ends in UncoordinatedWriteError), "
              "some_version_recoverable / _one_old ((old versions + W)*k <= N => some version keeps >= k distinct share "
              "numbers). modify_convergence_counterexample is the proved negation witness for the open finding. Tied to the "
              "code by replaying real concurrent runs through the model.")
LEVEL_NOTE = ("Lean kernel + standard axioms; the model is at checkstring level (C24 covers the byte-level test-and-set; the "
              "wire form of the test vectors is C47's wire_testv_guards); a writer is one publish attempt (a retry is a new "
              "writer); the stale-pinned-version defect of modify()'s retry loop is repaired in /repo (3e3100d); that "
              "concurrent modify() calls converge without losing a reported edit is NOT proved: it is false for the code as "
              "it is (open finding in known_findings.d/C12.json, reproduced deterministically by the corpus); writers "
              "crashing midway and lease side-effects are outside")
RULE = ("fixed corpus first (VERIF_CORPUS_ONLY=1 runs only it): staged races (every writer surveys, then they publish in turn: "
        "a lost share re-placed by both, the second writer losing every share, modify() after a competitor's publish, a "
        "partly failing first writer on servers with two shares) and a gated overlap (the first writer's requests in flight "
        "while the second surveys) — one per seeded change / repaired defect / open finding; then grid scenarios with 2 or "
        "3 clients (own NodeMaker, own remote references) holding the same write cap, SDMF and MDMF, k 1..3, N 2..10 on "
        "both sides of (W+1)*k <= N, 1..10 servers, in about half of them 1..3 share numbers lost beforehand, seeded random "
        "delivery order: (a) concurrent overwrite() — one case per publish attempt and per scenario; (b) concurrent modify() "
        "appending distinct tokens, starting from an empty or non-empty file — one case per modify; distinct = distinct "
        "(format,k,N,servers,W, outcome vector, final version layout); non-trivial = at least one write was refused")
TRUSTED = ["lean/Tahoe/Mutable/Race.lean is a hand-written abstraction of Publish + write proxies + storage test-and-set",
           "harness/grid.py and the recording/gating proxies of harness/props/c12.py around the real FoolscapStorageServer "
           "(per client) and Publish.publish / ServermapUpdater._got_results (call-through)"]
ASSUMPTIONS = ["distinct publishes produce distinct checkstrings (fresh salts / different contents)",
               "no server fails during the race except where a corpus scenario injects it (failures are C47's subject)",
               "the survey a publish relies on is the set of slot_readv answers its servermap update accepted",
               "UnrecoverableFileError / NotEnoughSharesError seen by a modify() caller come from a survey or download taken "
               "while another writer is half-way, never from a publish: they are counted, not flagged"]

from props import _mutable_common as mc


class Recorder:
    """One per scenario: records server-side operations in execution order, attributed to clients."""

    def __init__(self):
        self.events = []
        self.by_id = {}
        self.attempts = {}       # client -> number of publishes started
        self.pubs = []           # dicts per publish attempt
        self.client_of_broker = {}
        self.interned = {}
        self.gate = None         # {"holder": client, "early": [shnums written at once], "lost": [shnums whose request is lost]}
        self.held = []
        self.released = False

    def release(self):
        """the held requests reach their servers now (those marked lost fail instead), in the order they were sent"""
        self.released = True
        held, self.held = self.held, []
        for (d, proxy, args, lost) in held:
            if lost:
                d.errback(RuntimeError("request lost"))
            else:
                d.callback(proxy._execute(*args))

    def vid(self, cs):
        if cs is None:
            return None
        return self.interned.setdefault(cs[1:], len(self.interned) + 1)

    def proxy(self, original, c, srv, si_holder):
        rec = self

        class Proxy:
            def __getattr__(self, name):
                return getattr(original, name)

            def remote_slot_readv(self, si, shares, readv):
                res = original.remote_slot_readv(si, shares, readv)
                cur = original.remote_slot_readv(si, [], [(0, 57)])
                ev = {"kind": "s", "c": c, "srv": srv, "used": False,
                      "state": {sh: mc.parse_checkstring(v[0]) for sh, v in cur.items()}}
                rec.events.append(ev)
                rec.by_id[id(res)] = ev
                return res

            def remote_slot_testv_and_readv_and_writev(self, si, secrets, tw, rv):
                gate = rec.gate
                if gate is not None and not rec.released:
                    if c == gate["holder"] and not (set(tw) <= set(gate["early"])):
                        # this writer's request is on its way: it reaches the server when the gate opens
                        from twisted.internet import defer
                        d = defer.Deferred()
                        rec.held.append((d, self, (si, secrets, tw, rv), bool(set(tw) & set(gate["lost"]))))
                        return d
                    if c != gate["holder"]:
                        rec.release()          # the other writer's first write: the held requests arrive just before it
                return self._execute(si, secrets, tw, rv)

            def _execute(self, si, secrets, tw, rv):
                before = {sh: mc.parse_checkstring(v[0]) for sh, v in original.remote_slot_readv(si, [], [(0, 57)]).items()}
                res = original.remote_slot_testv_and_readv_and_writev(si, secrets, tw, rv)
                after = {sh: mc.parse_checkstring(v[0]) for sh, v in original.remote_slot_readv(si, [], [(0, 57)]).items()}
                for sh in tw:
                    testv = list(tw[sh][0])
                    if any(len(t[-1]) == 0 and t[1] >= 1 for t in testv):
                        tkind = "E"          # "the share must not exist": reading >= 1 byte must yield nothing
                    elif not testv or all(t[1] == 0 and len(t[-1]) == 0 for t in testv):
                        tkind = "A"          # no effective test: the write is unconditional
                    else:
                        tkind = "V"          # the share must hold a given checkstring
                    rec.events.append({"kind": "w", "c": c, "srv": srv, "sh": sh, "wrote": bool(res[0]), "tkind": tkind,
                                       "before": before.get(sh), "after": after.get(sh),
                                       "attempt": rec.attempts.get(c, 0), "all_before": before})
                return res
        return Proxy()

    def install(self, g, nclients):
        from allmydata.mutable import publish as P, servermap as SM
        rec = self
        for (c, srv), w in g.client_wrappers.items():
            w.original = self.proxy(w.original, c, srv, None)
        for c, cl in enumerate(g.clients):
            self.client_of_broker[id(cl.storage_broker)] = c
        self._saved = (P.Publish.publish, SM.ServermapUpdater._got_results)
        o_publish, o_got = self._saved

        def publish(p, newdata):
            c = rec.client_of_broker.get(id(p._storage_broker))
            rec.attempts[c] = rec.attempts.get(c, 0) + 1
            r = {"c": c, "attempt": rec.attempts[c], "p": p, "result": None}
            rec.pubs.append(r)
            d = o_publish(p, newdata)
            r["goal"] = sorted((rec.sidx(s), sh) for (s, sh) in p.goal)

            def fin(res):
                from twisted.python.failure import Failure
                r["result"] = "success" if not isinstance(res, Failure) else type(res.value).__name__
                r["checkstring"] = mc.parse_checkstring(p._checkstring) if p._checkstring else None
                return res
            return d.addBoth(fin)

        def got_results(u, datavs, server, readsize, storage_index, started):
            ev = rec.by_id.get(id(datavs))
            if ev is not None and u._running:
                ev["used"] = True
                ev["attempt"] = rec.attempts.get(ev["c"], 0) + 1
            return o_got(u, datavs, server, readsize, storage_index, started)
        P.Publish.publish, SM.ServermapUpdater._got_results = publish, got_results

    def uninstall(self):
        from allmydata.mutable import publish as P, servermap as SM
        P.Publish.publish, SM.ServermapUpdater._got_results = self._saved


def gen_scenario(rng, kind):
    W = rng.choice([2, 2, 3])
    k = rng.randrange(1, 4)
    inside = rng.random() < 0.5
    lo = (W + 1) * k
    if inside and lo <= 10:
        n = rng.randrange(lo, 11)
    else:
        n = rng.randrange(max(k, 2), max(k, 2, min(10, lo - 1)) + 1)
    S = rng.randrange(1, 11)
    # shares lost before the race (their files are removed): the writers' surveys see no such share and
    # every writer places it afresh — the "does not exist yet" half of the statement
    lose = []
    if n > k and rng.random() < 0.55:
        lose = sorted(rng.sample(range(n), rng.randrange(1, min(3, n - k) + 1)))
    return {"lose": lose, "kind": kind, "W": W, "k": k, "n": n, "servers": S, "fmt": rng.choice("sm"),
            "sched": rng.randrange(1 << 30), "initial": rng.choice(["", "base", "0123456789abcdefXYZ"]),
            "stagger": rng.choice([0, 0, 0, 5, 40])}


def run_scenario(ctx, sc, acc):
    import grid
    from allmydata.mutable.publish import MutableData
    from allmydata.interfaces import SDMF_VERSION, MDMF_VERSION
    case = {"kind": "scenario", "sc": sc}
    W, k, n = sc["W"], sc["k"], sc["n"]
    rec = Recorder()
    try:
        with grid.Runtime(seed=sc["sched"], policy="random") as rt:
            g = mc.make_grid("c12", rt, sc["servers"], W + 1, k, n, per_client_wrappers=True)
            rec.sidx = mc.server_number(g)
            installed = False
            try:
                creator = g.clients[W]
                node0 = rt.wait(creator.create_mutable_file(
                    MutableData(sc["initial"].encode()), version=MDMF_VERSION if sc["fmt"] == "m" else SDMF_VERSION,
                    unique_keypair=mc.keypair()))
                si = node0.get_storage_index()
                cap = node0.get_uri()
                nodes = [g.clients[c].create_node_from_uri(cap) for c in range(W)]
                import os
                for (i, sh, p) in g.share_files(si):
                    if sh in sc.get("lose", ()):
                        os.unlink(p)
                ctx.count("race-shares-lost-before:%d" % len(sc.get("lose", ())))
                initial = mc.disk_state(g, si)
                rec.install(g, W)
                installed = True
                tokens = [b"<w%d>" % c for c in range(W)]
                ds = []
                outcomes = []
                if sc.get("gate"):
                    # a deterministic overlap: the first writer runs until only its gated requests are in flight; the second
                    # writer then surveys (catching the first half-way) and publishes; the gate opens at its first write
                    rec.gate = dict(sc["gate"], holder=0)
                    mod = lambda c_: nodes[c_].modify(lambda old, sm, first, _t=tokens[c_]: old if _t in old else old + _t)
                    ds.append(mod(0))
                    rt.settle()
                    ds.append(mod(1))
                elif sc.get("staged"):
                    # a deterministic race: every writer surveys first (its own version object and servermap), then the
                    # writers publish one after the other
                    mvs = [rt.wait(nodes[c].get_best_mutable_version()) for c in range(W)]
                    for c in range(W):
                        for srv_, mode_ in sc.get("afail", {}).get(str(c), {}).items():
                            def fault(methname, args, kwargs, _m=mode_):
                                if methname != "slot_testv_and_readv_and_writev":
                                    return None
                                shs = sorted(args[2])
                                return "error" if (_m == "all" or (shs and shs[0] < 2)) else None
                            g.client_wrappers[(c, int(srv_))].fault = fault
                        try:
                            if sc["kind"] == "overwrite":
                                rt.wait(mvs[c].overwrite(MutableData(b"content of writer %d" % c)))
                            else:
                                rt.wait(mvs[c].modify(lambda old, sm, first, _t=tokens[c]: old if _t in old else old + _t))
                            outcomes.append("success")
                        except grid.Stuck:
                            outcomes.append("stuck")
                        except Exception as e:
                            outcomes.append(mc.exc_name(e))
                        for srv_ in sc.get("afail", {}).get(str(c), {}):
                            g.client_wrappers[(c, int(srv_))].fault = None
                else:
                    for c in range(W):
                        if sc["kind"] == "overwrite":
                            ds.append(nodes[c].overwrite(MutableData(b"content of writer %d" % c)))
                        else:
                            ds.append(nodes[c].modify(lambda old, sm, first, _t=tokens[c]: old if _t in old else old + _t))
                        for _ in range(sc["stagger"]):
                            if not rt.step():
                                break
                for d in ds:
                    try:
                        rt.wait(d)
                        outcomes.append("success")
                    except grid.Stuck:
                        outcomes.append("stuck")
                    except Exception as e:
                        outcomes.append(mc.exc_name(e))
                rec.uninstall()
                installed = False
                final = mc.disk_state(g, si)
                for o in outcomes:
                    ctx.count("%s-outcome:%s" % (sc["kind"], o))
                # ---- monitor 1/2 on the recorded events: survey view per (client, attempt)
                view = {}        # (c, attempt) -> {(srv, sh): checkstring or None}
                surveyed = {}    # (c, attempt) -> set of servers
                met_different = set()
                first_write_seen, published_despite_newer = set(), set()
                nrefused = 0
                for ev in rec.events:
                    if ev["kind"] == "s":
                        if ev["used"]:
                            key = (ev["c"], ev["attempt"])
                            v = view.setdefault(key, {})
                            for slot in [s for s in v if s[0] == ev["srv"]]:
                                v[slot] = None
                            for sh, cs in ev["state"].items():
                                v[(ev["srv"], sh)] = cs
                            surveyed.setdefault(key, set()).add(ev["srv"])
                        continue
                    key = (ev["c"], ev["attempt"])
                    if key not in first_write_seen:
                        # the survey this attempt publishes against: did it show a version newer than every
                        # recoverable one, but with fewer than k shares (another writer caught half-way)?
                        first_write_seen.add(key)
                        byv = {}
                        for (srv_, sh_), cs_ in view.get(key, {}).items():
                            if cs_ and cs_[0] != "?":
                                byv.setdefault(cs_[1:], set()).add(sh_)
                        top = max([v_[0] for v_, shs_ in byv.items() if len(shs_) >= k], default=-1)
                        if any(v_[0] > top for v_, shs_ in byv.items() if len(shs_) < k):
                            published_despite_newer.add(key)
                    believed = view.get(key, {}).get((ev["srv"], ev["sh"]))
                    if ev["before"] != believed:
                        met_different.add(key)
                    if believed is None:
                        ctx.count("race-new-share-write:%s" % ("landed" if ev["wrote"] else "refused"))
                        if ev["wrote"] and ev["before"] is not None:
                            ctx.count("race-new-share-write-over-existing-share")
                    if ev["wrote"] and ev["after"] != ev["before"]:
                        if ev["before"] != believed:
                            ctx.violation("client %d overwrote share %d on server %d holding %r; its survey saw %r" % (
                                ev["c"], ev["sh"], ev["srv"], ev["before"] and ev["before"][:2], believed and believed[:2]),
                                case, "write-clobbered-version-not-surveyed")
                        view.setdefault(key, {})[(ev["srv"], ev["sh"])] = ev["after"]
                    if not ev["wrote"]:
                        nrefused += 1
                        if ev["after"] != ev["before"]:
                            ctx.violation("a refused write (wrote=False) changed the share", case, "refused-write-changed-share")
                for r in rec.pubs:
                    key = (r["c"], r["attempt"])
                    ctx.case(("attempt", sc["fmt"], k, n, W, r["result"], key in met_different) if key in met_different else None)
                    ctx.count("publish-attempt:%s" % r["result"])
                    if key in met_different and r["result"] != "UncoordinatedWriteError":
                        ctx.violation("publish attempt %r met a version different from its survey but ended with %s" % (
                            key, r["result"]), case, "different-version-met-but-not-reported")
                    if r["result"] not in ("success", "UncoordinatedWriteError"):
                        ctx.violation("a concurrent publish ended with %s (neither success nor UncoordinatedWriteError)" % r["result"],
                                      case, "publish-wrong-error-class:" + str(r["result"]))
                # ---- monitor 3: caller-visible outcome classes (outside the (W+1)k <= N bound the race may leave no
                # version recoverable; a retry then legitimately reports that the file is unrecoverable)
                nwriters = len(rec.pubs)
                inside = (nwriters + 1) * k <= n
                # UnrecoverableFileError / NotEnoughSharesError come from a survey or download, never from a publish:
                # outside the bound the race may leave nothing recoverable, and a survey taken while another writer is
                # half-way (old version down to < k shares, new one not yet at k) legitimately finds nothing either.
                # They are counted; the publish-level rule above stays strict and KeyError etc. are still flagged.
                allowed = {"success", "UncoordinatedWriteError", "UnrecoverableFileError", "NotEnoughSharesError"}
                for c, o in enumerate(outcomes):
                    if o not in allowed:
                        ctx.violation("%s() of client %d under contention ended with %s instead of success or "
                                      "UncoordinatedWriteError" % (sc["kind"], c, o), case,
                                      "%s-wrong-error-class:%s" % (sc["kind"], o))
                # ---- monitor 4: within the bound some version stays recoverable
                by = {}
                for (i, sh), cs in final.items():
                    if cs and cs[0] != "?":
                        by.setdefault(cs[1:], set()).add(sh)
                recoverable = [key for key, shs in by.items() if len(shs) >= k]
                ctx.count("race-%s-bound:%s" % ("inside" if inside else "outside", "recoverable" if recoverable else "NONE-RECOVERABLE"))
                reader = g.clients[W].create_node_from_uri(cap)
                try:
                    content = rt.wait(reader.download_best_version())
                except Exception as e:
                    content = None
                    if inside and "stuck" not in outcomes:
                        ctx.violation("(writers+1)*k <= N (%d attempts, k=%d, N=%d) but the file cannot be read afterwards: %s" % (
                            nwriters, k, n, mc.exc_name(e)), case, "no-version-recoverable-within-bound")
                if inside and not recoverable and "stuck" not in outcomes:
                    ctx.violation("(writers+1)*k <= N but no version has k distinct shares on disk", case,
                                  "no-version-with-k-shares-within-bound")
                # ---- monitor 5: modify never loses a successful edit silently
                if sc["kind"] == "modify" and content is not None:
                    for c, o in enumerate(outcomes):
                        if o == "success" and tokens[c] not in content:
                            # classify: some attempt published although its own survey showed an unrecoverable version
                            # newer than its base (ServerMap.unrecoverable_newer_versions(): "a write will lose data")
                            sig = "modify-success-edit-lost"
                            if published_despite_newer:
                                sig += ":writer-published-despite-unrecoverable-newer-version-in-its-survey"
                            ctx.violation("modify() of client %d reported success but its edit is missing from the final "
                                          "contents %r" % (c, content[:60]), case, sig,
                                          detail={"attempts-with-newer-unrecoverable-in-survey": sorted(published_despite_newer)})
                ctx.case(("scenario", sc["kind"], sc["fmt"], k, n, W, tuple(outcomes), tuple(sorted(len(s) for s in by.values())))
                         if nrefused else None)
                # ---- correspondence: replay the schedule through the model (overwrite scenarios: no retries/downloads)
                if sc["kind"] == "overwrite" and "stuck" not in outcomes and not sc.get("afail"):
                    wid = {}
                    decl = []
                    for r in rec.pubs:
                        key = (r["c"], r["attempt"])
                        wid[key] = len(wid)
                        news = [ev["after"] for ev in rec.events if ev["kind"] == "w" and (ev["c"], ev["attempt"]) == key and ev["wrote"]]
                        ver = rec.vid(news[0]) if news else 0
                        expect = rec.vid(r.get("checkstring"))
                        decl.append("%d:%d:%s:%s" % (wid[key], ver, "N" if expect is None else expect,
                                                     "+".join("%d.%d" % x for x in r["goal"]) or "-"))
                    toks, flags, kinds = [], [], []
                    for ev in rec.events:
                        key = (ev["c"], ev.get("attempt"))
                        if key not in wid:
                            continue
                        if ev["kind"] == "s" and ev["used"]:
                            toks.append("s:%d:%d" % (wid[key], ev["srv"]))
                        elif ev["kind"] == "w":
                            toks.append("w:%d:%d.%d" % (wid[key], ev["srv"], ev["sh"]))
                            flags.append("T" if ev["wrote"] else "F")
                            kinds.append(ev["tkind"])
                    store0 = ",".join("%d.%d=%d" % (i, sh, rec.vid(cs)) for (i, sh), cs in sorted(initial.items())) or "-"
                    line = "race %d %d %s %s %s" % (n + 2, k, store0, ";".join(decl) or "-", " ".join(toks))
                    fin = ",".join("%d.%d=%d" % (i, sh, rec.vid(cs)) for (i, sh), cs in sorted(final.items())) or "-"
                    outs = ",".join("%d=%s" % (wid[(r["c"], r["attempt"])], r["result"]) for r in rec.pubs) or "-"
                    acc["lines"].append(line)
                    acc["impl"].append("%s;%s;%s;%s" % ("".join(flags) or "-", "".join(kinds) or "-", fin, outs))
                    acc["cases"].append({"kind": "race", "sc": sc, "line": line[:3000]})
            finally:
                if installed:
                    rec.uninstall()
                g.close()
    except grid.Stuck:
        ctx.count("grid-stuck")


def strip_flags(model_out):
    """model prints `w=outcome/refused/surprised`; the implementation side compares the outcome"""
    f = model_out.split(";")
    if len(f) == 4 and f[3] != "-":
        f[3] = ",".join(x.split("/")[0] for x in f[3].split(","))
    return ";".join(f)



# fixed corpus of deterministic races (every writer surveys, then they publish in turn): one per known mechanism
_ST = {"W": 2, "stagger": 0, "staged": True, "sched": 3}
STAGED_CORPUS = [
    # C12-a: a share is lost; both writers place it afresh on the same server, the second after the first (SDMF, MDMF)
    dict(_ST, kind="overwrite", k=2, n=4, servers=4, fmt="s", initial="base", lose=[3]),
    dict(_ST, kind="overwrite", k=2, n=4, servers=4, fmt="m", initial="base", lose=[3]),
    # C12-c: the second writer loses every share: it must end in UncoordinatedWriteError (both formats)
    dict(_ST, kind="overwrite", k=2, n=4, servers=4, fmt="m", initial="base"),
    dict(_ST, kind="overwrite", k=2, n=4, servers=4, fmt="s", initial="base"),
    # 3e3100d: modify() retried after UncoordinatedWriteError with its stale pinned version: empty file (a new
    # directory) -> the first writer's edit vanished; non-empty file -> KeyError
    dict(_ST, kind="modify", k=2, n=4, servers=4, fmt="s", initial=""),
    dict(_ST, kind="modify", k=2, n=4, servers=4, fmt="s", initial="base"),
    dict(_ST, kind="modify", k=2, n=4, servers=4, fmt="m", initial="base"),
] + [
    # C12-b: two shares per server (share i on server i mod 2); the first writer's requests for shares 0 and 1 on server 0
    # and all its requests to server 1 fail, so the second writer wins share 0 on server 0 and loses share 2 there
    # (several arrival orders: the refusal has to be processed before the acceptance)
    dict(_ST, kind="overwrite", k=1, n=4, servers=2, fmt=f, initial="base", sched=sd, afail={"0": {"0": "low", "1": "all"}})
    for sd in range(1, 7) for f in "sm"
]


def replay_case(replay):
    """the case of a replay file: a violation's case, or the case of the first recorded disagreement"""
    if replay.get("case"):
        return replay["case"]
    for d in replay.get("correspondence_disagreements", []) + replay.get("disagreements", []):
        if d.get("case"):
            return d["case"]
    raise KeyError("replay file holds no case")

def run(ctx):
    if ctx.replay:
        scs = [replay_case(ctx.replay)["sc"]]
    else:
        import os
        corpus_only = bool(os.environ.get("VERIF_CORPUS_ONLY"))
        scs = [gen_scenario(ctx.rng, "overwrite") for _ in range(0 if corpus_only else ctx.budget(90, 1500))]
        scs += [gen_scenario(ctx.rng, "modify") for _ in range(0 if corpus_only else ctx.budget(50, 800))]
        scs = [dict(sc) for sc in STAGED_CORPUS] + scs
        # fixed corpus first: a fresh empty file (the state of a new directory) edited by two clients
        scs.insert(0, {"kind": "modify", "W": 2, "k": 2, "n": 4, "servers": 4, "fmt": "s", "sched": 19, "initial": "",
                       "stagger": 0})
        scs.insert(1, {"kind": "modify", "W": 2, "k": 2, "n": 4, "servers": 4, "fmt": "s", "sched": 19, "initial": "base",
                       "stagger": 0})
        # known finding (known_findings.d/C12.json): a survey that catches the competitor half-way
        scs.insert(2, {"kind": "modify", "W": 2, "k": 3, "n": 9, "servers": 3, "fmt": "s", "sched": 24, "initial": "base",
                       "stagger": 0, "lose": [0, 5, 8]})
        # the same finding, deterministically: one share per server; writer 0's write of share 0 lands at once, its
        # request for share 1 is lost and those for shares 2, 3 are in flight while writer 1 surveys; they arrive just
        # before writer 1's first write
        for f_ in "sm":
            scs.insert(3, {"kind": "modify", "W": 2, "k": 2, "n": 4, "servers": 4, "fmt": f_, "sched": 3, "initial": "base",
                           "stagger": 0, "gate": {"early": [0], "lost": [1]}})
    acc = {"lines": [], "impl": [], "cases": []}
    for sc in scs:
        run_scenario(ctx, sc, acc)
    model = ctx.model(acc["lines"])
    if model is not None:
        ctx.compare("concurrent publishes replayed through the model (wrote flag and test-vector kind — must-not-exist / "
                    "must-hold-checkstring — of every write in server order, final share versions, each publisher's outcome)", acc["cases"], acc["impl"], [strip_flags(m) for m in model])
    if acc["lines"]:
        ctx.sample({"race": acc["lines"][-1][:400], "impl": acc["impl"][-1][:300]})
