"""C45 — immutable check, verify and repair (in-process grid; per-share verdicts vs the Lean verifier model)."""
import os
import struct

from common import hx

ID = "C45"
LEAN_PROPS = "Tahoe.Props.C45"
DRIVER = "C45"
GENERATED = []
SOURCES = ["src/allmydata/immutable/checker.py", "src/allmydata/immutable/repairer.py", "src/allmydata/immutable/filenode.py",
           "src/allmydata/immutable/upload.py", "src/allmydata/check_results.py", "src/allmydata/immutable/layout.py"]
DESIGN_REF = "DESIGN.md §2 C45"
TECHNIQUE = ("Lean 4 proofs over an executable model of the verifier (ValidatedExtendedURIProxy, ValidatedReadBucketProxy, "
             "Checker._download_and_verify with its error classification), of the check without verification "
             "(_check_server_shares), of _format_results, of CiphertextFileNode._maybe_repair / _gather_repair_results, of the "
             "Repairer's encoding parameters and of the storage behaviour repair relies on, reusing the hash-tree soundness of C35 "
             "and the download theorems of C02. Correspondence (real SHA-256d, real UEB parser): per-share verdicts of real "
             "check(verify=True) runs vs the model on the same share bytes; crafted UEBs vs _parse_and_validate; random result lists "
             "vs _format_results (summary and corrupt / incompatible lists); claiming / failing servers vs _check_server_shares; the "
             "recorded repair decision, repairer encoding parameters and post-repair merge vs the model. Monitor on the in-process "
             "grid: a fixed corpus (one plan per repaired defect and per seeded change, VERIF_CORPUS_ONLY=1 runs only it), then shares "
             "deleted / corrupted per field / consistently forged on grids with one or several shares per server, check with and "
             "without verify, check_and_repair (also through a verify-cap node), post-repair results vs a fresh verify by a second "
             "client, read from the repaired shares only, byte-identity of pre-existing shares")
LEVEL_TEXT = ("Proved (28 theorems, one _partial): verified_good_implies_all_valid (a share the verifier reports good carries the published UEB, "
              "exactly the uploader's blocks and only published hash-tree nodes, for arbitrary server answers; each share read with "
              "its own trees); healthy_iff_N_good, recoverable_iff_k_good, corrupt_shares_listed (the arithmetic and lists of "
              "_format_results); noverify_believes_servers (verify=False counts exactly the claimed share numbers); "
              "recoverable_unhealthy_repair_attempted (the repair decision depends on distinct good share numbers, not hosts); "
              "repair_uses_original_parameters + repair_regenerates_identical_shares (k, N from the cap, segment size from the "
              "validated UEB; a completed repair read re-publishes exactly the original cap, UEB, trees and blocks); "
              "post_repair_healthy_implies_N_good; repair_never_alters_good_shares (abstract storage spec). "
              "verified_good_counterexample keeps the negation witness for the verifier as it was before the fix (a share with "
              "consistently forged blocks + block hash tree was reported good). Partially proved: that the file can be read from "
              "the repaired shares alone — repair_output_is_encoder_output (repaired shares = the uploader's shares, derived "
              "parameters included), repaired_share_passes_share_hash_stage / _block_hash_stage / _ct_stage and "
              "repaired_share_block_accepted (each validation stage of Share._satisfy_* accepts such shares: share hash chain, "
              "block hash tree, crypttext hash tree, data block; C35 completeness), readable_from_repaired_shares_partial (one share set; a read over it writes only a prefix of the "
              "file and done => the file); repaired_share_block_fetch_chain chains the block-hash and data stages on one node; validation_stages_keep_trees_closed / _sibclosed show Closed and SibClosed, the "
              "premises of the acceptance and whole-pass theorems, are invariants of every tree-writing stage, and "
              "share_tree_closed_on_every_reachable_node / ct_tree_closed_on_every_reachable_node lift them over any history of passes; "
              "anchored_repaired_share_delivers_block threads one whole _get_satisfaction pass (all eight stages) for an anchored "
              "repaired share, fresh_repaired_share_delivers_block does the same for the first pass over a share (share hash chain "
              "accepted, block root taken from the validated leaf), known_chain_repaired_share_delivers_block for a new share whose "
              "chain is already held: the answer is exactly the published block; missing links: the "
              "induction over the fetch history, "
              "decoding of any k blocks (C36 immutable_any_k_blocks_decode_rs256), termination (C03/C46); end to end this clause "
              "is checked by the monitor (read from repaired shares only).")
LEVEL_NOTE = ("Lean kernel + standard axioms; hash collision-freeness and the UEB round trip are hypotheses; upload placement, "
              "happiness and the storage server are C06/C07/C22; the download-then-upload plumbing of the Repairer is exercised "
              "on the grid, not verified. The defect found here (the verifier never compared the block hash tree root with the "
              "share hash tree) is repaired in /repo (fb3513d); the model's VCfg.asIs / verified_good_counterexample and the corpus "
              "case document it.")
RULE = ("fixed corpus first (independent of the seed): consistently forged blocks; a damaged crypttext hash tree on one-segment and "
        "multi-segment files under three delivery orders; repair of multi-segment files shorter than the default segment size; "
        "shares corrupt in place followed by check_and_repair(verify=True); >= k good shares left on fewer than k servers. Then one "
        "case = one uploaded file (k/N/segment sizes incl. multi-segment, N >= 2k for the read-from-repaired-shares cases; one "
        "share per server, or several shares per server on 1-3 servers) with "
        "every share independently kept / deleted / corrupted in one named field / truncated / forged consistently, then "
        "check(verify=False), check(verify=True) and check_and_repair (incl. a family with 1-2 shares corrupted in place at a named site "
        "plus deletions, verify=True), whose post-repair results are compared field by field with a fresh check(verify=True) by a "
        "second client; distinct = distinct (file, per-share plan, seed); "
        "non-trivial = at least one share deleted or altered. Function-level cases: crafted UEBs, random per-server result lists, "
        "servers claiming arbitrary share numbers or failing.")
TRUSTED = ["harness/grid.py", "the reference validity test of the monitor (layout-directed comparison of every stored item with "
           "the uploaded share: harness/props/c45.py items())",
           "observation-only hooks on CiphertextFileNode._gather_repair_results and Repairer.get_all_encoding_parameters"]
ASSUMPTIONS = ["SHA-256d collision-freeness / pair-hash injectivity / non-empty hashes (hypotheses)",
               "uri.unpack_extension(pack_extension(d)) returns the published fields (Setup.ser_ok; C38)",
               "storage server semantics of allocate_buckets / close as in the abstract Store (C22)",
               "the upload results' sharemap lists only shares the upload wrote (hypothesis of post_repair_healthy_implies_N_good; "
               "checked by the post-repair vs fresh-verify monitor)",
               "the uploader is deterministic in (ciphertext, k, N, segment size): regenerated shares are compared byte for byte"]


def c2():
    from props import c02
    return c02


def verifier_mode():
    import inspect
    from allmydata.immutable import checker
    src = inspect.getsource(checker.ValidatedReadBucketProxy.get_all_blockhashes)
    return "fixed" if "get_leaf" in src else "asis"


def items(body, size, k):
    """layout-directed extraction of everything a reader uses from a share body (None = unusable)"""
    try:
        C2 = c2()
        ver, fs, v, pos = C2.parse(body)
        if ver not in (1, 2) or len(body) < 4 + 8 * fs:
            return None
        ueb_len = int.from_bytes(body[v["uri_extension"]:v["uri_extension"] + fs], "big")
        ueb = body[v["uri_extension"] + fs:v["uri_extension"] + fs + ueb_len]
        from allmydata import uri
        d = uri.unpack_extension(ueb)
        seg = d["segment_size"]
        nseg = -(-size // seg)
        bs = seg // k
        tail = size % seg or seg
        tbs = -(-tail // k)
        blocks = []
        for i in range(nseg):
            ln = tbs if i == nseg - 1 else bs
            blocks.append(body[v["data"] + i * bs:v["data"] + i * bs + ln])
        sh = body[v["share_hashes"]:v["uri_extension"]]
        if v["uri_extension"] < v["share_hashes"] or len(sh) != v["uri_extension"] - v["share_hashes"]:
            return None
        return (ueb, tuple(blocks), body[v["crypttext_hash_tree"]:v["block_hashes"]], body[v["block_hashes"]:v["share_hashes"]], sh)
    except Exception:
        return None


def forge(body, size, k):
    """replace every block and recompute the block hash tree over the forged blocks (self-consistent forgery)"""
    from allmydata import hashtree
    from allmydata.util import hashutil
    C2 = c2()
    it = items(body, size, k)
    ver, fs, v, pos = C2.parse(body)
    blocks = [bytes(b ^ 0x5a for b in blk) for blk in it[1]]
    t = hashtree.HashTree([hashutil.block_hash(b) for b in blocks])
    bh = b"".join(list(t))
    if len(bh) != v["share_hashes"] - v["block_hashes"]:
        return body
    data = b"".join(blocks)
    return body[:v["data"]] + data + body[v["data"] + len(data):v["block_hashes"]] + bh + body[v["share_hashes"]:]


FILES = [(100, 1, 2, 32), (200, 2, 4, 64), (333, 3, 6, 42), (150, 1, 3, 64), (700, 3, 10, 128), (64, 2, 5, 32), (1000, 4, 8, 250),
         (90, 2, 2, 1000),
         # (size, k, N, max segment size, number of servers): several shares per server, so that >= k good shares can sit
         # on fewer than k servers
         (400, 3, 10, 64, 2), (200, 2, 4, 64, 1), (500, 4, 7, 128, 3), (300, 3, 6, 100, 2)]


def sm_of(sharemap, srv_of):
    """{shnum: sorted server numbers} of a DictOfSets keyed by shnum with IServer values"""
    return {sh: sorted(srv_of[s.get_serverid()] for s in servers) for sh, servers in sharemap.items() if servers}


def sm_tok(sm):
    return ";".join("%d:%s" % (sh, ".".join(map(str, srvs))) for sh, srvs in sorted(sm.items())) or "-"


def compare_post_repair(ctx, rcase, crr, prr, fresh, srv_of, n):
    """what check_and_repair(verify=True) reports about the state AFTER the repair vs a fresh verify of that state"""
    post_sm = sm_of(prr.get_sharemap(), srv_of)
    fresh_sm = sm_of(fresh.get_sharemap(), srv_of)
    fields = [("is_healthy", prr.is_healthy(), fresh.is_healthy()),
              ("repair_successful", crr.get_repair_successful() if crr.get_repair_attempted() else prr.is_healthy(), fresh.is_healthy()),
              ("is_recoverable", prr.is_recoverable(), fresh.is_recoverable()),
              ("count_shares_good", prr.get_share_counter_good(), fresh.get_share_counter_good()),
              ("count_good_share_hosts", prr.get_host_counter_good_shares(), fresh.get_host_counter_good_shares())]
    detail = {"post": {"sharemap": sm_tok(post_sm)}, "fresh": {"sharemap": sm_tok(fresh_sm)}}
    for name, a, b in fields:
        detail["post"][name] = a
        detail["fresh"][name] = b
    for name, a, b in fields:
        if int(a) > int(b):
            ctx.violation("post-repair results report %s=%s, a fresh verify of the same grid finds %s" % (name, a, b), rcase,
                          "post-repair-results-overstate:" + name, detail)
        elif int(a) < int(b):
            ctx.violation("post-repair results report %s=%s, a fresh verify of the same grid finds %s" % (name, a, b), rcase,
                          "post-repair-results-understate:" + name, detail)
    extra = sorted((sh, srv) for sh, srvs in post_sm.items() for srv in srvs if srv not in fresh_sm.get(sh, ()))
    missing = sorted((sh, srv) for sh, srvs in fresh_sm.items() for srv in srvs if srv not in post_sm.get(sh, ()))
    if extra:
        ctx.violation("post-repair sharemap lists (share, server) %s that a fresh verify does not find good" % (extra,), rcase,
                      "post-repair-results-overstate:sharemap", detail)
    if missing:
        ctx.violation("a fresh verify finds good (share, server) %s that the post-repair sharemap lacks" % (missing,), rcase,
                      "post-repair-results-understate:sharemap", detail)
    if prr.is_healthy() and len(fresh_sm) < n:
        ctx.violation("post-repair results say healthy with %d of %d distinct verified-good share numbers" % (len(fresh_sm), n), rcase,
                      "post-repair-results-overstate:healthy-without-N-good", detail)
    ctx.count("post-repair-compared")


PARAM_LINES = ([], [], [])
DECISION_LINES = ([], [], [])


def run_file(ctx, fidx, n_plans, seed, lines, impl, cases, rlines=None, rimpl=None, rcases=None, fixed_plans=None, policy=None):
    import grid
    import random
    from allmydata.immutable.filenode import CiphertextFileNode
    from allmydata.immutable.repairer import Repairer
    plines, pimpl, pcases = PARAM_LINES
    dlines, dimpl, dcases = DECISION_LINES
    rlines = [] if rlines is None else rlines
    rimpl = [] if rimpl is None else rimpl
    rcases = [] if rcases is None else rcases
    from allmydata.immutable import upload
    from allmydata import uri
    from allmydata.monitor import Monitor
    C2 = c2()
    rng = random.Random("c45-%s-%s" % (fidx, seed))
    spec = FILES[fidx % len(FILES)]
    size, k, n, maxseg = spec[:4]
    nservers = spec[4] if len(spec) > 4 else n
    data = C2.file_data(size, 7000 + fidx)
    mode = verifier_mode()
    hmode = C2.hashtree_mode()
    with grid.Runtime(seed=seed, policy=policy or rng.choice(["random", "random", "fifo"])) as rt:
        g = grid.Grid(grid.fresh_dir("c45"), rt, num_servers=nservers, num_clients=2, k=k, happy=1, n=n, max_segment_size=maxseg)
        try:
            c = g.clients[0]
            res = rt.wait(c.upload(upload.Data(data, convergence=b"c45-convergence!")))
            cap = res.get_uri()
            u = uri.from_string(cap)
            vcap = u.get_verify_cap()
            si = u.get_storage_index()
            files = sorted(g.share_files(si))
            snap = {t: C2.read_body(t[2]) for t in files}
            raw = {}
            for t in files:
                with open(t[2], "rb") as f:
                    raw[t] = f.read()
            genuine_items = {t[1]: items(snap[t], size, k) for t in files}
            genuine_body = {t[1]: snap[t] for t in files}
            srv_of = {g.serverid(i): i for i in range(nservers)}

            def wait(d):
                rt.steps = 0
                return rt.wait(d, max_steps=400000)

            for pi in range(len(fixed_plans) if fixed_plans is not None else n_plans):
                fx = fixed_plans[pi] if fixed_plans is not None else None
                # restore
                for t in files:
                    os.makedirs(os.path.dirname(t[2]), exist_ok=True)
                    with open(t[2], "wb") as f:
                        f.write(raw[t])
                # remove shares created by an earlier repair
                for t in g.share_files(si):
                    if t not in snap:
                        os.unlink(t[2])
                plan = {}
                style = rng.random()
                few = set()
                if 0.25 <= style < 0.55:
                    # one or two shares corrupted in place (the server keeps claiming them), some others deleted
                    few = set(rng.sample(range(len(files)), min(len(files), rng.choice([1, 1, 2]))))
                for ti, t in enumerate(files):
                    r = rng.random()
                    if style < 0.25:
                        act = "delete" if r < 0.5 else "keep"            # deletions only (repair should succeed)
                    elif style < 0.55:
                        act = ("forge" if r < 0.2 else "mutate-site") if ti in few else ("delete" if r < 0.3 else "keep")
                    elif r < 0.45:
                        act = "keep"
                    elif r < 0.62:
                        act = "delete"
                    elif r < 0.72:
                        act = "forge"
                    else:
                        act = "mutate"
                    if fx is not None:
                        act = fx["shares"].get(t[1], "keep")
                    plan[t] = act
                if fx is not None:
                    few = {ti for ti, t in enumerate(files) if plan[t] not in ("keep", "delete")}
                bodies = {}
                desc = {}
                for t in files:
                    act = plan[t]
                    if act == "delete":
                        os.unlink(t[2])
                        desc[t[1]] = "delete"
                        continue
                    body = snap[t]
                    if isinstance(act, dict):
                        m = act
                        body = C2.apply_mutation(m, body, {})
                        desc[t[1]] = C2.mut_class(m)
                    elif act == "forge":
                        body = forge(body, size, k)
                        desc[t[1]] = "forge"
                    elif act == "mutate-site":
                        rg = C2.regions(body)
                        site = rng.choice(["data", "data", "crypttext_hash_tree", "block_hashes", "share_hashes", "ueb", "ueb_length",
                                           "hdr:data", "hdr:uri_extension"])
                        if rg[site][1] == 0:
                            site = "data"
                        m = {"kind": "flip", "region": site, "off": rng.randrange(rg[site][1]), "xor": rng.choice([1, 0x80, 0xff])}
                        body = C2.apply_mutation(m, body, {})
                        desc[t[1]] = C2.mut_class(m)
                        plan[t] = m
                    elif act == "mutate":
                        m = C2.gen_mutation(rng, body, allow_swap=False)
                        body = C2.apply_mutation(m, body, {})
                        desc[t[1]] = C2.mut_class(m)
                        plan[t] = m
                    else:
                        desc[t[1]] = "keep"
                    if body != snap[t]:
                        C2.write_body(t[2], body)
                    bodies[t] = body
                case = {"file": fidx, "seed": seed, "pi": pi, "plan": desc}
                if fx is not None:
                    case["kind"] = "corpus"
                    case["corpus"] = fx["name"]
                present = {t[1] for t in bodies}
                intact = {t[1] for t in bodies if bodies[t] == snap[t]}
                valid = {t[1] for t in bodies if items(bodies[t], size, k) is not None and items(bodies[t], size, k) == genuine_items[t[1]]}
                # ---------------- check without verification: believes the servers
                node = C2.fresh_node(c, cap)
                try:
                    cr = wait(node.check(Monitor(), verify=False))
                    good = set(cr.get_sharemap().keys())
                    if good != present:
                        ctx.violation("check(verify=False) lists %s, share files present %s" % (sorted(good), sorted(present)), case,
                                      "check-noverify-sharemap")
                    check_summary(ctx, case, cr, k, n, len(present), "noverify")
                except Exception as e:
                    ctx.count("check-raised-noverify:" + type(e).__name__)
                # ---------------- check with verification
                node = C2.fresh_node(c, cap)
                verdict = {}
                try:
                    cr = wait(node.check(Monitor(), verify=True))
                except grid.Stuck:
                    cr = None
                    ctx.violation("check(verify=True) never finished", case, "verify-hang")
                except Exception as e:
                    cr = None
                    ctx.count("check-raised-verify:" + type(e).__name__)
                    case["verify_raised"] = type(e).__name__
                if cr is not None:
                    sm = cr.get_sharemap()
                    for sh, servers in sm.items():
                        for s in servers:
                            verdict[(srv_of[s.get_serverid()], sh)] = "good"
                    for (s, _si, sh) in cr.get_corrupt_shares():
                        verdict[(srv_of[s.get_serverid()], sh)] = "corrupt"
                    for (s, _si, sh) in cr.get_incompatible_shares():
                        verdict[(srv_of[s.get_serverid()], sh)] = "incompatible"
                    reported = set(sm.keys())
                    for t in bodies:
                        vd = verdict.get((t[0], t[1]), "none")
                        ctx.count("verdict:%s:%s" % (desc[t[1]].split(":")[0], vd))
                        if vd == "good" and t[1] not in valid:
                            ctx.violation("verify reports share %d good although %s" % (t[1], "its blocks and block hash tree were "
                                          "replaced" if desc[t[1]] == "forge" else "a stored item differs from the uploaded share"),
                                          dict(case, shnum=t[1]), "verify-good-but-invalid-" + desc[t[1]])
                        if t[1] in intact and vd != "good":
                            ctx.violation("verify does not report the untouched share %d good (%s)" % (t[1], vd),
                                          dict(case, shnum=t[1]), "intact-share-not-good")
                    check_summary(ctx, case, cr, k, n, len(reported), "verify")
                    if all(d in ("keep", "delete") for d in desc.values()) and reported != intact:
                        ctx.violation("verified share numbers %s, untouched shares %s" % (sorted(reported), sorted(intact)), case,
                                      "verify-sharemap-vs-truth")
                # correspondence: per-share verdict vs the model on the same bytes
                for t in bodies:
                    if cr is None:
                        continue
                    lines.append("verify %s %s %s %d %d %d %d %s" % (mode, hmode, hx(u.uri_extension_hash), k, n, size, t[1], hx(bodies[t])))
                    impl.append(verdict.get((t[0], t[1]), "raised"))
                    cases.append(dict(case, shnum=t[1], what=desc[t[1]]))
                # ---------------- check and repair (half of the time through a verify-cap node)
                via_verifycap = rng.random() < 0.5 if fx is None else fx.get("via_verifycap", False)
                node = C2.fresh_node(c, vcap.to_string() if via_verifycap else cap)
                pre_files = {t: None for t in g.share_files(si)}
                pre_body = {t: C2.read_body(t[2]) for t in pre_files}
                use_verify = (rng.random() < 0.7 or bool(few)) if fx is None else fx.get("verify", True)
                crr = None
                gathered = []
                orig_gather = CiphertextFileNode._gather_repair_results

                def rec_gather(self_, ur, cr_, crr_):        # observation only
                    gathered.append((sm_of(cr_.get_sharemap(), srv_of), sm_of(ur.get_sharemap(), srv_of)))
                    return orig_gather(self_, ur, cr_, crr_)
                CiphertextFileNode._gather_repair_results = rec_gather
                enc_params = []
                orig_gaep = Repairer.get_all_encoding_parameters

                def rec_gaep(self_):                         # observation only
                    enc_params.append(tuple(self_._encodingparams))
                    return orig_gaep(self_)
                Repairer.get_all_encoding_parameters = rec_gaep
                try:
                    crr = wait(node.check_and_repair(Monitor(), verify=use_verify))
                    rstate = "attempted" if crr.get_repair_attempted() else "not-needed"
                    if crr.get_repair_attempted():
                        rstate += ":ok" if crr.get_repair_successful() else ":unsuccessful"
                except grid.Stuck:
                    rstate = "hang"
                except Exception as e:
                    rstate = "raised:" + type(e).__name__
                finally:
                    CiphertextFileNode._gather_repair_results = orig_gather
                    Repairer.get_all_encoding_parameters = orig_gaep
                if enc_params:
                    # the repairer's encoding parameters vs the model (k, N of the cap, segment size of the validated UEB)
                    (pk, _phappy, pn, pseg) = enc_params[-1]
                    plines.append("repairparams %d %d %d %s" % (k, n, size, hx(genuine_items[files[0][1]][0])))
                    pimpl.append("%d %d %d" % (pk, pn, pseg))
                    pcases.append(dict(case, kind2="repairparams"))
                    ctx.count("repair-params-compared")
                C2.quiesce(rt, grid)
                ctx.count("repair:" + rstate)
                rcase = dict(case, via_verifycap=via_verifycap, verify=use_verify, repair=rstate)
                post_files = sorted(g.share_files(si))
                # (00) the repair decision: a check that is recoverable but not healthy must lead to a repair attempt —
                # whatever the number of SERVERS the good shares sit on
                if crr is not None:
                    pre = crr.get_pre_repair_results()
                    pre_sm0 = sm_of(pre.get_sharemap(), srv_of)
                    good_hosts = len({srv for srvs in pre_sm0.values() for srv in srvs})
                    if pre.is_recoverable() and not pre.is_healthy() and not crr.get_repair_attempted():
                        ctx.violation("the pre-repair check found %d distinct good shares (k=%d, N=%d) on %d server(s): recoverable and "
                                      "not healthy, but no repair was attempted" % (len(pre_sm0), k, n, good_hosts), rcase,
                                      "repair-not-attempted-although-recoverable", {"pre_sharemap": sm_tok(pre_sm0)})
                    if pre.is_healthy() and crr.get_repair_attempted():
                        ctx.violation("a repair was attempted on a healthy file", rcase, "repair-attempted-although-healthy")
                    by_srv = {}
                    for sh, srvs in sorted(pre_sm0.items()):
                        for srv in srvs:
                            by_srv.setdefault(srv, []).append(sh)
                    dlines.append("repairdecision %d %d %s" % (k, n, ";".join(
                        "%d:%s:-:-:1" % (srv, ".".join(map(str, shs))) for srv, shs in sorted(by_srv.items())) or "-"))
                    dimpl.append("attempt=%d" % (1 if crr.get_repair_attempted() else 0))
                    dcases.append(dict(rcase, pre=sm_tok(pre_sm0)))
                    ctx.count("repair-decision:%s:hosts%sk" % ("attempt" if crr.get_repair_attempted() else "none",
                                                               "<" if good_hosts < k else ">="))
                # (0) the post-repair results against a FRESH verify of the grid as it now is, by a second client
                if crr is not None and use_verify:
                    prr = crr.get_post_repair_results()
                    c2nd = g.clients[1]
                    fresh = None
                    try:
                        fresh = wait(C2.fresh_node(c2nd, cap).check(Monitor(), verify=True))
                    except Exception as e:
                        ctx.count("fresh-verify-raised:" + type(e).__name__)
                    if fresh is not None:
                        compare_post_repair(ctx, rcase, crr, prr, fresh, srv_of, n)
                    if gathered:
                        pre_sm, ur_sm = gathered[-1]
                        rlines.append("postrepair %d %d %s %s" % (k, n, sm_tok(pre_sm), sm_tok(ur_sm)))
                        rimpl.append("healthy=%d recoverable=%d good=%d" % (prr.is_healthy(), prr.is_recoverable(),
                                                                            prr.get_share_counter_good()))
                        rcases.append(dict(rcase, pre=sm_tok(pre_sm), ur=sm_tok(ur_sm)))
                # (1) pre-existing share bodies untouched
                for t in pre_body:
                    if not os.path.exists(t[2]):
                        ctx.violation("repair removed an existing share file", dict(rcase, shnum=t[1]), "repair-removed-share")
                    elif C2.read_body(t[2]) != pre_body[t]:
                        ctx.violation("repair changed the bytes of an existing share", dict(rcase, shnum=t[1]),
                                      "repair-altered-existing-" + ("good" if pre_body[t] == genuine_body[t[1]] else "bad") + "-share")
                # (2) every new share is the uploaded share for that number
                new = [t for t in post_files if t not in pre_body]
                for t in new:
                    if C2.read_body(t[2]) != genuine_body[t[1]]:
                        ctx.violation("a share written by repair differs from the share the original upload produced", dict(rcase, shnum=t[1]),
                                      "repair-new-share-differs")
                ctx.count("repair-new-shares", len(new))
                # (3) a repair reported successful leaves N distinct share numbers on the grid
                if rstate == "attempted:ok":
                    nums = {t[1] for t in post_files}
                    if len(nums) < n:
                        ctx.violation("repair reported success but only %d of %d share numbers exist" % (len(nums), n), rcase,
                                      "repair-success-but-missing")
                # (4) read from the repaired shares alone with the original read-cap
                if len({t[1] for t in new}) >= k:
                    for t in pre_body:
                        if os.path.exists(t[2]):
                            os.unlink(t[2])
                    rnode = C2.fresh_node(c, cap)
                    got, end = C2.do_read(rt, grid, rnode, 0, None)
                    ctx.count("read-from-repaired:" + end.split(":")[0])
                    if got != data[:len(got)] or (end == "ok" and got != data):
                        ctx.violation("reading from the repaired shares delivers wrong bytes", rcase, "repaired-read-wrong-bytes")
                    elif end != "ok":
                        ctx.violation("the file cannot be read from %d repaired shares alone (%s)" % (len(new), end), rcase,
                                      "repaired-read-failed")
                nontrivial = any(d != "keep" for d in desc.values())
                ctx.case((fidx, seed, pi, case.get("corpus")) if nontrivial else None)
        finally:
            g.close()


def check_summary(ctx, case, cr, k, n, ngood, tag):
    if cr.get_share_counter_good() != ngood:
        ctx.violation("count-shares-good=%d but %d distinct share numbers are listed" % (cr.get_share_counter_good(), ngood), case,
                      "count-good-" + tag)
    if cr.is_healthy() != (ngood == n):
        ctx.violation("is_healthy=%s with %d of %d good share numbers" % (cr.is_healthy(), ngood, n), case, "healthy-" + tag)
    if cr.is_recoverable() != (ngood >= k):
        ctx.violation("is_recoverable=%s with %d good share numbers, k=%d" % (cr.is_recoverable(), ngood, k), case, "recoverable-" + tag)
    ctx.count("%s:%s" % (tag, "healthy" if cr.is_healthy() else "recoverable" if cr.is_recoverable() else "unrecoverable"))


def run_functions(ctx):
    """_parse_and_validate on crafted UEBs and _format_results on random result lists vs the model"""
    import grid
    from allmydata import uri
    from allmydata.immutable import checker
    from allmydata.monitor import Monitor
    rng = ctx.rng
    lines, impl, cases = [], [], []
    for _ in range(ctx.budget(300, 4000)):
        k = rng.choice([1, 2, 3, 4])
        n = rng.randrange(k, 8)
        size = rng.randrange(1, 2000)
        seg = k * rng.randrange(1, 200)
        nseg = -(-size // seg)
        tail = size % seg or seg
        tailp = -(-tail // k) * k
        d = {"segment_size": seg, "crypttext_root_hash": b"r" * 32, "share_root_hash": b"s" * 32, "codec_name": b"crs",
             "codec_params": b"%d-%d-%d" % (seg, k, n), "tail_codec_params": b"%d-%d-%d" % (tailp, k, n), "size": size,
             "num_segments": nseg, "needed_shares": k, "total_shares": n, "crypttext_hash": b"c" * 32}
        r = rng.random()
        if r < 0.6:
            key = rng.choice(list(d))
            if rng.random() < 0.35 and key not in ("segment_size", "crypttext_root_hash", "share_root_hash"):
                del d[key]
            elif isinstance(d[key], int):
                d[key] = max(0, d[key] + rng.choice([-1, 1, 0, k, 7]))
            elif key == "codec_name":
                d[key] = rng.choice([b"crs", b"xor", b""])
            elif key in ("codec_params", "tail_codec_params"):
                p = [int(x) for x in d[key].split(b"-")]
                i = rng.randrange(3)
                p[i] = max(0, p[i] + rng.choice([-1, 1, 0]))
                d[key] = b"%d-%d-%d" % tuple(p)
            elif key == "crypttext_hash":
                d[key] = b"c" * rng.choice([0, 31, 32, 33])
        data = uri.pack_extension(d)
        vcap = uri.CHKFileVerifierURI(b"i" * 16, b"u" * 32, k, n, size)
        veup = checker.ValidatedExtendedURIProxy(None, vcap)
        try:
            veup._parse_and_validate(data)
            out = "ok %d %d %d %d" % (veup.block_size, veup.share_size, veup.num_segments, veup.tail_segment_size)
        except checker.UnsupportedErasureCodec:
            out = "UnsupportedErasureCodec"
        except checker.BadURIExtension:
            out = "BadURIExtension"
        except Exception:
            out = "exception"
        lines.append("veup %d %d %d %s" % (k, n, size, hx(data)))
        impl.append(out)
        cases.append({"kind": "veup", "k": k, "n": n, "size": size, "ueb": {a: (b.decode("latin1") if isinstance(b, bytes) else b) for a, b in d.items()}})
        ctx.case(("veup", k, n, size, data))
        ctx.count("veup:" + out.split(" ")[0])
    ctx.compare("ValidatedExtendedURIProxy._parse_and_validate on crafted UEBs", cases, impl, ctx.model(lines))
    # _format_results
    lines, impl, cases = [], [], []
    with grid.Runtime(seed=1) as rt:
        g = grid.Grid(grid.fresh_dir("c45f"), rt, num_servers=6, k=1, happy=1, n=1)
        try:
            c = g.clients[0]
            for _ in range(ctx.budget(200, 3000)):
                k = rng.randrange(1, 5)
                n = rng.randrange(k, 9)
                vcap = uri.CHKFileVerifierURI(b"i" * 16, b"u" * 32, k, n, 100)
                ck = checker.Checker(vcap, [], True, False, c._secret_holder, Monitor())
                rs, toks = [], []
                for srv in rng.sample(range(6), rng.randrange(0, 7)):
                    ver = sorted({rng.randrange(0, n) for _ in range(rng.randrange(0, 4))})
                    cor = sorted({rng.randrange(0, n) for _ in range(rng.randrange(0, 3))} - set(ver))
                    inc = sorted({rng.randrange(0, n) for _ in range(rng.randrange(0, 2))} - set(ver) - set(cor))
                    resp = rng.random() < 0.8
                    rs.append((set(ver), g.servers[srv], set(cor), set(inc), resp))
                    toks.append("%d:%s:%s:%s:%d" % (srv, ".".join(map(str, ver)) or "-", ".".join(map(str, cor)) or "-",
                                                    ".".join(map(str, inc)) or "-", 1 if resp else 0))
                cr = ck._format_results(rs)
                lines.append("fmt %d %d %s" % (k, n, ";".join(toks) or "-"))
                impl.append("healthy=%d recoverable=%d good=%d corrupt=%d incompatible=%d" % (
                    cr.is_healthy(), cr.is_recoverable(), cr.get_share_counter_good(), len(cr.get_corrupt_shares()),
                    len(cr.get_incompatible_shares())))
                cases.append({"kind": "fmt", "k": k, "n": n, "results": toks})
                ctx.case(("fmt", k, n, tuple(toks)))
                sidx = {g.serverid(i): i for i in range(6)}
                lines.append("fmtlists %s" % (";".join(toks) or "-"))
                impl.append("corrupt=%s incompatible=%s" % (
                    ",".join("%d.%d" % (sidx[s_.get_serverid()], sh) for (s_, _si, sh) in cr.get_corrupt_shares()) or "-",
                    ",".join("%d.%d" % (sidx[s_.get_serverid()], sh) for (s_, _si, sh) in cr.get_incompatible_shares()) or "-"))
                cases.append({"kind": "fmtlists", "results": toks})
        finally:
            g.close()
    ctx.compare("Checker._format_results on random per-server results", cases, impl, ctx.model(lines))
    # check WITHOUT verification: the real Checker._check_server_shares on servers that claim arbitrary share numbers / fail
    from twisted.internet import defer
    from foolscap.api import RemoteException
    from twisted.python.failure import Failure

    from zope.interface import implementer
    from allmydata.interfaces import IServer

    @implementer(IServer)
    class ClaimingServer:
        def __init__(self, idx, claim):
            self.idx, self.claim = idx, claim

        def get_storage_server(self):
            return self

        def get_buckets(self, si):
            if self.claim is None:
                return defer.fail(RemoteException(Failure(RuntimeError("server failed"))))
            return defer.succeed({sh: None for sh in self.claim})

        def get_lease_seed(self):
            return b"l" * 20

        def get_name(self):
            return b"srv%d" % self.idx

        def get_serverid(self):
            return b"%020d" % self.idx

    class SH:
        def get_renewal_secret(self):
            return b"r" * 32

        def get_cancel_secret(self):
            return b"c" * 32

    lines, impl, cases = [], [], []
    for _ in range(ctx.budget(200, 3000)):
        k = rng.randrange(1, 5)
        n = rng.randrange(k, 9)
        vcap = uri.CHKFileVerifierURI(b"i" * 16, b"u" * 32, k, n, 100)
        ck = checker.Checker(vcap, [], False, False, SH(), Monitor())
        servers, toks = [], []
        for srv in rng.sample(range(6), rng.randrange(0, 7)):
            claim = None if rng.random() < 0.2 else sorted({rng.randrange(0, n) for _ in range(rng.randrange(0, 5))})
            servers.append(ClaimingServer(srv, claim))
            toks.append("%d:%s" % (srv, "x" if claim is None else (".".join(map(str, claim)) or "-")))
        results = []
        for sv in servers:
            box = []
            ck._check_server_shares(sv).addBoth(box.append)
            results.append(box[0])
        cr = ck._format_results(results)
        lines.append("noverify %d %d %s" % (k, n, ";".join(toks) or "-"))
        impl.append("healthy=%d recoverable=%d good=%d corrupt=%d incompatible=%d" % (
            cr.is_healthy(), cr.is_recoverable(), cr.get_share_counter_good(), len(cr.get_corrupt_shares()),
            len(cr.get_incompatible_shares())))
        cases.append({"kind": "noverify", "k": k, "n": n, "answers": toks})
        ctx.case(("noverify", k, n, tuple(toks)))
        claimed = {sh for sv in servers if sv.claim for sh in sv.claim}
        if cr.get_share_counter_good() != len(claimed) or cr.get_corrupt_shares():
            ctx.violation("check(verify=False) does not count exactly the claimed share numbers", cases[-1], "noverify-count")
    ctx.compare("Checker._check_server_shares + _format_results (check without verification) on claiming / failing servers",
                cases, impl, ctx.model(lines))


CORPUS_SEED = 20260922


def flip(region, off=0, xor=0xff):
    return {"kind": "flip", "region": region, "off": off, "xor": xor}


def run_corpus(ctx, lines, impl, cases, rlines, rimpl, rcases):
    """FIXED CORPUS (independent of VERIF_SEED): one minimal plan per known mechanism — the defect repaired in /repo
    (fb3513d) and the seeded changes C45-a, C45-b, C45-c. FILES: 0=(100,1,2,32) 1=(200,2,4,64) 7=(90,2,2,1000) one segment"""
    # fix fb3513d: blocks replaced + block hash tree recomputed must not verify good (with and without repair via verify-cap)
    run_file(ctx, 1, 0, CORPUS_SEED, lines, impl, cases, rlines, rimpl, rcases, fixed_plans=[
        {"name": "forged-blocks-consistent-tree", "shares": {0: "forge"}},
        {"name": "forged-blocks-consistent-tree-2", "shares": {1: "forge", 2: "forge"}, "via_verifycap": True}])
    # C45-a: only the crypttext hash tree of one share damaged: (a) one-segment file (the tree is the root alone),
    # (b) multi-segment file under several delivery orders
    run_file(ctx, 7, 0, CORPUS_SEED, lines, impl, cases, rlines, rimpl, rcases, fixed_plans=[
        {"name": "ct-hash-tree-one-segment", "shares": {0: flip("crypttext_hash_tree", 5)}},
        {"name": "ct-hash-tree-one-segment-b", "shares": {1: flip("crypttext_hash_tree", 31, 1)}}])
    for pol in ("lifo", "random", "fifo"):
        run_file(ctx, 1, 0, CORPUS_SEED, lines, impl, cases, rlines, rimpl, rcases, policy=pol, fixed_plans=[
            {"name": "ct-hash-tree-multi-segment-" + pol, "shares": {sh: flip("crypttext_hash_tree", 40 + sh)}} for sh in range(4)])
    # C45-b: repair of a multi-segment file shorter than the default maximum segment size (a share deleted)
    run_file(ctx, 1, 0, CORPUS_SEED, lines, impl, cases, rlines, rimpl, rcases, fixed_plans=[
        {"name": "repair-multi-segment-small-file", "shares": {0: "delete"}},
        {"name": "repair-multi-segment-small-file-vcap", "shares": {1: "delete", 3: "delete"}, "via_verifycap": True, "verify": False}])
    run_file(ctx, 0, 0, CORPUS_SEED, lines, impl, cases, rlines, rimpl, rcases, fixed_plans=[
        {"name": "repair-multi-segment-1-of-2", "shares": {1: "delete"}}])
    # C45-c: a share corrupt in place (its server keeps claiming it) + check_and_repair(verify=True): post-repair results
    run_file(ctx, 0, 0, CORPUS_SEED, lines, impl, cases, rlines, rimpl, rcases, fixed_plans=[
        {"name": "corrupt-in-place-then-repair", "shares": {0: flip("data", 3)}, "via_verifycap": True},
        {"name": "corrupt-ueb-in-place-then-repair", "shares": {1: flip("ueb", 10)}}])
    run_file(ctx, 1, 0, CORPUS_SEED, lines, impl, cases, rlines, rimpl, rcases, fixed_plans=[
        {"name": "corrupt-in-place-plus-deleted", "shares": {0: flip("block_hashes", 7), 2: "delete"}},
        {"name": "corrupt-share-hashes-in-place", "shares": {3: flip("share_hashes", 2)}}])
    # C45-d: >= k good shares left on FEWER than k servers (several shares per server): recoverable, not healthy => repair
    # FILES: 8=(400,3,10,64) on 2 servers, 9=(200,2,4,64) on 1 server, 10=(500,4,7,128) on 3 servers
    run_file(ctx, 8, 0, CORPUS_SEED, lines, impl, cases, rlines, rimpl, rcases, fixed_plans=[
        {"name": "few-hosts-3of10-on-2-deleted", "shares": {0: "delete", 1: "delete"}},
        {"name": "few-hosts-3of10-on-2-deleted-noverify-vcap", "shares": {4: "delete"}, "verify": False, "via_verifycap": True},
        {"name": "few-hosts-3of10-on-2-corrupt", "shares": {2: flip("data", 1), 7: "delete"}, "via_verifycap": True}])
    run_file(ctx, 9, 0, CORPUS_SEED, lines, impl, cases, rlines, rimpl, rcases, fixed_plans=[
        {"name": "few-hosts-2of4-on-1-deleted", "shares": {3: "delete"}, "verify": False},
        {"name": "few-hosts-2of4-on-1-corrupt", "shares": {0: flip("block_hashes", 3)}}])
    run_file(ctx, 10, 0, CORPUS_SEED, lines, impl, cases, rlines, rimpl, rcases, fixed_plans=[
        {"name": "few-hosts-4of7-on-3", "shares": {0: "delete", 5: flip("ueb", 4)}},
        {"name": "few-hosts-4of7-on-3-noverify", "shares": {6: "delete"}, "verify": False}])
    ctx.count("corpus-run")


def run(ctx):
    import common
    common.setup_impl_path()
    import grid  # noqa: F401
    lines, impl, cases = [], [], []
    rlines, rimpl, rcases = [], [], []
    if ctx.replay and isinstance(ctx.replay.get("case"), dict) and ctx.replay["case"].get("kind") == "corpus":
        run_corpus(ctx, lines, impl, cases, rlines, rimpl, rcases)
    elif ctx.replay and isinstance(ctx.replay.get("case"), dict) and "file" in ctx.replay["case"]:
        cs = ctx.replay["case"]
        run_file(ctx, cs["file"], cs.get("pi", 0) + 1, cs["seed"], lines, impl, cases, rlines, rimpl, rcases)
    elif os.environ.get("VERIF_CORPUS_ONLY"):
        run_corpus(ctx, lines, impl, cases, rlines, rimpl, rcases)
    else:
        run_corpus(ctx, lines, impl, cases, rlines, rimpl, rcases)
        run_functions(ctx)
        for i in range(ctx.budget(12, 64)):
            run_file(ctx, i, ctx.budget(30, 80), ctx.rng.randrange(1 << 30), lines, impl, cases, rlines, rimpl, rcases)
    outs = ctx.model(lines)
    ctx.compare("per-share verdict of check(verify=True) vs the Lean verifier on the same share bytes", cases, impl, outs)
    ctx.compare("CiphertextFileNode._gather_repair_results (healthy / recoverable / count-shares-good from the pre-repair sharemap "
                "and the upload's sharemap) vs the model", rcases, rimpl, ctx.model(rlines))
    plines, pimpl, pcases = PARAM_LINES
    ctx.compare("Repairer encoding parameters (k, N, segment size handed to CHKUploader) vs the model's repairParams on the "
                "validated UEB", pcases, pimpl, ctx.model(plines))
    del plines[:], pimpl[:], pcases[:]
    dlines, dimpl, dcases = DECISION_LINES
    ctx.compare("CiphertextFileNode._maybe_repair: repair attempted or not, vs the model's repairDecision on the pre-repair results",
                dcases, dimpl, ctx.model(dlines))
    del dlines[:], dimpl[:], dcases[:]
    if cases:
        ctx.sample(cases[0])
