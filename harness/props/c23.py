"""C23 — mutable share containers behave like byte arrays (storage/mutable.py, storage/server.py)."""
import os
import props._storage_common as sc
from common import hx, unhx

ID = "C23"
LEAN_PROPS = "Tahoe.Props.C23"
DRIVER = "C23"
GENERATED = ["storage"]
SOURCES = ["src/allmydata/storage/mutable.py", "src/allmydata/storage/mutable_schema.py", "src/allmydata/storage/server.py"]
DESIGN_REF = "DESIGN.md §2 C23, Appendix A.3"
TECHNIQUE = ("Lean 4 theorems (10) over a byte-exact executable model of MutableShareFile and of slot_testv_and_readv_and_writev / "
             "slot_readv: container invariant + refinement of every request history to a finite map of growable byte arrays; "
             "differential correspondence of seeded op histories and a fixed corpus (request results, slot_readv, lease lists and "
             "RAW CONTAINER BYTES after every op) against a real in-process StorageServer; byte-array monitor written from the statement")
LEVEL_TEXT = ("Proved in Lean for all inputs: wf_preserved / reachable_wf (invariant from create through every request history), "
              "refines_bytearray (every request that returns, from every reachable state, on the repaired and the unrepaired server: "
              "test verdict incl. missing share = empty, pre-state reads, zero-filled gaps, truncation, delete on new_length 0), "
              "writev_refines, slot_readv_refines, write_vectors_in_order, testv_length_exceeding_specimen_fails, "
              "truncate_then_extend_zero, leases_unchanged_by_data_ops (whole request: C25 rtw_keeps_every_lease), layout_constants. "
              "The model is tied to the code by comparing results, lease lists and the raw bytes of every container file.")
LEVEL_NOTE = ("Lean kernel + standard axioms; model hand-written from storage/mutable.py and storage/server.py, tied by "
              "correspondence; layout constants regenerated from the source and pinned by layout_constants. Not covered: negative "
              "offsets / non-'eq' test operators (rejected by the wire schemas, outside the model); struct.error paths "
              "(values >= 2^32 / 2^64) are excluded by the invariant. Requests that RAISE are C24's subject.")
RULE = ("a fixed corpus (empty write past the end, relocation with extra leases, growth smaller than the extra-lease block, "
        "truncate-then-grow, vector order, test-vector length vs specimen) followed by seeded histories (<= 40 ops) of read-test-write / "
        "slot_readv / lease listing / raw dump on one storage index of a real StorageServer, offsets up to far past the end, "
        "truncations, deletions, 0..10 leases, test vectors with len != len(specimen); a case is one operation; distinct = distinct "
        "(history index, op index); non-trivial = a request that touches an existing non-empty share or reads it")
TRUSTED = ["lean/Tahoe/Storage/{Mutable,Slot,Lease}.lean are hand transcriptions of storage/mutable.py, storage/server.py, "
           "storage/lease.py (dict iteration modelled as association lists in insertion order)",
           "blake2b (nacl) is abstract in the model; the harness supplies its values as a table"]
ASSUMPTIONS = ["offsets, lengths and new_length are non-negative ints (foolscap/HTTP schemas); the only test operator is b'eq'",
               "timing_safe_compare is equality", "expiry times < 2^32, fewer than 2^32 extra leases (struct.error otherwise)"]

WE = hx(b"W" * 32)


def gen_history(rng, nops, far, nleases):
    """One storage index, 1..3 shares, per-share byte-array reference kept only to aim offsets/tests."""
    ref = {}
    pool = []
    lease_pool = [[hx(bytes([0x40 + i]) * 32), hx(bytes([0x80 + i]) * 32)] for i in range(max(nleases, 1))]
    ops = []
    now = rng.randrange(0, 1000)
    shares = list(range(rng.choice([1, 1, 2, 3])))
    for _ in range(nops):
        r = rng.random()
        now += rng.choice([0, 1, 60, 86400])
        if r < 0.62:
            tw = []
            for n in rng.sample(shares, rng.randrange(1, len(shares) + 1)):
                cur = ref.get(n, bytearray())
                testv = []
                for _ in range(rng.choice([0, 0, 1, 2])):
                    testv.append(sc.rand_testv(rng, cur, far, 0.1))
                datav, _ = sc.rand_datav(rng, len(cur), far)
                rr = rng.random()
                if rr < 0.55:
                    nl = None
                elif rr < 0.62:
                    nl = 0
                elif rr < 0.9:
                    nl = rng.randrange(0, len(cur) + 20)
                else:
                    nl = len(cur) + rng.randrange(0, 3000)
                tw.append([n, testv, datav, nl])
            rv = sc.rand_rv(rng, max([len(v) for v in ref.values()] + [0]), far)
            we = WE if rng.random() < 0.95 else hx(b"X" * 32)
            rl = nleases > 0 and rng.random() < 0.7
            ls = rng.choice(lease_pool)
            ops.append(["rtw", now, 10 ** 12, we, ls[0], ls[1], rl, tw, rv])
            # reference update only to steer the generator (monitor keeps its own)
            good = we == WE and all(bytes(ref.get(n, b"")[o:o + l]) == unhx(s) for (n, tv, _, _) in tw for (o, l, s) in tv)
            if good:
                for (n, _, dv, nl) in tw:
                    if nl == 0:
                        ref.pop(n, None)
                        continue
                    a = ref.setdefault(n, bytearray())
                    for (o, d) in dv:
                        d = unhx(d)
                        if o > len(a):
                            a.extend(b"\x00" * (o - len(a)))
                        a[o:o + len(d)] = d
                    if nl is not None and nl < len(a):
                        del a[nl:]
        elif r < 0.85:
            sel = [] if rng.random() < 0.5 else rng.sample(shares + [7], rng.randrange(1, len(shares) + 1))
            ops.append(["readv", sel, sc.rand_rv(rng, max([len(v) for v in ref.values()] + [0]), far) or [[0, 50]]])
        elif r < 0.92:
            ops.append(["leases"])
        else:
            ops.append(["dump"])
    ops += [["readv", [], [[0, 10 ** 9]]], ["leases"], ["dump"]]
    return {"nodeid": hx(sc.NODEID), "ops": ops}


class Monitor:
    """The C23 statement evaluated on the real server against bytearrays (written from the statement)."""

    def __init__(self, ctx, hist, hi):
        self.ctx = ctx
        self.hist = hist
        self.hi = hi
        self.ref = {}          # sharenum -> bytes (the byte array each share must behave like)
        self.opi = -1

    def viol(self, what, sig, detail):
        self.ctx.violation(what, {"history": self.hist, "op_index": self.opi}, sig, detail)

    def full(self, impl):
        r = impl.ss.slot_readv(impl.si, [], [(0, 10 ** 12)])
        return {n: bytes(v[0]) for n, v in r.items()}

    def __call__(self, impl, op, phase, info):
        ctx = self.ctx
        if phase == "before":
            self.opi += 1
            if op[0] == "rtw":
                info["leases_before"] = impl.leases()
            return
        kind = op[0]
        ctx.count("op:" + kind)
        nontrivial = False
        if kind == "readv":
            got = info["result"]
            sel = op[1]
            want_keys = sorted(n for n in self.ref if (not sel or n in sel))
            if sorted(got) != want_keys:
                self.viol("slot_readv returns the wrong set of shares", "readv-share-set", {"got": sorted(got), "want": want_keys})
            for n in got:
                if n in self.ref:
                    for (o, l), d in zip(op[2], got[n]):
                        if bytes(d) != self.ref[n][o:o + l]:
                            self.viol("slot_readv is not the clipped slice of the byte array", "readv-mismatch",
                                      {"share": n, "off": o, "len": l})
                    nontrivial = nontrivial or len(self.ref[n]) > 0
        elif kind == "rtw":
            (_, now, avail, we, renew, cancel, rl, tw, rv) = op
            if "exc" in info:
                ctx.count("rtw:" + type(info["exc"]).__name__)
                self.ref = self.full(impl)       # C24 owns the error cases; resynchronise
                ctx.case(None)
                return
            good, reads = info["result"]
            # test vectors compare against the current data, a missing share reads as empty
            want_good = all(self.ref.get(n, b"")[o:o + l] == unhx(s) for (n, tv, _, _) in tw for (o, l, s) in tv)
            if bool(good) != want_good:
                self.viol("test vector verdict differs from the byte-array reference", "testv-verdict", {"got": good})
            # reads are clipped slices of the data before the request
            for n, ds in reads.items():
                for (o, l), d in zip(rv, ds):
                    if bytes(d) != self.ref.get(n, b"")[o:o + l]:
                        self.viol("read vector result is not the clipped slice of the byte array", "rtw-read-mismatch",
                                  {"share": n, "off": o, "len": l})
            actual = self.full(impl)
            ctx.count("rtw:" + ("applied" if good else "testv-failed"))
            if good:
                want = dict(self.ref)
                for (n, _, dv, nl) in tw:
                    nontrivial = nontrivial or len(self.ref.get(n, b"")) > 0
                    if nl == 0:
                        want.pop(n, None)
                        if n in actual:
                            self.viol("new_length=0 did not delete the share", "delete-failed", {"share": n})
                        continue
                    cands = [bytearray(self.ref.get(n, b""))]
                    for (o, d) in dv:
                        d = unhx(d)
                        nxt = []
                        for a in cands:
                            if len(d) == 0 and o > len(a):
                                # statement silent: an empty write past the end may or may not extend
                                nxt.append(bytearray(a))
                                ctx.count("empty-write-past-end")
                            b = bytearray(a)
                            if o > len(b):
                                b.extend(b"\x00" * (o - len(b)))
                            b[o:o + len(d)] = d
                            nxt.append(b)
                        cands = nxt[:16]
                    if nl is not None:
                        ctx.count("new_length:" + ("smaller" if any(nl < len(c) for c in cands) else "not-smaller"))
                        cands = [c[:nl] if nl < len(c) else c for c in cands]
                    got = actual.get(n)
                    if got is None:
                        self.viol("share missing after a successful write", "share-missing", {"share": n})
                    elif not any(bytes(c) == got for c in cands):
                        c = bytes(cands[-1])
                        if len(c) != len(got):
                            sig = "write-length"
                        else:
                            bad = [i for i in range(len(c)) if c[i] != got[i]]
                            sig = "gap-not-zero" if all(c[i] == 0 for i in bad) else "write-content"
                        self.viol("share data after the request differs from the byte-array reference", sig,
                                  {"share": n, "want_len": len(c), "got_len": len(got)})
                    want[n] = got if got is not None else bytes(cands[-1])
                for n in actual:
                    if n not in want:
                        self.viol("a share appeared that the request did not write", "share-appeared", {"share": n})
                for n in want:
                    if n in actual and n not in [e[0] for e in tw] and actual[n] != self.ref.get(n):
                        self.viol("a share not named by the request changed", "unnamed-share-changed", {"share": n})
                self.ref = actual
            else:
                if actual != self.ref:
                    self.viol("a request whose tests failed changed share data", "failed-test-changed-data", None)
            # data writes never alter the leases (checked when the request does not itself renew)
            if not rl:
                lb = info["leases_before"]
                la = impl.leases()
                for n in la:
                    if n in lb and la[n] != lb[n]:
                        self.viol("a data write altered the share's leases", "leases-changed-by-data-write", {"share": n})
                    if n in lb and len(lb[n]) > 0:
                        ctx.count("lease-preservation-checked")
        ctx.case((self.hi, self.opi) if nontrivial else None)


def run(ctx):
    impl = sc.Impl()
    try:
        if ctx.replay:
            hists = [ctx.replay["case"]["history"]]
        else:
            hists = corpus()
            n = 0 if os.environ.get("VERIF_CORPUS_ONLY") else ctx.budget(60, 3000)
            for i in range(n):
                far = ctx.rng.choice([3000, 3000, 20000, 20000, 150000]) if i % 10 else 1200000
                hists.append(gen_history(ctx.rng, ctx.rng.choice([5, 15, 40, 40]), far, ctx.rng.choice([0, 1, 2, 4, 5, 7, 10])))
        impl_outs, lines = [], []
        for hi, h in enumerate(hists):
            out, line = sc.run_history(impl, h, Monitor(ctx, h, hi))
            impl_outs.append(out)
            lines.append(line)
        model = ctx.model(lines)
        ctx.compare("mutable slot history (rtw results, slot_readv, lease lists, raw container bytes)",
                    [{"history": h} for h in hists], impl_outs, model)
        ctx.sample({"ops": hists[-1]["ops"][:3], "impl": impl_outs[-1][:300]})
    finally:
        impl.close()


def corpus():
    """Fixed cases that run first in every run (independent of the random stream); one per known failure
    mechanism.  VERIF_CORPUS_ONLY=1 runs only these."""
    return [corpus_empty_write(), corpus_relocation(), corpus_small_growth_with_extra_leases(),
            corpus_truncate_then_grow(), corpus_vector_order(), corpus_testv_length_vs_specimen()]


def corpus_small_growth_with_extra_leases():
    """7 leases (3 in the extra-lease block, 4 + 3*92 = 280 bytes); the container then grows by 1, 5, 50 and 279 bytes —
    less than the block — so the old and the new position of the block overlap during relocation; then by more."""
    ops = []
    for i in range(7):
        ops.append(["rtw", 10 + i, 10 ** 12, WE, hx(bytes([0x50 + i]) * 32), hx(bytes([0x60 + i]) * 32), True,
                    [[0, [], [[0, hx(b"x")]], None]], []])
    ops += [["leases"], ["dump"]]
    end = 1
    for grow in [1, 5, 50, 279, 281, 1000]:
        end += grow
        ops.append(["rtw", 30, 10 ** 12, WE, hx(b"\x50" * 32), hx(b"\x60" * 32), False,
                    [[0, [], [[end - 1, hx(b"G")]], None]], [[0, 10]]])
        ops += [["leases"], ["dump"]]
    ops += [["readv", [], [[0, 10 ** 6]]]]
    return {"nodeid": hx(sc.NODEID), "ops": ops}


def corpus_truncate_then_grow():
    """200 non-zero bytes, truncated to 10 (the old bytes stay in the file), then a write far beyond the CONTAINER
    (forces enlargement): the gap [10, 600) must read as zeros, not as the stale bytes"""
    s1, s2 = hx(b"\x41" * 32), hx(b"\x42" * 32)
    return {"nodeid": hx(sc.NODEID), "ops": [
        ["rtw", 5, 10 ** 12, WE, s1, s2, True, [[0, [], [[0, hx(b"\x77" * 200)]], None]], []],
        ["rtw", 6, 10 ** 12, WE, s1, s2, False, [[0, [], [], 10]], [[0, 300]]],
        ["rtw", 7, 10 ** 12, WE, s1, s2, False, [[0, [], [[600, hx(b"END")]], None]], [[0, 300]]],
        ["readv", [], [[0, 1000]]], ["dump"],
        # same with an empty vector past the end of the container
        ["rtw", 8, 10 ** 12, WE, s1, s2, False, [[0, [], [], 3]], []],
        ["rtw", 9, 10 ** 12, WE, s1, s2, False, [[0, [], [[2000, "-"]], None]], [[0, 50]]],
        ["readv", [], [[0, 3000]]], ["leases"], ["dump"]]}


def corpus_vector_order():
    """several write vectors for one share whose order matters: a later vector overlapping an earlier one and reaching
    further; a far vector first and a near one second; both orders"""
    s1, s2 = hx(b"\x41" * 32), hx(b"\x42" * 32)
    return {"nodeid": hx(sc.NODEID), "ops": [
        ["rtw", 5, 10 ** 12, WE, s1, s2, True, [[0, [], [[2, hx(b"BB")], [0, hx(b"AAAAAA")]], None]], []],
        ["readv", [], [[0, 100]]],
        ["rtw", 6, 10 ** 12, WE, s1, s2, False, [[1, [], [[0, hx(b"AAAAAA")], [2, hx(b"BB")], [1, hx(b"CCCCCCCC")]], None]], []],
        ["readv", [], [[0, 100]]],
        ["rtw", 7, 10 ** 12, WE, s1, s2, False, [[0, [], [[40, hx(b"far")], [10, hx(b"near")], [38, hx(b"ZZZZZZ")]], 43]], [[0, 100]]],
        ["readv", [], [[0, 100]]], ["dump"]]}


def corpus_testv_length_vs_specimen():
    """test vectors whose length differs from the specimen's, against an existing longer share: the server reads `len`
    bytes (clipped at the end of the data) and compares for equality, so a specimen that is only a PREFIX of the bytes
    read — the empty specimen included: the publisher's "(0, 1, eq, b'')" must-not-exist guard — fails, and so does a
    specimen longer than len; on a missing share (reads as empty) the guard passes"""
    s1, s2 = hx(b"\x41" * 32), hx(b"\x42" * 32)
    return {"nodeid": hx(sc.NODEID), "ops": [
        ["rtw", 5, 10 ** 12, WE, s1, s2, True, [[0, [[0, 1, "-"]], [[0, hx(b"abcdefghij")]], None]], []],     # guard passes: new share
        ["rtw", 6, 10 ** 12, WE, s1, s2, False, [[0, [[0, 1, "-"]], [[0, hx(b"CLOBBER")]], None]], [[0, 20]]],  # guard must fail now
        ["readv", [], [[0, 20]]],
        ["rtw", 7, 10 ** 12, WE, s1, s2, False, [[0, [[0, 5, hx(b"abc")]], [[0, hx(b"X")]], None]], [[0, 20]]],  # prefix specimen
        ["rtw", 8, 10 ** 12, WE, s1, s2, False, [[0, [[2, 100, hx(b"cdefgh")]], [[0, hx(b"Y")]], None]], [[0, 20]]],  # clipped read is longer
        ["rtw", 9, 10 ** 12, WE, s1, s2, False, [[0, [[0, 3, hx(b"abcd")]], [[0, hx(b"Z")]], None]], [[0, 20]]],   # specimen longer than len
        ["rtw", 10, 10 ** 12, WE, s1, s2, False, [[0, [[8, 0, "-"], [0, 4, hx(b"abcd")], [8, 100, hx(b"ij")]], [[10, hx(b"k")]], None]], [[0, 20]]],  # all pass
        ["readv", [], [[0, 20]]], ["dump"]]}


def corpus_empty_write():
    s1, s2 = hx(b"\x41" * 32), hx(b"\x42" * 32)
    return {"nodeid": hx(sc.NODEID), "ops": [
        ["rtw", 5, 10 ** 12, WE, s1, s2, True, [[0, [], [[0, hx(b"abcdef")]], None]], []],
        ["rtw", 6, 10 ** 12, WE, s1, s2, False, [[0, [], [[20, "-"]], None]], [[0, 100]]],
        ["rtw", 7, 10 ** 12, WE, s1, s2, False, [[0, [], [], 3]], [[0, 100]]],
        ["rtw", 8, 10 ** 12, WE, s1, s2, False, [[0, [], [[10, hx(b"Z")]], None]], [[0, 100]]],
        ["readv", [], [[0, 100]]], ["leases"], ["dump"]]}


def corpus_relocation():
    ops = []
    for i in range(7):
        ops.append(["rtw", 10 + i, 10 ** 12, WE, hx(bytes([0x50 + i]) * 32), hx(bytes([0x60 + i]) * 32), True,
                    [[1, [], [[i * 7, hx(b"data%d" % i)]], None]], [[0, 1000]]])
    ops.append(["rtw", 50, 10 ** 12, WE, hx(b"\x50" * 32), hx(b"\x60" * 32), False, [[1, [], [[40, hx(b"q" * 50)]], None]], [[0, 1000]]])
    ops.append(["rtw", 51, 10 ** 12, WE, hx(b"\x50" * 32), hx(b"\x60" * 32), False, [[1, [], [[5000, hx(b"far")]], 4000]], [[0, 1000]]])
    ops += [["readv", [], [[0, 10 ** 6]]], ["leases"], ["dump"]]
    return {"nodeid": hx(sc.NODEID), "ops": ops}
