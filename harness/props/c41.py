"""C41 — the web API never exceeds the authority of the capability used."""
import json
import os
import re
import time
from urllib.parse import quote, unquote

ID = "C41"
LEAN_PROPS = "Tahoe.Props.C41"
DRIVER = "C41"
GENERATED = []
SOURCES = ["src/allmydata/web/root.py", "src/allmydata/web/directory.py", "src/allmydata/web/filenode.py",
           "src/allmydata/web/common.py", "src/allmydata/web/info.py", "src/allmydata/dirnode.py",
           "src/allmydata/mutable/filenode.py", "src/allmydata/nodemaker.py"]
DESIGN_REF = "DESIGN.md §2 C41"
TECHNIQUE = ("Lean 4 model of (1) the node layer's read-only guards (dirnode.py / mutable/filenode.py, in the position the code has "
             "them), (2) the directory read path (stored entries, _pack_normalized_children / _unpack_contents under the authority of "
             "the view), (3) NodeMaker.create_from_cap with its node cache, and (4) a dispatch table of the web layer (getChild "
             "traversal incl. intermediate-directory creation, render_PUT/POST/DELETE of directory, file, placeholder and unknown "
             "handlers, cap strings shown by the t=json / t=info / HTML / t=uri renderers and by error pages); theorems by invariants "
             "over the traversal, over cache histories and over stored contents; correspondence by rendering real requests (real "
             "TahoeLAFSSite + Root resource tree on an in-process grid client, HTTP bytes fed to the channel, no sockets) against "
             "mixed-authority trees and comparing status class, error phase, resulting directory tree and cap strings in the body with "
             "the table, plus function-level comparison of _unpack_contents and of create_node_from_uri histories; monitor = whole "
             "logical grid + storage-server share snapshot before/after every request made with read-only authority, write-key scan of "
             "every response")
LEVEL_TEXT = ("PARTIAL (the web layer is modelled only as a dispatch table). Proved for the model, for every grid, path and request "
              "of the table: a request made with a cap that carries no write key (readonly_cap_unchanged, readonly_cap_refused), or "
              "whose path passes through a node reached read-only (readonly_refused_unchanged), or whose addressed directory / mutable "
              "file is itself reached read-only for the POST forms that act on it, incl. t=relink with any to_dir= "
              "(readonly_target_refused_unchanged), leaves the grid unchanged and is refused (exception: the mkdir forms answered with "
              "the URI of an already existing directory); every modifying node method refuses a read-only node before any effect "
              "(node_methods_refuse_readonly, move_child_to_needs_both_write_keys, mutable_format_upload_refused); what a read-only "
              "view of a directory unpacks carries no write cap, for any stored contents, and the table's listings are exactly that "
              "unpack (readonly_view_unpacks_no_writecap, packed_entry_ro_slot_and_roundtrip, listing_is_unpack_of_stored_entries); "
              "the node the gateway hands out for a cap has that cap's authority for every history of lookups and collections "
              "(node_cache_preserves_authority, node_cache_history, readcap_never_yields_writeable_node); every cap string in t=json / "
              "t=info / HTML listing / t=uri / t=readonly-uri output for a node reached read-only is a read or verify cap "
              "(no_writecap_in_ro_response, no_writecap_below_ro) and the body of a refused request shows only cap strings of its own "
              "URL (refused_response_shows_only_request_caps). Counterexample theorems show what each repaired or seeded change broke "
              "(asis_mutable_upload_counterexample and asis_existing_child_counterexample for the defect repaired in /repo by 9a727df, "
              "or_guard_counterexample, aliased_cache_counterexample, authority_blind_cache_counterexample). The table was written by "
              "reading web/*.py and is tied to it only by the correspondence run. Not covered: deep-check / manifest / check-and-repair "
              "operations (check&repair through a read cap is monitored only), when_done redirects, no-write metadata, /uri unlinked "
              "creation, the private token area.")
LEVEL_NOTE = ("Lean kernel + standard axioms (22 theorems, no _partial); hand-written table and node-layer model; the orphaned-mutable-"
              "file defect found by this check is fixed in /repo (9a727df), so the table is that of the code as it is now "
              "(C41_MODEL_MODE=asis selects the table of the code before the fix).")
RULE = ("a fixed corpus first, independent of the seed (fixed tree, one request per known mechanism: repaired defect 9a727df, seeded "
        "changes C41-a/b/c/d/e, each through a read cap / below a read-only link / with the read-only link as last path element, "
        "GETs through read caps while nodes built from the write caps are alive, plus the same shapes with full authority; "
        "VERIF_CORPUS_ONLY=1 runs only this); then seeded scenarios: one grid + real web resource tree, a random mixed-authority "
        "tree (mutable dirs linked by write and by read cap, immutable dir, CHK/LIT files, SDMF/MDMF files by write and read cap, "
        "verify caps) and a stream of random requests (PUT/POST t=…/DELETE with every t of the table, replace=true/false/only-files, "
        "format=sdmf/mdmf, paths of length 0..4 with existing and missing names) in four authority classes (read-only/verify root "
        "cap, path below a read-only link, read-only link as last element, full authority); a focused stream of t=relink / t=rename "
        "out of directories addressed without write authority with to_dir= naming a different writeable directory by cap and by "
        "cap/path; after every request made with read-only authority the whole logical grid (every directory incl. those named in "
        "parameters, every mutable file's contents) and every share file is compared with its state before, whatever the status "
        "code; GETs (t=json/info/uri/readonly-uri/HTML); per scenario _unpack_contents of every directory by a writeable and a "
        "read-only node, three create_node_from_uri histories, check&repair through a read cap of a damaged mutable file. A case is "
        "one request or probe; distinct = distinct (authority class, method, t, outcome class, target shape); non-trivial = every "
        "modifying request and every GET / probe through a read-only path.")
TRUSTED = ["harness/grid.py (in-process grid, virtual clock)", "the HTTP feeding shim in harness/props/c41.py (StringTransport in, raw bytes out)",
           "the tree mirror read back through the strongest caps the harness holds",
           "lean/Drv/C41.lean parsers"]
ASSUMPTIONS = ["the web layer does what the dispatch table says (correspondence only: status class, error phase, resulting tree, cap "
               "strings in refused bodies, for the generated requests)",
               "a cap string reveals write authority only through its write key (the scan looks for the base32 write key of every "
               "mutable object of the tree in any quoting)",
               "share data read through the container readers (ShareFile / MutableShareFile) is the grid state; lease timestamps ignored"]

NAMES = 9          # directory entry names n0..n8
BND = b"c41BoundaryZZ"


# ----------------------------------------------------------------------------- web plumbing

def make_web(client, rt, tmpdir):
    from twisted.application import service
    from allmydata.webish import WebishServer, TahoeLAFSSite, anonymous_tempfile_factory

    class Web(WebishServer):
        def buildServer(self, webport, make_tempfile, nodeurl_path, staticdir):
            self.site = TahoeLAFSSite(make_tempfile, self.root)
            self.staticdir = None

        def startService(self):
            service.MultiService.startService(self)
    os.makedirs(tmpdir, exist_ok=True)
    w = Web(client, "0", anonymous_tempfile_factory(tmpdir.encode()), clock=rt.clock, now_fn=time.time)
    w.setServiceParent(client)
    return w


def http(rt, site, method, path, body=b"", ctype=None):
    """Feed one HTTP/1.0 request to the site; returns (status or None, headers bytes, body bytes, finished)."""
    from twisted.internet.testing import StringTransport
    from twisted.internet.address import IPv4Address
    proto = site.buildProtocol(IPv4Address("TCP", "127.0.0.1", 1234))
    tr = StringTransport(hostAddress=IPv4Address("TCP", "127.0.0.1", 80), peerAddress=IPv4Address("TCP", "127.0.0.1", 1234))
    proto.makeConnection(tr)
    req = b"%s %s HTTP/1.0\r\nHost: localhost\r\nContent-Length: %d\r\n" % (method, path, len(body))
    if ctype:
        req += b"Content-Type: " + ctype + b"\r\n"
    proto.dataReceived(req + b"\r\n" + body)
    for _ in range(400000):
        if tr.disconnecting or tr.disconnected:
            break
        if not rt.step():
            break
    finished = bool(tr.disconnecting or tr.disconnected)
    raw = tr.value()
    if not finished:
        from twisted.python.failure import Failure
        from twisted.internet.error import ConnectionDone
        try:
            proto.connectionLost(Failure(ConnectionDone()))
        except Exception:
            pass
    rt.settle()
    head, _, bod = raw.partition(b"\r\n\r\n")
    if head.startswith(b"HTTP/"):
        status = int(head.split(b" ", 2)[1])
    else:
        status, bod = None, raw
    return status, head, bod, finished


def snapshot(g):
    """{(server, relative path): share data bytes} through the container readers (no lease info)."""
    from allmydata.storage.shares import get_share_file
    from allmydata.storage.mutable import MutableShareFile
    res = {}
    for i, ss in sorted(g.storage.items()):
        for root, dirs, files in os.walk(ss.sharedir):
            for f in files:
                p = os.path.join(root, f)
                sf = get_share_file(p)
                if isinstance(sf, MutableShareFile):
                    data = sf.readv([(0, 1 << 30)])[0]
                else:
                    data = sf.read_share_data(0, 1 << 30)
                res["%d:%s" % (i, os.path.relpath(p, ss.sharedir))] = bytes(data)
        for root, dirs, files in os.walk(ss.incomingdir):
            for f in files:
                res["%d:incoming/%s" % (i, f)] = b""
    return res


# ----------------------------------------------------------------------------- the tree and its mirror

class World:
    """Registry of every object of the scenario (strongest node held), addresses in registration order."""

    def __init__(self, rt, client):
        self.rt, self.c = rt, client
        self.objs = []            # dicts: kind, node (strongest), key
        self.by_key = {}
        self.capmap = {}          # cap string -> (addr, auth)
        self.write_keys = {}      # base32 write key -> addr

    def key_of(self, node):
        return node.get_readonly_uri() if node.get_readonly_uri() else node.get_uri()

    def register(self, node):
        from allmydata.interfaces import IDirectoryNode
        key = self.key_of(node)
        if key in self.by_key:
            a = self.by_key[key]
            if node.get_write_uri() and not self.objs[a]["node"].get_write_uri():
                self.objs[a]["node"] = node
                self._caps(a, node)
            return a
        isdir = IDirectoryNode.providedBy(node)
        kind = ("md" if node.is_mutable() else "id") if isdir else ("mf" if node.is_mutable() else "if")
        a = len(self.objs)
        self.objs.append({"kind": kind, "node": node, "key": key})
        self.by_key[key] = a
        self._caps(a, node)
        return a

    def _caps(self, a, node):
        from allmydata.interfaces import IDirectoryNode
        nodes = [node]
        if IDirectoryNode.providedBy(node):
            nodes.append(node._node)
        for n in nodes:
            w = n.get_write_uri()
            if w:
                self.capmap[w] = (a, "w")
                self.write_keys[w.split(b":")[2]] = a
            r = n.get_readonly_uri()
            if r:
                self.capmap.setdefault(r, (a, "r"))
            v = n.get_verify_cap()
            if v:
                self.capmap.setdefault(v.to_string(), (a, "v"))

    def cap(self, a, auth):
        node = self.objs[a]["node"]
        if auth == "w":
            return node.get_uri()          # strongest held (a read cap for immutable objects)
        if auth == "r":
            return node.get_readonly_uri()
        v = node.get_verify_cap()
        return v.to_string() if v else None

    def mirror(self):
        """Walk every directory through the strongest node; returns [(kind, {name: (addr, rw)}, content-or-None)]."""
        from allmydata.interfaces import IDirectoryNode
        i = 0
        out = []
        while i < len(self.objs):
            o = self.objs[i]
            node = o["node"]
            entries, content = {}, None
            if IDirectoryNode.providedBy(node):
                kids = self.rt.wait(node.list())
                for name, (child, md) in sorted(kids.items()):
                    if child.is_unknown():
                        continue
                    a = self.register(child)
                    entries[name] = (a, bool(child.get_write_uri()))
            elif o["kind"] == "mf":
                content = self.rt.wait(node.download_best_version())
            out.append((o["kind"], entries, content))
            i += 1
        return out


def name_s(n):
    return "n%d" % n


def name_i(s):
    m = re.fullmatch(r"n(\d+)", s)
    return int(m.group(1)) if m else None


def grid_token(mir):
    objs = []
    for kind, entries, _ in mir:
        es = ",".join("%d.%d.%d" % (name_i(nm), a, 1 if rw else 0) for nm, (a, rw) in sorted(entries.items())) or "-"
        objs.append("%s/%s" % (kind, es))
    return ";".join(objs)


def canon_from_model(gridtok, nold):
    objs = []
    for o in gridtok.split(";"):
        k, es, ver = o.split("/")
        ent = {}
        if es != "-":
            for e in es.split(","):
                n, a, rw = e.split(".")
                ent[int(n)] = (int(a), rw == "1")
        objs.append((k, ent, int(ver)))

    def rep(a, depth):
        k, ent, ver = objs[a]
        if k == "id":       # immutable directories are content-addressed: identity = contents
            return ("id", tuple(sorted((n, rep(t, depth + 1), rw) for n, (t, rw) in ent.items())))
        if a < nold:
            return a
        if depth > 6:
            return ("new", k)
        return ("new", k, tuple(sorted((n, rep(t, depth + 1), rw) for n, (t, rw) in ent.items())))
    return [(k, tuple(sorted((n, rep(t, 0), rw) for n, (t, rw) in ent.items())), (ver > 0) if k == "mf" else None)
            for (k, ent, ver) in objs[:nold]]


def canon_from_mirror(mir, nold, before):
    def rep(a, depth):
        k, ent, _ = mir[a]
        if k == "id":
            return ("id", tuple(sorted((name_i(n), rep(t, depth + 1), rw) for n, (t, rw) in ent.items())))
        if a < nold:
            return a
        if depth > 6:
            return ("new", k)
        return ("new", k, tuple(sorted((name_i(n), rep(t, depth + 1), rw) for n, (t, rw) in ent.items())))
    res = []
    for i in range(nold):
        k, ent, content = mir[i]
        changed = (content != before[i][2]) if k == "mf" else None
        res.append((k, tuple(sorted((name_i(n), rep(t, 0), rw) for n, (t, rw) in ent.items())), changed))
    return res


# ----------------------------------------------------------------------------- reference for the monitor (from the statement)

def ref_resolve(mir, root_addr, root_auth, path):
    """[(addr, writeable)] for the root and each resolvable prefix; writeable = every cap so far carried write authority."""
    kind = mir[root_addr][0]
    w = (root_auth == "w") and kind in ("md", "mf")
    chain = [(root_addr, w)]
    a = root_addr
    if root_auth == "v":
        return chain
    for seg in path:
        ent = mir[a][1]
        if mir[a][0] not in ("md", "id") or seg not in ent:
            break
        a2, rw = ent[seg]
        w = w and rw and mir[a2][0] in ("md", "mf")
        a = a2
        chain.append((a, w))
    return chain


# ----------------------------------------------------------------------------- scenario

def build_world(ctx, rng, rt, g):
    from allmydata.immutable import upload
    from allmydata.mutable.publish import MutableData
    from allmydata.interfaces import SDMF_VERSION, MDMF_VERSION
    c = g.clients[0]
    W = World(rt, c)
    root = rt.wait(c.create_dirnode())
    A = rt.wait(c.create_dirnode())
    B = rt.wait(c.create_dirnode(version=rng.choice([SDMF_VERSION, MDMF_VERSION])))
    other = rt.wait(c.create_dirnode())
    fres = rt.wait(c.upload(upload.Data(bytes(rng.randrange(256) for _ in range(80)), convergence=b"c41")))
    F = c.create_node_from_uri(fres.get_uri())
    lres = rt.wait(c.upload(upload.Data(b"tiny", convergence=b"c41")))
    L = c.create_node_from_uri(lres.get_uri())
    M = rt.wait(c.create_mutable_file(MutableData(b"mutable one"), version=SDMF_VERSION))
    M2 = rt.wait(c.create_mutable_file(MutableData(b"mutable two"), version=rng.choice([SDMF_VERSION, MDMF_VERSION])))
    I = rt.wait(c.create_immutable_dirnode({"n1": (F, {}), "n2": (L, {})} if rng.random() < 0.8 else {"n1": (L, {})}))
    for n in (root, A, B, other, F, L, M, M2, I):
        W.register(n)
    pool = [(A, True), (A, False), (B, True), (B, False), (M, True), (M, False), (M2, True), (M2, False),
            (F, False), (L, False), (I, False), (other, True), (other, False)]

    def fill(dn, count, must=()):
        entries = {}
        names = rng.sample(range(NAMES), min(NAMES, count + len(must)))
        for nm, (node, rw) in zip(names, list(must) + [rng.choice(pool) for _ in range(count)]):
            if node is dn:
                continue
            entries[name_s(nm)] = (node.get_uri() if rw else None, node.get_readonly_uri())
        if entries:
            rt.wait(dn.set_children(entries))
    fill(root, rng.randrange(2, 5), must=[(A, False), (A, True)] if rng.random() < 0.8 else [(A, False)])
    fill(A, rng.randrange(2, 6), must=[(B, rng.random() < 0.6)])
    fill(B, rng.randrange(1, 5))
    fill(other, rng.randrange(0, 3))
    rt.settle()
    return W


def build_fixed_world(rt, g):
    """The corpus tree.  Addresses: 0 root, 1 A, 2 B, 3 other, 4 D, 5 F (CHK), 6 L (LIT), 7 M (SDMF), 8 M2 (MDMF), 9 I (immutable dir)
       root : n1 -> A by READ cap, n2 -> A by write cap, n3 -> M (rw), n4 -> F, n5 -> I
       A    : n1 -> B (rw), n2 -> F, n3 -> L, n4 -> M (rw), n5 -> B by READ cap
       B    : n1 -> F, n2 -> M2 (rw)        other : n1 -> D (rw)        D : empty        I : n1 -> F"""
    from allmydata.immutable import upload
    from allmydata.mutable.publish import MutableData
    from allmydata.interfaces import SDMF_VERSION, MDMF_VERSION
    c = g.clients[0]
    W = World(rt, c)
    root = rt.wait(c.create_dirnode())
    A = rt.wait(c.create_dirnode())
    B = rt.wait(c.create_dirnode())
    other = rt.wait(c.create_dirnode())
    D = rt.wait(c.create_dirnode())
    F = c.create_node_from_uri(rt.wait(c.upload(upload.Data(bytes(range(90)), convergence=b"c41"))).get_uri())
    L = c.create_node_from_uri(rt.wait(c.upload(upload.Data(b"tiny", convergence=b"c41"))).get_uri())
    M = rt.wait(c.create_mutable_file(MutableData(b"mutable one"), version=SDMF_VERSION))
    M2 = rt.wait(c.create_mutable_file(MutableData(b"mutable two"), version=MDMF_VERSION))
    I = rt.wait(c.create_immutable_dirnode({"n1": (F, {})}))
    for n in (root, A, B, other, D, F, L, M, M2, I):
        W.register(n)

    def rw(n):
        return (n.get_uri(), n.get_readonly_uri())

    def ro(n):
        return (None, n.get_readonly_uri())
    rt.wait(root.set_children({"n1": ro(A), "n2": rw(A), "n3": rw(M), "n4": ro(F), "n5": ro(I)}))
    rt.wait(A.set_children({"n1": rw(B), "n2": ro(F), "n3": ro(L), "n4": rw(M), "n5": ro(B)}))
    rt.wait(B.set_children({"n1": ro(F), "n2": rw(M2)}))
    rt.wait(other.set_children({"n1": rw(D)}))
    rt.settle()
    # nodes built from the WRITE caps stay alive in the gateway for the whole corpus, as they would while an operation
    # started with the write cap (deep-check, manifest, a slow upload) is in flight
    W.alive = [c.create_node_from_uri(n.get_uri()) for n in (root, A, B, other, D, M, M2)]
    return W


def corpus_script():
    """One minimal request per known mechanism (seeded changes C41-a/b/c/d, the repaired defect 9a727df), each through a read cap,
    through a path below a read-only link and with the read-only link as last path element; then the same shapes with full
    authority (these succeed).  ("id", request, expected class) or ("get", root, auth, path, kind)."""
    R, A, B, OTHER, D, F, L, M, M2, I = range(10)

    def q(cid, cls, root, auth, path, meth, t, **kw):
        return (cid, dict(root=root, auth=auth, path=path, meth=meth, t=t, **kw), cls)
    return [
        # --- repaired defect 9a727df: new name + mutable format (PlaceHolderNodeHandler -> ReplaceMeMixin)
        q("fix-9a727df/put-new-sdmf", "root-ro", A, "r", ["n8"], "PUT", "", fmt="sdmf"),
        q("fix-9a727df/post-upload-new-mdmf", "root-ro", A, "r", [], "POST", "upload", name="n8", fname="n8", fmt="mdmf"),
        q("fix-9a727df/put-new-sdmf-below-ro-link", "through-ro", R, "w", ["n1", "n8"], "PUT", "", fmt="sdmf"),
        q("fix-9a727df/post-upload-new-on-ro-link", "target-ro", R, "w", ["n1"], "POST", "upload", name="n8", fname="n8", fmt="sdmf"),
        # --- C41-c: the name is taken by an immutable (CHK / LIT) child + mutable format (FileNodeHandler -> ReplaceMeMixin)
        q("C41-c/put-over-chk-sdmf", "root-ro", A, "r", ["n2"], "PUT", "", fmt="sdmf"),
        q("C41-c/put-over-lit-mdmf", "root-ro", A, "r", ["n3"], "PUT", "", fmt="mdmf"),
        q("C41-c/post-upload-name-chk", "root-ro", A, "r", [], "POST", "upload", name="n2", fname="n2", fmt="sdmf"),
        q("C41-c/post-upload-to-chk-child", "root-ro", A, "r", ["n2"], "POST", "upload", fname="n2", fmt="sdmf"),
        q("C41-c/post-upload-name-lit-on-ro-link", "target-ro", R, "w", ["n1"], "POST", "upload", name="n3", fname="n3", fmt="mdmf"),
        q("C41-c/put-over-chk-below-ro-link", "through-ro", R, "w", ["n1", "n2"], "PUT", "", fmt="sdmf"),
        q("C41-c/put-over-chk-in-immutable-dir", "root-ro", I, "w", ["n1"], "PUT", "", fmt="sdmf"),
        # --- C41-d: immutable (CHK, > 55 bytes) upload with replace=false / only-files: dirnode.add_file must refuse before uploading
        q("C41-d/put-new-chk-replace-false", "root-ro", A, "r", ["n8"], "PUT", "", repl="no"),
        q("C41-d/put-new-chk-only-files", "root-ro", A, "r", ["n8"], "PUT", "", repl="only"),
        q("C41-d/put-over-chk-only-files", "root-ro", A, "r", ["n2"], "PUT", "", repl="only"),
        q("C41-d/post-upload-new-replace-false", "root-ro", A, "r", [], "POST", "upload", name="n8", fname="n8", repl="no"),
        q("C41-d/put-new-chk-replace-false-below-ro-link", "through-ro", R, "w", ["n1", "n8"], "PUT", "", repl="no"),
        q("C41-d/post-upload-new-replace-false-on-ro-link", "target-ro", R, "w", ["n1"], "POST", "upload", name="n8", fname="n8", repl="no"),
        q("C41-d/put-new-chk-only-files-in-immutable-dir", "root-ro", I, "w", ["n8"], "PUT", "", repl="only"),
        # --- C41-b: relink out of a read-only directory into a different writeable one (by cap, by cap/path)
        q("C41-b/relink-file-to-cap", "root-ro", A, "r", [], "POST", "relink", name="n2", to="n7", todir=[OTHER, "w", []]),
        q("C41-b/relink-dir-to-path", "root-ro", A, "r", [], "POST", "relink", name="n1", to="n7", todir=[OTHER, "w", ["n1"]]),
        q("C41-b/relink-mutable-on-ro-link", "target-ro", R, "w", ["n1"], "POST", "relink", name="n4", to="n6", todir=[D, "w", []]),
        q("C41-b/relink-below-ro-link", "through-ro", R, "w", ["n1", "n5"], "POST", "relink", name="n1", to="n6", todir=[OTHER, "w", []]),
        q("C41-b/relink-out-of-immutable-dir", "root-ro", I, "w", [], "POST", "relink", name="n1", to="n6", todir=[OTHER, "w", []]),
        q("C41-b/relink-same-name", "root-ro", A, "r", [], "POST", "relink", name="n3", todir=[D, "w", []]),
        q("C41-b/rename-in-place", "root-ro", A, "r", [], "POST", "rename", name="n2", to="n7"),
        q("C41-b/relink-rw-source-to-ro-dest", "rw", R, "w", ["n2"], "POST", "relink", name="n2", to="n7", todir=[OTHER, "r", []]),
        # --- C41-a: a writeable node of the same object is alive in the gateway (the harness holds one): responses and
        #     decisions through the read cap must not change
        ("get", A, "r", [], "json"), ("get", A, "r", [], "uri"), ("get", A, "r", [], "info"), ("get", A, "r", [], "html"),
        ("get", R, "r", ["n2"], "json"), ("get", R, "w", ["n1"], "json"), ("get", R, "w", ["n1", "n5"], "json"),
        ("get", M, "r", [], "json"), ("get", M, "r", [], "uri"), ("get", R, "w", ["n1", "n4"], "json"), ("get", R, "r", [], "readonly-uri"),
        q("C41-a/delete-child", "root-ro", A, "r", ["n2"], "DELETE", ""),
        q("C41-a/mkdir", "root-ro", A, "r", [], "POST", "mkdir", name="n8"),
        q("C41-a/put-new-chk", "root-ro", A, "r", ["n8"], "PUT", ""),
        q("C41-a/overwrite-mutable-by-readcap", "root-ro", M, "r", [], "PUT", ""),
        q("C41-a/overwrite-mutable-below-ro-link", "through-ro", R, "w", ["n1", "n4"], "PUT", ""),
        q("C41-a/post-upload-mutable-on-ro-link-child", "through-ro", R, "w", ["n1", "n4"], "POST", "upload", fname="n4"),
        q("C41-a/set-children", "root-ro", A, "r", [], "POST", "set_children", kids=[["n8", F, False]]),
        q("C41-a/set-uri", "root-ro", A, "r", [], "POST", "uri", name="n8", cap=[F, "r"]),
        q("C41-a/unlink", "target-ro", R, "w", ["n1"], "POST", "unlink", name="n2"),
        q("C41-a/delete-below-ro-link", "through-ro", R, "w", ["n1", "n2"], "DELETE", ""),
        q("C41-a/mkdir-p-below-ro-link", "through-ro", R, "w", ["n1", "n8", "n7"], "PUT", ""),
        q("C41-a/verify-cap-put", "root-ro", A, "v", ["n8"], "PUT", ""),
        # --- the same shapes with full authority: accepted (the harness can tell acceptance from refusal)
        q("rw/relink-file-to-cap", "rw", A, "w", [], "POST", "relink", name="n3", to="n7", todir=[OTHER, "w", []]),
        q("rw/put-new-sdmf", "rw", A, "w", ["n8"], "PUT", "", fmt="sdmf"),
        q("rw/put-over-chk-sdmf", "rw", R, "w", ["n2", "n2"], "PUT", "", fmt="sdmf"),
        q("rw/delete-ro-link-itself", "rw", R, "w", ["n1"], "DELETE", ""),
        ("get", A, "w", [], "json"),
    ]


T_TOK = {"": "none", "mkdir": "mkdir", "mkdir-with-children": "mkdirwc", "mkdir-immutable": "mkdirimm", "upload": "upload",
         "uri": "uri", "delete": "del", "unlink": "unlink", "rename": "rename", "relink": "relink",
         "set_children": "setchildren", "set-children": "setchildren", "bogus": "bad"}


def ro_addressings(mir):
    """Every way to address a directory S without write authority over it:
    (S, root, auth, path, class) with class root-ro (read cap of S itself), target-ro (the last link of the
    path is a read-only link to S, the rest is writeable) or through-ro (S lies below such a link)."""
    res = []
    for S in range(len(mir)):
        if mir[S][0] in ("md", "id"):
            res.append((S, S, "r", [], "root-ro"))
    for P in range(len(mir)):
        if mir[P][0] != "md":
            continue
        for n, (X, rw) in sorted(mir[P][1].items()):
            if mir[X][0] not in ("md", "id") or (rw and mir[X][0] == "md"):
                continue
            res.append((X, P, "w", [n], "target-ro"))
            for n2, (Y, rw2) in sorted(mir[X][1].items()):
                if mir[Y][0] in ("md", "id") and n2 != n:
                    res.append((Y, P, "w", [n, n2], "through-ro"))
    return res


def writeable_dests(mir, exclude):
    """to_dir= values naming a writeable directory other than `exclude`: by write cap, and by write cap + path"""
    res = []
    for D in range(len(mir)):
        if mir[D][0] == "md" and D != exclude:
            res.append((D, [D, "w", []]))
    for Q in range(len(mir)):
        if mir[Q][0] != "md":
            continue
        for q, (D, rw) in sorted(mir[Q][1].items()):
            if rw and mir[D][0] == "md" and D != exclude:
                res.append((D, [Q, "w", [q]]))
    return res


def classify(mir, root, auth, path, meth, t):
    chain = ref_resolve(mir, root, auth, path)
    root_ro = not chain[0][1]
    through_ro = any(not w for (_, w) in chain[:len(path)]) if path else False
    full = len(chain) == len(path) + 1
    fk = mir[chain[-1][0]][0] if full else None
    # the request operates on the addressed node itself (not on its parent) and that node is reached read-only
    target_ro = bool(full and path and not chain[-1][1] and (
        (meth == "POST" and fk in ("md", "id")) or
        (fk == "mf" and ((meth == "POST" and t == "upload") or (meth == "PUT" and t == "")))))
    cls = "root-ro" if root_ro else ("through-ro" if through_ro else ("target-ro" if target_ro else "rw"))
    return chain, cls


def gen_relink_focus(rng, W, mir):
    """t=relink (to_dir= a *different writeable* directory, by cap or by cap/path) or t=rename of an existing
    child (file / directory / mutable file in turn) of a directory addressed without write authority."""
    cands = [c for c in ro_addressings(mir) if mir[c[0]][1]]
    if rng.random() < 0.22:       # the same shapes with full authority: these must succeed (harness can tell the difference)
        cands = [(S, S, "w", [], "rw") for S in range(len(mir)) if mir[S][0] == "md" and mir[S][1]]
    if not cands:
        return None
    S, root, auth, path, cls = rng.choice(cands)
    kinds = {}
    for n, (a, rw) in sorted(mir[S][1].items()):
        kinds.setdefault(mir[a][0], []).append(n)
    name = rng.choice(kinds[rng.choice(sorted(kinds))])
    r = {"root": root, "auth": auth, "path": list(path), "meth": "POST", "repl": "yes", "name": name, "focus": True}
    dests = writeable_dests(mir, S)
    if dests and rng.random() < 0.8:
        D, todir = rng.choice(dests)
        r["t"] = "relink"
        r["todir"] = todir
        free = [name_s(i) for i in range(NAMES) if name_s(i) not in mir[D][1]]
        if rng.random() < 0.7 and free:
            r["to"] = rng.choice(free)
        elif rng.random() < 0.5:
            r["to"] = name_s(rng.randrange(NAMES))
    else:
        r["t"] = rng.choice(["rename", "relink"])
        free = [name_s(i) for i in range(NAMES) if name_s(i) not in mir[S][1]]
        r["to"] = rng.choice(free) if free else name_s(rng.randrange(NAMES))
    chain, c2 = classify(mir, root, auth, path, "POST", r["t"])
    r["cls"] = c2
    r["ro"] = c2 != "rw"
    r["root_ro"] = c2 == "root-ro"
    return r


def gen_request(rng, W, mir, want):
    """A random modifying request as a dict (JSON-serialisable).  want ∈ root-ro | through-ro | target-ro | rw."""
    nobj = len(mir)
    dirs = [i for i in range(nobj) if mir[i][0] in ("md", "id")]
    mdirs = [i for i in dirs if mir[i][0] == "md"]
    forced = None
    if want == "target-ro":
        cands = [c for c in ro_addressings(mir) if c[4] == "target-ro"]
        if cands:
            forced = rng.choice(cands)
        else:
            want = "through-ro"
    for _attempt in range(60):
        if want == "root-ro":
            root = rng.choice(dirs) if rng.random() < 0.75 else rng.randrange(nobj)
            auth = rng.choice(["r", "r", "r", "v", "w"])      # "w" of an immutable object is its read cap
        else:
            root = rng.choice(mdirs) if rng.random() < 0.9 else rng.randrange(nobj)
            auth = "w"
        if auth == "v" and W.cap(root, "v") is None:
            continue
        # path: random walk, sometimes a missing name
        path, a, crossed = [], root, False
        nsteps = rng.choice([0, 1, 1, 2, 2, 3, 4]) + (1 if want == "through-ro" else 0)
        for j in range(nsteps):
            ent = mir[a][1] if mir[a][0] in ("md", "id") else {}
            if ent and rng.random() < 0.86:
                names = sorted(ent)
                dnames = [n for n in names if mir[ent[n][0]][0] in ("md", "id")]
                if j < nsteps - 1 and dnames and rng.random() < 0.85:
                    names = dnames
                if want == "through-ro" and not crossed:
                    ro_dirs = [n for n in names if not ent[n][1] and mir[ent[n][0]][0] in ("md", "id")]
                    if ro_dirs and rng.random() < 0.8:
                        names = ro_dirs
                seg = rng.choice(names)
                crossed = crossed or not ent[seg][1]
                path.append(seg)
                a = ent[seg][0]
                if mir[a][0] not in ("md", "id") and rng.random() < 0.85:
                    break          # mostly stop at a file (going on gives "a file is in the way")
            else:
                path.append(name_s(rng.randrange(NAMES)))
                break
        if path and rng.random() < 0.06:
            path.append(path[0])       # x/…/x : `terminal` is decided by name
        chain = ref_resolve(mir, root, auth, path)
        root_ro = not chain[0][1]
        # a proper prefix of the path (the root included) resolves to a node reached read-only
        through_ro = any(not w for (_, w) in chain[:len(path)]) if path else False
        is_ro = root_ro or through_ro
        cls = "root-ro" if root_ro else ("through-ro" if through_ro else "rw")
        if cls == want:
            break
    meth = rng.choice(["PUT", "PUT", "POST", "POST", "POST", "DELETE"])
    if forced is not None:
        _, root, auth, path, _ = forced
        path = list(path)
        meth = "POST"
        chain = ref_resolve(mir, root, auth, path)
    if meth == "PUT":
        t = rng.choice(["", "", "", "uri", "mkdir", "bogus"])
    elif meth == "POST":
        t = rng.choice(["mkdir", "mkdir-with-children", "mkdir-immutable", "upload", "upload", "uri", "delete", "unlink",
                        "rename", "relink", "set_children", "set-children", "bogus"])
    else:
        t = ""
    tgt = chain[-1][0] if len(chain) == len(path) + 1 else None
    tent = mir[tgt][1] if tgt is not None and mir[tgt][0] in ("md", "id") else {}

    def pick_name():
        if tent and rng.random() < 0.6:
            return rng.choice(sorted(tent))
        return name_s(rng.randrange(NAMES))
    _, cls = classify(mir, root, auth, path, meth, t)
    r = {"root": root, "auth": auth, "path": path, "meth": meth, "t": t, "ro": cls != "rw", "root_ro": cls == "root-ro", "cls": cls}
    r["repl"] = rng.choice(["yes"] * 5 + ["no", "only"])
    if t in ("mkdir", "mkdir-with-children", "mkdir-immutable") and meth == "POST" and rng.random() < 0.7:
        r["name"] = pick_name()
    if t in ("upload", "uri", "delete", "unlink", "rename", "relink") and meth == "POST" and rng.random() < 0.93:
        r["name"] = pick_name()
    if t in ("rename", "relink") and rng.random() < 0.8:
        r["to"] = pick_name()
    if t == "relink" and rng.random() < 0.6:
        d = rng.choice(dirs)
        dpath = []
        if mir[d][1] and rng.random() < 0.4:
            sub = [n for n, (a, rw) in sorted(mir[d][1].items()) if mir[a][0] in ("md", "id")]
            if sub:
                dpath = [rng.choice(sub)]
        r["todir"] = [d, rng.choice(["w", "w", "r"]), dpath]
    if t == "uri":
        r["cap"] = [rng.randrange(nobj), rng.choice(["w", "r"])]
    if t in ("mkdir-with-children", "mkdir-immutable", "set_children", "set-children"):
        kids = []
        imm_only = (t == "mkdir-immutable" and rng.random() < 0.8)
        for nm in rng.sample(range(NAMES), rng.randrange(0, 3) if t.startswith("mkdir") else rng.randrange(1, 3)):
            a = rng.randrange(nobj)
            if imm_only and mir[a][0] in ("md", "mf"):
                continue
            kids.append([name_s(nm), a, rng.random() < 0.5])
        r["kids"] = kids
    if t == "upload":
        r["fname"] = pick_name()
        # `_POST_upload` on a directory descends into a child *directory* of that name again and again:
        # keep to names whose chain of same-named sub-directories ends (a cycle would never answer)
        for _try in range(10):
            eff, a, steps = r.get("name", r["fname"]), tgt, 0
            while a is not None and mir[a][0] in ("md", "id") and eff in mir[a][1] and steps < 6:
                a = mir[a][1][eff][0]
                steps += 1
            if steps < 6:
                break
            r.pop("name", None)
            r["fname"] = name_s(rng.randrange(NAMES))
        else:
            r["t"] = t = "bogus"
    if (meth == "PUT" and t == "") or t == "upload":
        r["fmt"] = rng.choice(["", "", "sdmf", "mdmf"])
        if meth == "PUT" and rng.random() < 0.12:
            r["off"] = True
    _, cls = classify(mir, root, auth, path, meth, r["t"])
    r.update(ro=cls != "rw", root_ro=cls == "root-ro", cls=cls)
    return r


def request_bytes(W, r, serial):
    capstr = W.cap(r["root"], r["auth"])
    url = b"/uri/" + quote(capstr).encode()
    for seg in r["path"]:
        url += b"/" + seg.encode()
    q = []
    if r["t"]:
        q.append("t=" + r["t"])
    if "name" in r:
        q.append(("from_name=" if r["t"] in ("rename", "relink") else "name=") + r["name"])
    if "to" in r:
        q.append("to_name=" + r["to"])
    if "todir" in r:
        d, au, dpath = r["todir"]
        q.append("to_dir=" + quote("/".join([W.cap(d, au).decode()] + dpath), safe=""))
    if r["repl"] != "yes":
        q.append("replace=" + {"no": "false", "only": "only-files"}[r["repl"]])
    if r.get("fmt"):
        q.append("format=" + r["fmt"])
    if r.get("off"):
        q.append("offset=2")
    body, ctype = b"", None
    t = r["t"]
    if t == "uri" and "cap" in r:
        c = W.cap(r["cap"][0], r["cap"][1])
        if r["meth"] == "PUT":
            body = c
        else:
            q.append("uri=" + quote(c, safe=""))
    elif "kids" in r:
        d = {}
        for nm, a, rw in r["kids"]:
            kind = W.objs[a]["kind"]
            pd = {"ro_uri": W.cap(a, "r").decode()}
            if rw:
                pd["rw_uri"] = W.cap(a, "w").decode()
            d[nm] = ["dirnode" if kind in ("md", "id") else "filenode", pd]
        body = json.dumps(d).encode()
    elif t == "upload":
        body = (b"--" + BND + b'\r\nContent-Disposition: form-data; name="file"; filename="' + r["fname"].encode() + b'"\r\n\r\n' +
                (b"uploaded contents %d " % serial) * 5 + b"\r\n--" + BND + b"--\r\n")
        ctype = b"multipart/form-data; boundary=" + BND
    elif r["meth"] == "PUT" and t == "":
        body = (b"put contents %d " % serial) * 6
    if q:
        url += b"?" + "&".join(q).encode()
    return r["meth"].encode(), url, body, ctype


def model_line(fixed, W, mir, r):
    toks = ["serve", "1" if fixed else "0", grid_token(mir), "%d.%s" % (r["root"], r["auth"]),
            ",".join(str(name_i(s)) for s in r["path"]) or "-",
            "m=" + r["meth"].lower(), "t=" + T_TOK[r["t"]]]
    if "name" in r:
        toks.append("name=%d" % name_i(r["name"]))
    elif r["t"] == "upload":
        toks.append("name=%d" % name_i(r["fname"]))     # name = get_arg("name") or contents.filename
    if "to" in r:
        toks.append("to=%d" % name_i(r["to"]))
    if "todir" in r:
        d, au, dpath = r["todir"]
        toks.append("todir=%d.%s/%s" % (d, au, ",".join(str(name_i(s)) for s in dpath) or "-"))
    if "cap" in r:
        toks.append("cap=%d.%s" % (r["cap"][0], r["cap"][1]))
    if r.get("kids"):
        toks.append("kids=" + ",".join("%d.%d.%d" % (name_i(nm), a, 1 if rw else 0) for nm, a, rw in r["kids"]))
    toks.append("repl=" + r["repl"])
    if r.get("fmt"):
        toks.append("fmt=1")
    if r.get("off"):
        toks.append("off=1")
    return " ".join(toks)


ERR_CODE = {"notWriteable": 500, "assertion": 500, "attributeError": 500, "existingChild": 409, "conflict": 409,
            "noSuchChild": 404, "notFound": 404, "webError": 400, "badRequest": 400, "mustBeDeepImmutable": 400}


def expected_status(out, meth):
    """status predicted by the model's outcome token"""
    head = out.split(" ")[0]
    if head == "ok":
        return "2xx"
    _, cls, phase = head.split(":")
    if cls == "notAllowed":
        return 405 if meth == "POST" else 501
    if phase == "t" and cls in ("notWriteable", "assertion", "attributeError"):
        return None          # ErrorPage(None, …): response without status line
    return ERR_CODE[cls]


def status_class(st):
    if st is None:
        return None
    if 200 <= st < 400:
        return "2xx"
    return st


def definitely_modifying(r, mir):
    """Would this request change a directory or file if it were authorised?  (conservative: False when unsure)"""
    chain = ref_resolve(mir, r["root"], r["auth"] if r["auth"] != "v" else "r", r["path"])
    full = len(chain) == len(r["path"]) + 1
    t, meth = r["t"], r["meth"]
    tgt = chain[-1][0] if full else None
    tent = mir[tgt][1] if tgt is not None and mir[tgt][0] in ("md", "id") else None
    if r["auth"] == "v":
        return False
    if meth == "DELETE":
        return full and len(r["path"]) >= 1
    if r["repl"] != "yes":
        return False
    if meth == "PUT" and t == "":
        return (full and len(r["path"]) >= 1) or (len(chain) == len(r["path"]))
    if meth == "POST" and t in ("delete", "unlink"):
        return tent is not None and r.get("name") in tent
    if meth == "POST" and t == "mkdir":
        return tent is not None and "name" in r and r["name"] not in tent
    if meth == "POST" and t == "rename":
        return tent is not None and r.get("name") in tent and "to" in r and r["to"] != r["name"] and r["to"] not in tent
    if meth == "POST" and t == "relink" and "todir" in r:
        dch = ref_resolve(mir, r["todir"][0], r["todir"][1], r["todir"][2])
        if len(dch) != len(r["todir"][2]) + 1 or mir[dch[-1][0]][0] != "md" or dch[-1][0] == tgt:
            return False
        return tent is not None and r.get("name") in tent and r.get("to", r["name"]) not in mir[dch[-1][0]][1]
    return False


# ----------------------------------------------------------------------------- run

def scan_write_keys(W, body):
    text = unquote(body.decode("latin-1")).encode("latin-1", "replace") + body
    return sorted({a for k, a in W.write_keys.items() if k in text})


def caps_in_body(W, body):
    text = unquote(body.decode("latin-1"))
    found = set()
    for m in re.finditer(r"URI:[A-Za-z0-9-]+:[a-z0-9:]*", text):
        txt = m.group(0)
        cuts = [len(txt)] + [i for i in range(len(txt)) if txt[i] == ":"] + [i + 1 for i in range(len(txt)) if txt[i] == ":"]
        for cut in sorted(set(cuts), reverse=True):        # longest known cap string at this position
            if txt[:cut].encode() in W.capmap:
                found.add(W.capmap[txt[:cut].encode()])
                break
    return found


def own_write_objects(r):
    """objects whose write cap the request itself carries (root cap, uri=, to_dir=, JSON children): echoing them is no leak"""
    own = set()
    if r.get("auth") == "w":
        own.add(r["root"])
    if r.get("cap") and r["cap"][1] == "w":
        own.add(r["cap"][0])
    if r.get("todir") and r["todir"][1] == "w":
        own.add(r["todir"][0])
    for nm, a, rw in r.get("kids", []):
        if rw:
            own.add(a)
    return own


def run_scenario(ctx, seed, nreq, fixed_model, stop_at=None, script=None):
    """script = None: random tree + random requests; otherwise the fixed corpus (fixed tree, fixed requests)."""
    import random
    import grid
    rng = random.Random("c41-%d" % seed)
    with grid.Runtime(seed=seed, policy="fifo" if script is not None else rng.choice(["random", "fifo", "random"])) as rt:
        g = grid.Grid(grid.fresh_dir("c41"), rt, num_servers=3, k=1, happy=1, n=2, max_segment_size=64)
        try:
            c = g.clients[0]
            web = make_web(c, rt, os.path.join(g.basedir, "webtmp"))
            W = build_fixed_world(rt, g) if script is not None else build_world(ctx, rng, rt, g)
            mir = W.mirror()
            lines, cases, impl = [], [], []
            for idx in range(len(script) if script is not None else nreq):
                if script is not None:
                    item = script[idx]
                    ctx.count("corpus-requests")
                    if item[0] == "get":
                        exec_get(ctx, rt, g, web, W, mir, seed, idx, lines, cases, impl, item[1], item[2], list(item[3]), item[4])
                        continue
                    r = dict(item[1])
                    r.setdefault("repl", "yes")
                    _, cls = classify(mir, r["root"], r["auth"], r["path"], r["meth"], r["t"])
                    r.update(ro=cls != "rw", root_ro=cls == "root-ro", cls=cls, corpus=item[0])
                    if item[2] is not None and cls != item[2]:
                        # the tree as read back through the gateway is not the tree that was built (e.g. a link stored with
                        # the read cap only is listed as writeable): report, and keep the class the corpus was built for
                        ctx.violation("corpus case %s: built as %s, but the tree read back through the gateway makes it %s "
                                      "(a link stored read-only is listed with write authority, or vice versa)" % (item[0], item[2], cls),
                                      {"scenario": seed, "index": idx, "request": r}, "tree-read-back-with-different-authority:%s->%s" % (item[2], cls))
                        cls = item[2]
                        r.update(ro=cls != "rw", root_ro=cls == "root-ro", cls=cls)
                else:
                    want = rng.choice(["root-ro", "root-ro", "through-ro", "through-ro", "target-ro", "rw", "rw", "rw"])
                    if rng.random() < 0.2:
                        do_get(ctx, rng, rt, g, web, W, mir, seed, idx, lines, cases, impl)
                        continue
                    r = gen_relink_focus(rng, W, mir) if rng.random() < 0.14 else None
                    if r is None:
                        r = gen_request(rng, W, mir, want)
                nold = len(mir)
                meth, url, body, ctype = request_bytes(W, r, idx)
                line = model_line(fixed_model, W, mir, r)
                before = snapshot(g) if r["ro"] else None
                st, head, rbody, finished = http(rt, web.site, meth, url, body, ctype)
                case = {"scenario": seed, "index": idx, "request": r, "status": st, "line": line}
                if not finished:
                    ctx.disagree("the request never completed (the table predicts an answer)", case, "no response", "response")
                auth_class = r.get("cls") or ("root-ro" if r["root_ro"] else ("through-ro" if r["ro"] else "rw"))
                ctx.count("req:%s:%s %s" % (auth_class, r["meth"], r["t"] or "-"))
                ctx.count("status:%s:%s" % (auth_class, status_class(st)))
                if r.get("focus"):
                    ctx.count("relink-focus:%s:%s" % (auth_class, "to_dir-by-%s" % ("path" if r["todir"][2] else "cap") if "todir" in r else "same-dir"))
                # the whole logical grid after the request: every directory of the tree (also those named only in
                # to_dir= / uri= / children parameters, and every other registered one) and every mutable file's contents
                mir2 = W.mirror()
                if r["ro"]:
                    # ------------- monitor (from the statement): read-only authority => refused AND nothing changed,
                    # whatever the status code says
                    after = snapshot(g)
                    tl = r["t"] or r["meth"]
                    diffs = [i for i in range(len(mir)) if mir2[i] != mir[i]]
                    if diffs or len(mir2) != len(mir):
                        chain = ref_resolve(mir, r["root"], r["auth"], r["path"])
                        addressed = chain[-1][0] if len(chain) == len(r["path"]) + 1 else None
                        dest = None
                        if "todir" in r:
                            dch = ref_resolve(mir, r["todir"][0], r["todir"][1], r["todir"][2])
                            dest = dch[-1][0] if len(dch) == len(r["todir"][2]) + 1 else None
                        wheres = []
                        for i in diffs:
                            if i == dest:
                                wheres.append("to_dir")
                            elif i == addressed:
                                wheres.append("addressed-dir" if mir[i][0] != "mf" else "addressed-file")
                            elif mir[i][0] == "mf":
                                wheres.append("mutable-file")
                            else:
                                wheres.append("other-dir")
                        if not wheres:
                            wheres = ["new-object"]
                        detail = []
                        for i in diffs[:4]:
                            b, a2 = mir[i], mir2[i]
                            detail.append({"object": i, "kind": b[0],
                                           "links_added": sorted(n for n in a2[1] if n not in b[1] or a2[1][n] != b[1][n]),
                                           "links_removed": sorted(n for n in b[1] if n not in a2[1]),
                                           "content_changed": b[2] != a2[2]})
                        ctx.violation("a %s %s request made with read-only authority (%s) was answered %s but changed the grid: %s" % (
                                      r["meth"], "t=" + r["t"] if r["t"] else "", auth_class, st, detail),
                                      dict(case, changed=detail), "readonly-request-changed-grid:%s:%s" % (tl, "+".join(sorted(set(wheres)))))
                    elif after != before:
                        added = sorted(set(after) - set(before))
                        changed = sorted(k for k in before if k in after and after[k] != before[k])
                        gone = sorted(set(before) - set(after))
                        where = ("mutable-format-upload" if r.get("fmt") and not changed and not gone else
                                 ("new-shares" if not changed and not gone else "shares-modified"))
                        ctx.violation("a request made with read-only authority (%s) changed the share files on the storage servers "
                                      "(status %s): %d new share files, %d modified, %d removed" % (auth_class, st, len(added), len(changed), len(gone)),
                                      dict(case, added=added[:4], changed=changed[:4]), "readonly-request-changed-grid:%s:%s" % (tl, where))
                    if st is not None and 200 <= st < 400 and definitely_modifying(r, mir):
                        ctx.violation("a modifying request addressed through a read-only path was answered %s instead of being refused" % st,
                                      case, "modifying-request-accepted-through-readonly:%s:%s" % (r["meth"], r["t"] or "-"))
                    leaked = [a for a in scan_write_keys(W, rbody) if a not in own_write_objects(r)]
                    if leaked:     # (the request's own root cap echoed back is the client's, not a leak)
                        ctx.violation("the response to a request made through a read-only path contains a write cap",
                                      dict(case, objects=leaked), "writecap-in-readonly-response:%s:%s" % (r["meth"], r["t"] or "-"))
                    ctx.case(("ro", auth_class, r["meth"], r["t"], status_class(st), len(r["path"]), r["repl"], bool(r.get("fmt")),
                              "todir" in r, bool(r.get("todir", [0, 0, 0])[2])))
                else:
                    ctx.case(("rw", r["meth"], r["t"], status_class(st), len(r["path"]), r["repl"], bool(r.get("fmt"))))
                    if st is not None and 200 <= st < 400:
                        ctx.count("accepted-through-write-cap")
                    else:
                        ctx.count("refused-through-write-cap")
                # ------------- observable for the correspondence: status + resulting tree
                if st is not None and 200 <= st < 400:
                    body_caps = "n/a"
                else:
                    body_caps = ",".join(sorted("%d.%s" % ca for ca in caps_in_body(W, rbody))) or "-"
                impl.append("%s %r caps=%s" % (status_class(st), canon_from_mirror(mir2, nold, mir), body_caps))
                lines.append(line)
                cases.append(dict(case, nold=nold, kind="serve"))
                mir = mir2
                if stop_at is not None and idx >= stop_at:
                    break
            unpack_probe(ctx, rt, c, W, mir, seed, lines, cases, impl)
            for _ in range(3):
                cache_probe(ctx, rng, c, W, mir, seed, lines, cases, impl)
            # check & repair through a read-only cap of a damaged mutable file must not write (ticket #625)
            repair_probe(ctx, rng, rt, g, web, W, seed)
            if script is not None:
                for cs in cases:
                    cs["corpus"] = True
            return lines, cases, impl
        finally:
            g.close()


def do_get(ctx, rng, rt, g, web, W, mir, seed, idx, lines, cases, impl):
    nobj = len(mir)
    root = rng.randrange(nobj)
    auth = rng.choice(["w", "r", "r"])
    path, a = [], root
    for _ in range(rng.choice([0, 0, 1, 2, 3])):
        ent = mir[a][1] if mir[a][0] in ("md", "id") else {}
        if not ent:
            break
        seg = rng.choice(sorted(ent))
        path.append(seg)
        a = ent[seg][0]
    isdir = mir[a][0] in ("md", "id")
    kind = rng.choice(["json", "json", "info", "uri", "readonly-uri", "html"] if isdir else ["json", "info", "uri", "readonly-uri"])
    exec_get(ctx, rt, g, web, W, mir, seed, idx, lines, cases, impl, root, auth, path, kind)


def exec_get(ctx, rt, g, web, W, mir, seed, idx, lines, cases, impl, root, auth, path, kind):
    chain = ref_resolve(mir, root, auth, path)
    final_ro = not chain[-1][1]
    a = chain[-1][0]
    isdir = mir[a][0] in ("md", "id")
    url = b"/uri/" + quote(W.cap(root, auth)).encode() + b"".join(b"/" + s.encode() for s in path)
    if kind == "html":
        url += b"/"
    else:
        url += (b"/" if (isdir and path and kind == "info") else b"") + b"?t=" + kind.encode()
    st, head, body, finished = http(rt, web.site, b"GET", url)
    case = {"scenario": seed, "index": idx, "get": kind, "root": root, "auth": auth, "path": path, "status": st}
    ctx.count("get:%s:%s" % ("ro" if final_ro else "rw", kind))
    if final_ro:
        # pages echo the request's own URL (form actions): the client's own root cap is not a leak
        leaked = [x for x in scan_write_keys(W, body) if not (auth == "w" and x == root)]
        if leaked:
            ctx.violation("a %s response for a node reached without write authority contains the write key of object(s) %s" % (kind, leaked),
                          dict(case, objects=leaked), "writecap-in-readonly-response:GET:%s" % kind)
        ctx.case(("get-ro", kind, mir[a][0], len(path), auth))
    else:
        ctx.case(None)
        if st == 200 and kind in ("json", "info") and mir[a][0] in ("md", "mf") and not scan_write_keys(W, body):
            ctx.disagree("a response through the write cap is expected to show the write cap (harness can see write caps)", case, "no-write-key", "write-key")
        elif st == 200:
            ctx.count("get-through-write-cap-shows-write-key")
    if st == 200:
        own = W.capmap.get(W.cap(root, auth))     # the HTML upload form echoes the request's own URL
        got = sorted("%d.%s" % (o, au) for (o, au) in caps_in_body(W, body) if au != "v" and not (kind in ("html", "info") and (o, au) == own))
        impl.append(",".join(got) or "-")
        lines.append("caps %s %d.%s %s %s" % (grid_token(mir), root, auth, ",".join(str(name_i(s)) for s in path) or "-",
                                              {"readonly-uri": "rouri"}.get(kind, kind)))
        cases.append(dict(case, kind="caps", own="%d.%s" % own if own else None))


def unpack_probe(ctx, rt, c, W, mir, seed, lines, cases, impl):
    """function-level correspondence for the directory read path: the real `_unpack_contents` applied to the stored bytes of every
    mutable directory, once by a node built from the write cap and once by a node built from the read cap"""
    for a, (kind, entries, _) in enumerate(mir):
        if kind != "md":
            continue
        rwnode = W.objs[a]["node"]
        if not rwnode.get_write_uri():
            continue
        data = rt.wait(rwnode._node.download_best_version())
        ronode = c.create_node_from_uri(rwnode.get_readonly_uri())
        for wflag, node in (("1", rwnode), ("0", ronode)):
            kids = node._unpack_contents(data)
            got = []
            for name, (child, md) in sorted(kids.items(), key=lambda kv: name_i(kv[0]) if name_i(kv[0]) is not None else -1):
                if child.is_unknown() or name_i(name) is None:
                    continue
                ca = W.by_key.get(W.key_of(child))
                writeable = child.get_write_uri() is not None
                got.append("%d:%s:%s" % (name_i(name), ca, "w" if writeable else "r"))
                if wflag == "0" and writeable:
                    ctx.violation("a read-only view of directory %d unpacked child %s with a write cap" % (a, name),
                                  {"scenario": seed, "probe": "unpack", "dir": a, "child": name}, "readonly-view-unpacked-writecap")
            model_order = sorted(got, key=lambda t: int(t.split(":")[0]))
            lines.append("unpack %s %d %s" % (grid_token(mir), a, wflag))
            impl.append(",".join(model_order) or "-")
            cases.append({"scenario": seed, "kind": "unpack", "dir": a, "writeable_view": wflag == "1"})
            ctx.count("unpack-probes")
            ctx.case(("unpack", wflag, tuple(t.split(":")[2] for t in model_order)))


def cache_probe(ctx, rng, c, W, mir, seed, lines, cases, impl):
    """function-level correspondence for NodeMaker.create_from_cap's node cache: a history of lookups by write and read caps of
    the same objects while earlier nodes are still alive, with collections in between; observable = writeable or not"""
    import gc
    held, ops, got = [], [], []
    for _ in range(rng.randrange(4, 12)):
        if rng.random() < 0.18:
            held.clear()
            gc.collect()
            ops.append("e")
            continue
        a = rng.randrange(len(W.objs))
        auth = rng.choice(["w", "r"])
        node = c.create_node_from_uri(W.cap(a, auth))
        held.append(node)
        ops.append("c.%d.%s" % (a, auth))
        writeable = (not node.is_unknown()) and (not node.is_readonly())
        got.append("w" if writeable else "r")
        if writeable and (auth != "w" or mir[a][0] not in ("md", "mf")):
            ctx.violation("create_node_from_uri(%s cap of object %d) returned a writeable node" % ("read" if auth == "r" else "immutable", a),
                          {"scenario": seed, "probe": "cache", "ops": list(ops)}, "readcap-yields-writeable-node")
    if not got:
        return
    lines.append("cache %s %s" % (grid_token(mir), ",".join(ops)))
    impl.append(",".join(got))
    cases.append({"scenario": seed, "kind": "cache", "ops": ops})
    ctx.count("cache-histories")
    ctx.case(("cache", tuple(o.split(".")[-1] for o in ops)))


def repair_probe(ctx, rng, rt, g, web, W, seed):
    from allmydata.storage.shares import get_share_file
    mfs = [i for i, o in enumerate(W.objs) if o["kind"] == "mf"]
    if not mfs:
        return
    a = rng.choice(mfs)
    node = W.objs[a]["node"]
    files = g.share_files(node.get_storage_index())
    if len(files) < 2:
        return
    os.unlink(files[0][2])
    before = snapshot(g)
    url = b"/uri/" + quote(node.get_readonly_uri()).encode() + b"?t=check&repair=true&output=json"
    st, head, body, finished = http(rt, web.site, b"POST", url)
    after = snapshot(g)
    ctx.count("repair-through-readcap:status-%s" % st)
    ctx.case(("repair-ro", st))
    if after != before:
        ctx.violation("check&repair through a read-only cap of a mutable file wrote shares",
                      {"scenario": seed, "probe": "repair", "status": st}, "repair-through-readonly-wrote")


def common_infra(msg):
    import common
    return common.InfraError(msg)


def quiet_twisted_log():
    """errors rendered into HTTP responses are also logged by Twisted; keep them off stderr"""
    from twisted.logger import globalLogBeginner
    try:
        globalLogBeginner.beginLoggingTo([lambda event: None], redirectStandardIO=False, discardBuffer=True)
    except Exception:
        pass


def run(ctx):
    import common
    common.setup_impl_path()
    quiet_twisted_log()
    fixed_model = os.environ.get("C41_MODEL_MODE", "fixed") != "asis"
    if ctx.replay and isinstance(ctx.replay.get("case"), dict) and "scenario" in ctx.replay["case"]:
        plan = [(ctx.replay["case"]["scenario"], 60)]
    else:
        nscen = ctx.budget(8, 150)
        plan = [(ctx.rng.randrange(1 << 30), 60) for _ in range(nscen)]
    all_lines, all_cases, all_impl = [], [], []
    corpus_only = bool(os.environ.get("VERIF_CORPUS_ONLY"))
    is_corpus_replay = bool(ctx.replay and isinstance(ctx.replay.get("case"), dict) and ctx.replay["case"].get("scenario") == 4141)
    if not ctx.replay or is_corpus_replay:
        # fixed corpus first (independent of VERIF_SEED): one request per known mechanism on a fixed tree
        lines, cases, impl = run_scenario(ctx, 4141, 0, fixed_model, script=corpus_script())
        all_lines += lines
        all_cases += cases
        all_impl += impl
    if corpus_only or is_corpus_replay:
        plan = []
        ctx.note("VERIF_CORPUS_ONLY: random families skipped")
    for seed, nreq in plan:
        if len(ctx.violations) >= 50:
            break          # the report is capped at 50 anyway
        lines, cases, impl = run_scenario(ctx, seed, nreq, fixed_model)
        all_lines += lines
        all_cases += cases
        all_impl += impl
    outs = ctx.model(all_lines)
    if outs is not None:
        for case, im, out in zip(all_cases, all_impl, outs):
            if case["kind"] == "unpack":
                canon = ",".join(sorted(out.split(","), key=lambda t: int(t.split(":")[0]))) if out != "-" else "-"
                if canon != im:
                    ctx.disagree("DirectoryNode._unpack_contents: (name, child, write cap or not) per entry for a writeable / read-only view", case, im, canon)
                continue
            if case["kind"] == "cache":
                if out != im:
                    ctx.disagree("NodeMaker.create_from_cap history: writeable / read-only node per lookup", case, im, out)
                continue
            if case["kind"] == "caps":
                model_caps = "-" if out in ("-", "none") else (",".join(sorted(set(
                    x for x in out.split(",") if not x.endswith(".v") and not (case["get"] in ("html", "info") and x == case.get("own"))))) or "-")
                if model_caps != im:
                    ctx.disagree("cap strings shown by the renderer (write/read caps, as a set)", case, im, model_caps)
                continue
            r = case["request"]
            exp = expected_status(out, r["meth"])
            gridtok = out.split(" grid=")[1]
            if " caps=" in out:
                mc = out.split(" caps=")[1].split(" ")[0]
                kinds = [o.split("/")[0] for o in case["line"].split(" ")[2].split(";")]
                norm = set()
                for x in ([] if mc == "-" else mc.split(",")):
                    a, au = x.split(".")
                    if au == "w" and kinds[int(a)] in ("if", "id"):
                        au = "r"          # the strongest cap of an immutable object is its read cap
                    norm.add("%s.%s" % (a, au))
                mcaps = ",".join(sorted(norm)) or "-"
            else:
                mcaps = "n/a"
            want = "%s %r caps=%s" % (exp, canon_from_model(gridtok, case["nold"]), mcaps)
            if want != im:
                ctx.disagree("web request: status class and resulting directory tree", dict(case, model_out=out.split(" ")[0]), im, want)
    if all_cases:
        ctx.sample({k: v for k, v in all_cases[0].items() if k != "line"})
    ctx.note("model table = %s" % ("code as it is now, with the repair 9a727df" if fixed_model else "code before the repair 9a727df (asis)"))


def replay(ctx, replay_obj):
    ctx.replay = replay_obj
    return run(ctx)
