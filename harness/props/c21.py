"""C21 — deep traversal visits every reachable object exactly once (dirnode.py deep_traverse /
_deep_traverse_dirnode / _deep_traverse_dirnode_children, ManifestWalker, deep_stats.DeepStats)."""
ID = "C21"
LEAN_PROPS = "Tahoe.Props.C21"
DRIVER = "C21"
GENERATED = []
SOURCES = ["src/allmydata/dirnode.py", "src/allmydata/deep_stats.py"]
DESIGN_REF = "DESIGN.md §2 C21"
TECHNIQUE = ("Lean 4 theorems over an executable worklist model of deep_traverse on a finite graph: terminates_on_cycles "
             "(decreasing measure), fuel_graph_size_suffices, terminates_with_nested_literal_dirs (potential constructed from "
             "cap-length nesting), visits_all_reachable, visits_only_reachable, at_most_once_per_verifier, "
             "visits_each_object_exactly_once, paths_lead_to_node, stats_count_each_object_once, literal_reported_per_link, "
             "concurrent_traversals_independent; differential correspondence of the exact walker event sequence (add_node / "
             "enter_directory with node and path), of the object counters (deepStats) and of interleaved traversals (multi) "
             "for random directory graphs built on the in-process grid; manifest, deep-stats, deep-check and "
             "check-and-repair results against the model's events and an independent reference walk")
LEVEL_TEXT = ("11 theorems proved in Lean for all graphs (cycles, shared subdirectories, objects linked by write cap and read "
              "cap, repeated literals): the walk terminates, visits every reachable object and nothing else, each object "
              "with a verify cap exactly once, literal/unknown objects once per link, every reported path leads to its node, "
              "the object counters count each object once, and traversals running at the same time do not disturb each "
              "other.  No _partial theorem remains.  The model is tied to dirnode.py by comparing the full event sequence of "
              "recording walkers (alone and three at a time), the object counters, build_manifest()'s order and the "
              "statistics / objects-checked / result paths of deep-stats, deep-check (verify or not) and check-and-repair. "
              "Correspondence/monitor only: the walker classes beyond the object counters (sizes, histogram, check results).")
LEVEL_NOTE = ("Lean kernel + standard axioms; the Deferred chain is an explicit depth-first stack; sorted() is an input "
              "ordering; object identity (verifier) in the driver graph comes from the construction (write cap and read cap of "
              "one object), not from get_verify_cap(); literal files/directories have no verifier and are reported once per "
              "link (as the code says).")
RULE = ("random directory graphs of up to 40 objects (mutable SDMF/MDMF directories with cycles and shared subdirectories, "
        "immutable CHK/LIT directories, CHK/LIT/mutable files, unknown caps; links by write cap or by read cap, the same "
        "object linked both ways; literal files linked twice and an empty literal file) built on the grid; deep_traverse "
        "with a recording walker, build_manifest, start_deep_stats, start_deep_check(verify=False/True) and "
        "start_deep_check_and_repair from a root reached by write cap or read cap — every statistics counter and the size "
        "histogram, count-objects-checked and the set of result paths of each operation are compared with the model's "
        "event sequence and with an independent reference walk; then three more traversals and four list() calls are started "
        "together on the root (and on a second node of the same cap) under a random / fifo / lifo delivery policy, each "
        "of which must give what it gives alone; a case = one traversal; non-trivial = at least "
        "3 objects reachable")
TRUSTED = ["lean/Tahoe/Dir/Traverse.lean is a hand transcription of the traversal (explicit stack for the recursion over dirkids; "
           "several traversals share only the graph)",
           "harness/grid.py; the graph sent to the driver is read back from the real directories (list() of every directory node)"]
ASSUMPTIONS = ["a literal directory nested in a literal directory has a strictly shorter cap string (hypothesis hsize of "
               "terminates_with_nested_literal_dirs; checked on every graph)",
               "children of one object seen through its write cap and through its read cap have the same names and the same child "
               "objects (hypothesis Consistent of visits_all_reachable; checked on every generated graph)",
               "names of one directory are distinct; unknown nodes have no verify cap; every verify cap lies in a finite list "
               "(hypotheses hnames, hunk, hU)",
               "the traversal runs without concurrent *modification* of the directories; cancellation and errors from list() "
               "are not covered"]

import json
import os

import common
from common import hx


def nm(s):
    return s.encode("utf-8").hex() or "-"


# ------------------------------------------------------------------ graph generation (symbolic, replayable)

def gen_graph(rng, nobj):
    """objects: list of dicts {kind, ...}; mutable dirs get their links afterwards (cycles allowed)"""
    objs = []
    n_imm = rng.randrange(0, max(1, nobj // 4))
    # immutable layer first (bottom-up): files, unknown caps, immutable dirs over earlier immutable objects
    for i in range(nobj):
        r = rng.random()
        if i == 0 or r < 0.3:
            objs.append({"kind": "mdir", "mdmf": rng.random() < 0.3, "links": []})
        elif r < 0.42:
            objs.append({"kind": "lit", "data": rng.randrange(0, 50), "empty": rng.random() < 0.2})
        elif r < 0.57:
            objs.append({"kind": "chk", "data": rng.randrange(56, 300), "salt": rng.randrange(1 << 30)})
        elif r < 0.65:
            objs.append({"kind": "mfile", "salt": rng.randrange(1 << 30), "mdmf": rng.random() < 0.5})
        elif r < 0.72:
            objs.append({"kind": "unknown", "cap": "lafs://future_%d" % rng.randrange(1 << 20), "imm": rng.random() < 0.5})
        else:
            cands = [j for j, o in enumerate(objs) if o["kind"] in ("lit", "chk", "idir") or (o["kind"] == "unknown" and o["imm"])]
            k = rng.choice([0, 0, 1, 2, 3]) if cands else 0
            links = []
            for _ in range(k):
                links.append([rng.choice(NAMES), rng.choice(cands)])
            objs.append({"kind": "idir", "links": links, "salt": rng.randrange(1 << 30)})
    mdirs = [i for i, o in enumerate(objs) if o["kind"] == "mdir"]
    for i in mdirs:
        k = rng.choice([0, 1, 2, 3, 4, 6])
        for _ in range(k):
            t = rng.randrange(nobj)
            if rng.random() < 0.35 and mdirs:
                t = rng.choice(mdirs)             # favour cycles / shared subdirectories
            mode = rng.choice(["rw", "rw", "ro"])
            objs[i]["links"].append([rng.choice(NAMES), t, mode])
            if rng.random() < 0.25:
                objs[i]["links"].append([rng.choice(NAMES), t, "ro" if mode == "rw" else "rw"])   # both ways
        if rng.random() < 0.5:
            objs[i]["links"].append([rng.choice(NAMES), rng.choice(mdirs), "ro"])                # a cycle closing through a read cap
    # literal files are not de-duplicated by the walk: make sure most graphs link one literal twice and an empty one
    if rng.random() < 0.8:
        host = rng.choice(mdirs)
        objs.append({"kind": "lit", "data": rng.randrange(1, 40), "empty": False})
        objs.append({"kind": "lit", "data": 0, "empty": True})
        objs[host]["links"] += [["lit-1", len(objs) - 2, "ro"], ["lit-2", len(objs) - 2, "ro"], ["lit-empty", len(objs) - 1, "ro"]]
        objs[0]["links"].append(["lit-again", len(objs) - 2, "ro"])
    return {"objs": objs, "root": [0, rng.choice(["rw", "rw", "ro"])]}


NAMES = ["a", "b", "c", "d", "e", "f", "g", "h", "é", "é", "zz", "A", "B", "10", "9", "ä", "日本", "x y"]

# fixed corpus (runs first, independent of VERIF_SEED): one minimal graph per known mechanism —
#  the same subdirectory linked twice from one directory, by write cap and by read cap, inside a cycle (seeded C21-a:
#  queued twice before it is entered); literal files linked twice and an empty one under deep-check (seeded C21-b);
#  several traversals over CHK/LIT files in one process (seeded C21-c: histogram shared between DeepStats instances)
CORPUS = [
    # a cycle, the same directory linked by write cap and by read cap, literal file linked twice
    {"objs": [{"kind": "mdir", "mdmf": False, "links": [["a", 1, "rw"], ["b", 1, "ro"], ["l1", 2, "ro"], ["l2", 2, "ro"], ["u", 3, "ro"]]},
              {"kind": "mdir", "mdmf": True, "links": [["up", 0, "rw"], ["self", 1, "ro"], ["l", 2, "ro"]]},
              {"kind": "lit", "data": 5}, {"kind": "unknown", "cap": "lafs://x", "imm": False}],
     "root": [0, "rw"]},
    # literal files only: one linked twice, an empty one, a CHK file for contrast
    # MDMF directory and MDMF file, each linked by write cap and by read cap; a cycle that closes through a read cap
    # below a directory entered by read cap (seeded C21-d: write cap and read cap deriving different verify caps)
    {"objs": [{"kind": "mdir", "mdmf": True, "links": [["d-rw", 1, "rw"], ["d-ro", 1, "ro"], ["f-rw", 2, "rw"], ["f-ro", 2, "ro"]]},
              {"kind": "mdir", "mdmf": True, "links": [["up-ro", 0, "ro"], ["f", 2, "ro"], ["self", 1, "ro"], ["s", 3, "rw"]]},
              {"kind": "mfile", "salt": 7, "mdmf": True},
              {"kind": "mdir", "mdmf": False, "links": [["root-ro", 0, "ro"], ["m", 2, "rw"]]}],
     "root": [0, "rw"]},
    {"objs": [{"kind": "mdir", "mdmf": False, "links": [["one", 1, "ro"], ["two", 1, "ro"], ["empty", 2, "ro"], ["big", 3, "ro"],
                                                       ["sub", 4, "rw"]]},
              {"kind": "lit", "data": 9, "empty": False}, {"kind": "lit", "data": 0, "empty": True},
              {"kind": "chk", "data": 120, "salt": 1},
              {"kind": "mdir", "mdmf": False, "links": [["one-again", 1, "ro"], ["empty-again", 2, "ro"]]}],
     "root": [0, "ro"]},
]


# ------------------------------------------------------------------ building on the grid

class Built:
    pass


def build(w, case):
    from allmydata.immutable import upload
    from allmydata.mutable.publish import MutableData
    from allmydata.interfaces import MDMF_VERSION, SDMF_VERSION
    rt, c = w["rt"], w["c"]
    objs = case["objs"]
    caps = {}                   # object index -> {"rw": cap or None, "ro": cap}
    nodes = {}
    for i, o in enumerate(objs):
        k = o["kind"]
        if k == "mdir":
            n = rt.wait(c.create_dirnode(version=MDMF_VERSION if o["mdmf"] else SDMF_VERSION))
            nodes[i] = n
            caps[i] = {"rw": n.get_uri(), "ro": n.get_readonly_uri()}
        elif k == "lit":
            res = rt.wait(c.upload(upload.Data(b"" if o.get("empty") else b"L%d:" % i + b"x" * o["data"], convergence=b"c" * 16)))
            caps[i] = {"rw": None, "ro": res.get_uri()}
        elif k == "chk":
            res = rt.wait(c.upload(upload.Data(b"%d:%d:" % (i, o["salt"]) + b"y" * o["data"], convergence=b"c" * 16)))
            caps[i] = {"rw": None, "ro": res.get_uri()}
        elif k == "mfile":
            n = rt.wait(c.create_mutable_file(MutableData(b"m%d" % o["salt"]),
                                              version=MDMF_VERSION if o.get("mdmf") else SDMF_VERSION))
            caps[i] = {"rw": n.get_uri(), "ro": n.get_readonly_uri()}
        elif k == "unknown":
            cap = o["cap"].encode()
            caps[i] = {"rw": None, "ro": (b"imm." if o["imm"] else b"ro.") + cap}
        elif k == "idir":
            ch = {}
            for (name, t) in o["links"]:
                ch[name] = (c.create_node_from_uri(None, caps[t]["ro"]), {"s": o["salt"]})
            n = rt.wait(c.create_immutable_dirnode(ch))
            caps[i] = {"rw": None, "ro": n.get_uri()}
    for i, o in enumerate(objs):
        if o["kind"] != "mdir":
            continue
        ents = {}
        for (name, t, mode) in o["links"]:
            cp = caps[t]
            if mode == "rw" and cp["rw"] is not None:
                ents[name] = (cp["rw"], cp["ro"])
            else:
                ents[name] = (None, cp["ro"])
        if ents:
            rt.wait(nodes[i].set_children(ents))
    r, mode = case["root"]
    root = c.create_node_from_uri(caps[r]["rw"] if mode == "rw" else None, caps[r]["ro"])
    w["last"] = (caps, nodes)          # for C18, which builds the same graphs
    return root


def read_graph(w, root, cap2obj=None):
    """explore the real structure: node key = get_uri(); -> (ids, infos) for the driver and the monitor"""
    from allmydata.interfaces import IDirectoryNode
    rt = w["rt"]
    ids, infos, order = {}, {}, []

    def key(n):
        return n.get_uri() or b"<opaque>"

    def visit(n):
        k = key(n)
        if k in ids:
            return ids[k]
        ids[k] = len(ids)
        i = ids[k]
        order.append(n)
        if n.is_unknown():
            infos[i] = ("u", None, [], n)
            return i
        v = n.get_verify_cap()
        # the identity of an object that has a verify cap: which object of the construction this cap belongs to (write cap
        # and read cap of one object are one object), NOT what get_verify_cap() says
        vs = None
        if v is not None:
            vs = b"obj%d" % cap2obj[n.get_uri()] if cap2obj and n.get_uri() in cap2obj else v.to_string()
        if IDirectoryNode.providedBy(n):
            infos[i] = ("d", vs, None, n)
            ch = rt.wait(n.list())
            kids = []
            for name in sorted(ch):
                kids.append((name, visit(ch[name][0])))
            infos[i] = ("d", vs, kids, n)
        else:
            infos[i] = ("f", vs, [], n)
        return i
    visit(root)
    return ids, infos


class Recorder:
    """a walker that records what deep_traverse tells it"""

    def __init__(self, ids):
        self.ids = ids
        self.events = []

    def set_monitor(self, m):
        self.monitor = m

    def add_node(self, node, path):
        self.events.append("A%d@%s" % (self.ids.get(node.get_uri() or b"<opaque>", -1), "/".join(nm(p) for p in path) or "-"))

    def enter_directory(self, parent, children):
        self.events.append("E%d" % self.ids.get(parent.get_uri(), -1))

    def finish(self):
        return self.events


def bucket(size):
    """deep_stats.which_bucket: (0,0), (1,3), (4,10), (11,31), (32,100), … two buckets per decade"""
    if size == 0:
        return (0, 0)
    lo, j = 1, 1
    while True:
        up = int(round(10 ** (j / 2.0), 6)) if j % 2 == 0 else int(10 ** (j / 2.0))
        if size <= up:
            return (lo, up)
        lo, j = up + 1, j + 1


def stats_from_events(events, static):
    """DeepStats as a fold over the walker events `A<id>@<path>` / `E<id>` -> (stats, sorted paths of checkable nodes)"""
    st = {k: 0 for k in ["count-immutable-files", "count-mutable-files", "count-literal-files", "count-files",
                         "count-directories", "count-unknown", "size-immutable-files", "size-literal-files",
                         "size-directories", "largest-directory", "largest-directory-children", "largest-immutable-file"]}
    hist, paths = {}, []
    for e in events:
        if e.startswith("E"):
            x = static[int(e[1:])]
            if x["size"] is not None:
                st["size-directories"] += x["size"]
                st["largest-directory"] = max(st["largest-directory"], x["size"])
            st["largest-directory-children"] = max(st["largest-directory-children"], x["nkids"])
            continue
        i, pth = int(e[1:e.index("@")]), e[e.index("@") + 1:]
        x = static[i]
        if x["v"]:
            paths.append(pth)
        if x["kind"] == "u":
            st["count-unknown"] += 1
        elif x["kind"] == "d":
            st["count-directories"] += 1
        elif x["mutable"]:
            st["count-files"] += 1
            st["count-mutable-files"] += 1
        else:
            st["count-files"] += 1
            b = bucket(x["size"])
            hist[b] = hist.get(b, 0) + 1
            if not x["v"]:
                st["count-literal-files"] += 1
                st["size-literal-files"] += x["size"]
            else:
                st["count-immutable-files"] += 1
                st["size-immutable-files"] += x["size"]
                st["largest-immutable-file"] = max(st["largest-immutable-file"], x["size"])
    st["size-files-histogram"] = sorted((lo, up, n) for (lo, up), n in hist.items())
    return st, sorted(paths)


def one_case(ctx, w, case, lines, impls, cases):
    from allmydata.interfaces import IDirectoryNode
    rt = w["rt"]
    root = build(w, case)
    caps_built, _ = w["last"]
    cap2obj = {}
    for oi, cp in caps_built.items():
        for cc in (cp["rw"], cp["ro"]):
            if cc is not None:
                cap2obj[cc] = oi
    ids, infos = read_graph(w, root, cap2obj)
    # consistency assumption: same verifier => same kind, same names, same child verifiers
    byv = {}
    for i, (k, v, kids, n) in infos.items():
        if v is not None:
            sig = (k, tuple((name, infos[c][1] if infos[c][1] is not None else ("lit", infos[c][3].get_uri())) for name, c in kids))
            if byv.setdefault(v, sig) != sig:
                ctx.disagree("the same object shows different children through two caps", case, repr(sig), repr(byv[v]))
    # assumption of `terminates_with_nested_literal_dirs`: a literal directory inside a literal directory has a shorter cap
    for i, (k, v, kids, n) in infos.items():
        if k == "d" and v is None:
            for name, c in kids:
                if infos[c][0] == "d" and infos[c][1] is None and not len(infos[c][3].get_uri()) < len(n.get_uri()):
                    ctx.disagree("a literal directory contains a literal directory whose cap is not shorter", case,
                                 [len(infos[c][3].get_uri()), len(n.get_uri())], None)
                ctx.count("literal-dir-links")
    node_s = ";".join("%d:%s:%s:%s" % (i, k, hx(v) if v else "-", ",".join("%s>%d" % (nm(name), c) for name, c in kids) or "-")
                      for i, (k, v, kids, n) in sorted(infos.items()))
    fuel = len(infos) * 4 + 8
    lines.append("trav 0 %d %s" % (fuel, node_s))
    trav_line = len(lines) - 1
    rec = Recorder(ids)
    mon = root.deep_traverse(rec)
    events = rt.wait(mon.when_done())
    cases.append(case)
    # ---- build_manifest / deep-stats
    res = rt.wait(root.build_manifest().when_done())
    manifest = res["manifest"]
    stats = rt.wait(root.start_deep_stats().when_done())
    impls.append(",".join(events) + " done %d,%d,%d,%d" % (stats["count-directories"], stats["count-files"],
                                                          stats["count-literal-files"], stats["count-unknown"]))
    man_events = ["A%d@%s" % (ids.get(cap or b"<opaque>", -1), "/".join(nm(p) for p in path) or "-") for (path, cap) in manifest]
    if man_events != [e for e in events if e.startswith("A")]:
        ctx.disagree("build_manifest order differs from the recording walker's add_node order", case, man_events[:10], events[:10])
    # ---- deep-check (verify or not) and deep-check-and-repair: their embedded statistics, counters and result paths
    opstats = {"manifest": res["stats"], "deep-stats": stats}
    checked = {}
    ops = [("deep-check", lambda: root.start_deep_check(verify=False)),
           ("check-and-repair", lambda: root.start_deep_check_and_repair(verify=False))]
    if w["n"] % 3 == 0 or len(infos) <= 8:
        ops.append(("deep-check-verify", lambda: root.start_deep_check(verify=True)))
    w["n"] += 1
    for opname, start in ops:
        try:
            r = rt.wait(start().when_done())
        except Exception as e:  # noqa
            ctx.disagree("%s raised" % opname, case, "%s: %s" % (type(e).__name__, e), None)
            continue
        opstats[opname] = r.get_stats()
        checked[opname] = (r.get_counters(), sorted("/".join(nm(p) for p in path) or "-" for path in r.get_all_results()))
    static = {i: {"kind": k, "v": v is not None, "mutable": (k == "f" and n.is_mutable()),
                  "size": (None if k == "u" else n.get_size()), "nkids": len(kids or [])}
              for i, (k, v, kids, n) in infos.items()}
    w["post"].append((trav_line, case, static, opstats, checked))
    # ---- monitor, from the statement
    V = lambda what, sig, detail=None: ctx.violation(what, case, sig, detail)
    # ---- several traversals started together on one node / on two nodes of the same cap from the same nodemaker, and
    #      plain concurrent list() calls: each of them must satisfy the statement on its own, i.e. give what the
    #      traversal alone gave
    policy0 = rt.policy
    rt.policy = ["random", "fifo", "lifo"][w["n"] % 3]
    try:
        root_b = w["c"].create_node_from_uri(root.get_write_uri(), root.get_readonly_uri())
        started = [("manifest", root.build_manifest()), ("deep-stats", root.start_deep_stats()),
                   ("manifest-2nd-node", root_b.build_manifest()), ("manifest-again", root.build_manifest())]
        for opname, mon_ in started:
            try:
                r_ = rt.wait(mon_.when_done())
            except Exception as e:  # noqa
                V("a traversal started together with others failed: %s" % type(e).__name__,
                  "concurrent-traversal-incomplete", {"op": opname, "policy": rt.policy, "error": repr(e)[:200]})
                continue
            got_manifest = r_["manifest"] if opname.startswith("manifest") else None
            got_stats = r_["stats"] if opname.startswith("manifest") else r_
            if (got_manifest is not None and got_manifest != manifest) or \
                    {k: got_stats.get(k) for k in ("count-files", "count-directories", "count-literal-files", "count-unknown")} != \
                    {k: stats.get(k) for k in ("count-files", "count-directories", "count-literal-files", "count-unknown")}:
                V("a traversal started together with others does not visit what it visits alone",
                  "concurrent-traversal-incomplete", {"op": opname, "policy": rt.policy,
                                                      "visited": None if got_manifest is None else len(got_manifest),
                                                      "alone": len(manifest)})
        # recording walkers running at the same time, against the model's interleaved traversals (`multiRun`)
        recs = [Recorder(ids), Recorder(ids), Recorder(ids)]
        mons = [root.deep_traverse(recs[0]), root_b.deep_traverse(recs[1]), root.deep_traverse(recs[2])]
        outs = []
        for rec_, mon_ in zip(recs, mons):
            try:
                outs.append(",".join(rt.wait(mon_.when_done())) + " done")
            except Exception as e:  # noqa
                outs.append("failed:" + type(e).__name__)
        sched = ",".join(str(j) for _ in range(fuel) for j in (0, 1, 1, 2, 0))
        lines.append("multi 0,0,0 %s %s" % (sched, node_s))
        impls.append("|".join(outs))
        cases.append(case)
        alone = sorted(rt.wait(root.list()))
        ds = [root.list(), root.list(), root_b.list(), root.list()]
        for j, d_ in enumerate(ds):
            try:
                got_ = rt.wait(d_)
                if got_ is None or sorted(got_) != alone:
                    V("one of several concurrent list() calls did not return the children", "concurrent-list-incomplete",
                      {"call": j, "policy": rt.policy})
            except Exception as e:  # noqa
                V("one of several concurrent list() calls failed: %s" % type(e).__name__, "concurrent-list-incomplete",
                  {"call": j, "policy": rt.policy})
        ctx.count("concurrent-traversals:" + rt.policy)
    finally:
        rt.policy = policy0
    # reachable objects by my own search over the links that exist (identity: verifier, else the cap per link)
    reach, todo = set(), [0]
    while todo:
        i = todo.pop()
        if i in reach:
            continue
        reach.add(i)
        for _, c in infos[i][2] or []:
            todo.append(c)
    seen_v = {}
    dir_entries = []
    for (path, cap) in manifest:
        i = ids.get(cap or b"<opaque>")
        if i is None:
            V("the manifest reports a cap that is not in the graph", "manifest-foreign-cap")
            continue
        k, v, kids, n = infos[i]
        if v is not None:
            seen_v[v] = seen_v.get(v, 0) + 1
        if k == "d":
            dir_entries.append(i)
    for v, cnt in seen_v.items():
        if cnt != 1:
            label = "object"
            if v.startswith(b"obj"):
                o = case["objs"][int(v[3:])]
                label = ("mdmf" if o.get("mdmf") else "sdmf") if o["kind"] in ("mdir", "mfile") else o["kind"]
                cp = caps_built[int(v[3:])]
                used = {cap for (_, cap) in manifest if cap in (cp["rw"], cp["ro"])}
                label += "-rw-and-ro-link" if len(used) > 1 else "-same-cap"
            V("an object is reported %d times" % cnt, "visited-twice:" + label,
              {"paths": [list(pth) for (pth, cap) in manifest if cap2obj.get(cap) is not None and b"obj%d" % cap2obj[cap] == v]})
    for i in reach:
        k, v, kids, n = infos[i]
        if v is not None and v not in seen_v:
            V("a reachable object is missing from the manifest", "reachable-not-visited:" + k)
    # literals / unknown: once per link from a visited directory
    want_links = {}
    for d in dir_entries:
        for name, c in infos[d][2]:
            if infos[c][1] is None:
                want_links[c] = want_links.get(c, 0) + 1
    got_links = {}
    for (path, cap) in manifest:
        i = ids.get(cap or b"<opaque>")
        if i is not None and infos[i][1] is None and path:
            got_links[i] = got_links.get(i, 0) + 1
    if got_links != want_links:
        V("literal / unknown children are not reported once per link of a visited directory", "literal-per-link",
          {"got": got_links, "want": want_links})
    # statistics and deep-check results against the reference walk: every object with a verify cap counted once,
    # literal / unknown children once per link of a visited directory
    distinct = lambda pred: len({infos[i][1] for i in reach if infos[i][1] is not None and pred(infos[i])})
    links = lambda pred: sum(cnt for c, cnt in want_links.items() if pred(infos[c]))
    ref = {
        "count-immutable-files": distinct(lambda x: x[0] == "f" and not x[3].is_mutable()),
        "count-mutable-files": distinct(lambda x: x[0] == "f" and x[3].is_mutable()),
        "count-literal-files": links(lambda x: x[0] == "f"),
        "count-unknown": links(lambda x: x[0] == "u"),
        "count-directories": distinct(lambda x: x[0] == "d") + links(lambda x: x[0] == "d") + (1 if infos[0][1] is None else 0),
        "size-literal-files": sum(cnt * infos[c][3].get_size() for c, cnt in want_links.items() if infos[c][0] == "f"),
    }
    ref["count-files"] = ref["count-immutable-files"] + ref["count-mutable-files"] + ref["count-literal-files"]
    n_hist_ref = ref["count-immutable-files"] + ref["count-literal-files"]
    for opname, st in opstats.items():
        for k, want in ref.items():
            if st.get(k) != want:
                V("%s: statistic %s is %r, the reference walk gives %r" % (opname, k, st.get(k), want),
                  "stats:%s:%s" % (k, "deep-check" if opname != "manifest" and opname != "deep-stats" else opname))
        nh = sum(x[2] for x in st.get("size-files-histogram", []))
        if nh != n_hist_ref:
            V("%s: the size histogram holds %d files, the reference walk %d" % (opname, nh, n_hist_ref),
              "stats:size-files-histogram:%s" % ("deep-check" if opname not in ("manifest", "deep-stats") else opname))
    n_checkable = distinct(lambda x: True)
    kidmap = {i: dict(x[2] or []) for i, x in infos.items()}
    for opname, (counters, paths) in checked.items():
        if counters["count-objects-checked"] != n_checkable or len(paths) != n_checkable:
            V("%s checked %d objects (%d result paths), %d distinct objects with a verify cap are reachable"
              % (opname, counters["count-objects-checked"], len(paths), n_checkable), "objects-checked:" + opname)
        got_v = set()
        for pth in paths:
            i = 0
            for hexname in ([] if pth == "-" else pth.split("/")):
                i = kidmap[i].get(bytes.fromhex(hexname).decode("utf-8") if hexname != "-" else "", None) if i is not None else None
            if i is None or infos[i][1] is None:
                V("%s: a result path does not lead to an object with a verify cap" % opname, "check-path-wrong:" + opname)
            else:
                got_v.add(infos[i][1])
        if len(got_v) != len(paths):
            V("%s: two result paths lead to the same object" % opname, "checked-twice:" + opname)
    # every reported path leads to the reported node
    for (path, cap) in manifest[: 60]:
        n = rt.wait(root.get_child_at_path(list(path)))
        if n.get_uri() != cap:
            V("a reported path does not lead to the reported node", "path-wrong-node", {"path": list(path)})
    ctx.case(("graph", len(infos), len(manifest), len(seen_v)) if len(reach) >= 3 else None)
    ctx.count("objects:%d" % (len(case["objs"]) // 10 * 10))
    ctx.count("cyclic" if any(e.startswith("A") for e in events) and len(manifest) < sum(1 for _ in events) else "x")
    for k, v, kids, n in infos.values():
        ctx.count("node:" + k + ("-lit" if v is None and k != "u" else ""))


def run(ctx):
    common.setup_impl_path()
    import grid
    if ctx.replay:
        cases_in = [ctx.replay["case"]]
    else:
        cases_in = [json.loads(json.dumps(c)) for c in CORPUS]
        sizes = [3, 6, 10, 16, 25, 40]
        for i in range(0 if os.environ.get("VERIF_CORPUS_ONLY") == "1" else ctx.budget(18, 250)):
            cases_in.append(gen_graph(ctx.rng, ctx.rng.choice(sizes)))
    lines, impls, cases = [], [], []
    with grid.Runtime(seed=ctx.seed, policy="random") as rt:
        g = grid.Grid(grid.fresh_dir("c21"), rt, num_servers=3, num_clients=1, k=1, happy=1, n=2)
        try:
            w = {"rt": rt, "c": g.clients[0], "post": [], "n": 0}
            for case in cases_in:
                one_case(ctx, w, case, lines, impls, cases)
        finally:
            g.close()
    model = ctx.model(lines)
    if model is not None:
        ctx.compare("deep_traverse event sequence (add_node / enter_directory, node, path)", cases, impls, model)
        # statistics, objects-checked and result paths of every operation against the model's event sequence
        for (trav_line, case, static, opstats, checked) in w["post"]:
            mout = model[trav_line]
            want_stats, want_paths = stats_from_events(mout.split(" ")[0].split(","), static)
            for opname, st in opstats.items():
                got = {k: (sorted(tuple(x) for x in v) if k == "size-files-histogram" else v) for k, v in st.items() if k in want_stats}
                if got != want_stats:
                    diff = {k: (got.get(k), want_stats[k]) for k in want_stats if got.get(k) != want_stats[k]}
                    ctx.disagree("%s: statistics differ from those of the model's event sequence" % opname, case,
                                 {k: v[0] for k, v in diff.items()}, {k: v[1] for k, v in diff.items()})
            for opname, (counters, paths) in checked.items():
                if counters["count-objects-checked"] != len(want_paths) or paths != want_paths:
                    ctx.disagree("%s: objects checked / result paths differ from the model's event sequence" % opname, case,
                                 [counters["count-objects-checked"], paths[:8]], [len(want_paths), want_paths[:8]])
                bad = {k: v for k, v in counters.items() if ("unhealthy" in k or "unrecoverable" in k or "corrupt" in k
                                                              or "repairs" in k) and v}
                if bad:
                    ctx.disagree("%s reports damage on a healthy grid" % opname, case, bad, None)
    if cases:
        ctx.sample({"objects": len(cases[-1]["objs"]), "impl": impls[-1][:300]})
