"""C21 — deep traversal visits every reachable object exactly once (dirnode.py deep_traverse /
_deep_traverse_dirnode / _deep_traverse_dirnode_children, ManifestWalker, deep_stats.DeepStats)."""
ID = "C21"
LEAN_PROPS = "Tahoe.Props.C21"
DRIVER = "C21"
GENERATED = []
SOURCES = ["src/allmydata/dirnode.py", "src/allmydata/deep_stats.py"]
DESIGN_REF = "DESIGN.md §2 C21"
TECHNIQUE = ("Lean 4 theorems over an executable worklist model of deep_traverse on a finite graph (found-set invariant, "
             "path invariant, termination measure); differential correspondence of the exact walker event sequence "
             "(add_node / enter_directory with node and path) and of the manifest and deep-stats counters for random "
             "directory graphs built on the in-process grid; implementation-side monitor on the manifest")
LEVEL_TEXT = ("at-most-once-per-verifier, paths-lead-to-node and closure/termination theorems proved in Lean for all graphs "
              "(see the _partial notes); the model is tied to dirnode.py by comparing the full event sequence of a recording "
              "walker, build_manifest()'s manifest order and start_deep_stats()'s counters.")
LEVEL_NOTE = ("Lean kernel + standard axioms; Deferred chain modelled as an explicit depth-first stack; sorted() is an input "
              "ordering; literal files/directories have no verifier and are reported once per link (as the code says).")
RULE = ("random directory graphs of up to 40 objects (mutable SDMF/MDMF directories with cycles and shared subdirectories, "
        "immutable CHK/LIT directories, CHK/LIT/mutable files, unknown caps; links by write cap or by read cap, the same "
        "object linked both ways) built on the grid; deep_traverse with a recording walker, build_manifest, "
        "start_deep_stats from a root reached by write cap or read cap; a case = one traversal; non-trivial = at least "
        "3 objects reachable")
TRUSTED = ["lean/Tahoe/Dir/Traverse.lean is a hand transcription of the traversal (explicit stack for the recursion over dirkids)",
           "harness/grid.py; the graph sent to the driver is read back from the real directories (list() of every directory node)"]
ASSUMPTIONS = ["children of one object seen through its write cap and through its read cap have the same names and verifiers "
               "(checked on every generated graph)",
               "the traversal runs without concurrent modification of the directories"]

import json

import common
from common import hx


def nm(s):
    return s.encode("utf-8").hex() or "-"


# ------------------------------------------------------------------ graph generation (symbolic, replayable)

def gen_graph(rng, nobj):
    """objects: list of dicts {kind, ...}; mutable dirs get their links afterwards (cycles allowed)"""
    objs = []
    n_imm = rng.randrange(0, max(1, nobj // 4))
    # immutable layer first (bottom-up): files, unknown caps, immutable dirs over earlier immutable objects
    for i in range(nobj):
        r = rng.random()
        if i == 0 or r < 0.3:
            objs.append({"kind": "mdir", "mdmf": rng.random() < 0.3, "links": []})
        elif r < 0.42:
            objs.append({"kind": "lit", "data": rng.randrange(0, 50)})
        elif r < 0.57:
            objs.append({"kind": "chk", "data": rng.randrange(56, 300), "salt": rng.randrange(1 << 30)})
        elif r < 0.65:
            objs.append({"kind": "mfile", "salt": rng.randrange(1 << 30)})
        elif r < 0.72:
            objs.append({"kind": "unknown", "cap": "lafs://future_%d" % rng.randrange(1 << 20), "imm": rng.random() < 0.5})
        else:
            cands = [j for j, o in enumerate(objs) if o["kind"] in ("lit", "chk", "idir") or (o["kind"] == "unknown" and o["imm"])]
            k = rng.choice([0, 0, 1, 2, 3]) if cands else 0
            links = []
            for _ in range(k):
                links.append([rng.choice(NAMES), rng.choice(cands)])
            objs.append({"kind": "idir", "links": links, "salt": rng.randrange(1 << 30)})
    mdirs = [i for i, o in enumerate(objs) if o["kind"] == "mdir"]
    for i in mdirs:
        k = rng.choice([0, 1, 2, 3, 4, 6])
        for _ in range(k):
            t = rng.randrange(nobj)
            if rng.random() < 0.35 and mdirs:
                t = rng.choice(mdirs)             # favour cycles / shared subdirectories
            mode = rng.choice(["rw", "rw", "ro"])
            objs[i]["links"].append([rng.choice(NAMES), t, mode])
            if rng.random() < 0.15:
                objs[i]["links"].append([rng.choice(NAMES), t, "ro" if mode == "rw" else "rw"])   # both ways
    return {"objs": objs, "root": [0, rng.choice(["rw", "rw", "ro"])]}


NAMES = ["a", "b", "c", "d", "e", "f", "g", "h", "é", "é", "zz", "A", "B", "10", "9", "ä", "日本", "x y"]

CORPUS = [
    # a cycle, the same directory linked by write cap and by read cap, literal file linked twice
    {"objs": [{"kind": "mdir", "mdmf": False, "links": [["a", 1, "rw"], ["b", 1, "ro"], ["l1", 2, "ro"], ["l2", 2, "ro"], ["u", 3, "ro"]]},
              {"kind": "mdir", "mdmf": True, "links": [["up", 0, "rw"], ["self", 1, "ro"], ["l", 2, "ro"]]},
              {"kind": "lit", "data": 5}, {"kind": "unknown", "cap": "lafs://x", "imm": False}],
     "root": [0, "rw"]},
]


# ------------------------------------------------------------------ building on the grid

class Built:
    pass


def build(w, case):
    from allmydata.immutable import upload
    from allmydata.mutable.publish import MutableData
    from allmydata.interfaces import MDMF_VERSION, SDMF_VERSION
    rt, c = w["rt"], w["c"]
    objs = case["objs"]
    caps = {}                   # object index -> {"rw": cap or None, "ro": cap}
    nodes = {}
    for i, o in enumerate(objs):
        k = o["kind"]
        if k == "mdir":
            n = rt.wait(c.create_dirnode(version=MDMF_VERSION if o["mdmf"] else SDMF_VERSION))
            nodes[i] = n
            caps[i] = {"rw": n.get_uri(), "ro": n.get_readonly_uri()}
        elif k == "lit":
            res = rt.wait(c.upload(upload.Data(b"L%d:" % i + b"x" * o["data"], convergence=b"c" * 16)))
            caps[i] = {"rw": None, "ro": res.get_uri()}
        elif k == "chk":
            res = rt.wait(c.upload(upload.Data(b"%d:%d:" % (i, o["salt"]) + b"y" * o["data"], convergence=b"c" * 16)))
            caps[i] = {"rw": None, "ro": res.get_uri()}
        elif k == "mfile":
            n = rt.wait(c.create_mutable_file(MutableData(b"m%d" % o["salt"])))
            caps[i] = {"rw": n.get_uri(), "ro": n.get_readonly_uri()}
        elif k == "unknown":
            cap = o["cap"].encode()
            caps[i] = {"rw": None, "ro": (b"imm." if o["imm"] else b"ro.") + cap}
        elif k == "idir":
            ch = {}
            for (name, t) in o["links"]:
                ch[name] = (c.create_node_from_uri(None, caps[t]["ro"]), {"s": o["salt"]})
            n = rt.wait(c.create_immutable_dirnode(ch))
            caps[i] = {"rw": None, "ro": n.get_uri()}
    for i, o in enumerate(objs):
        if o["kind"] != "mdir":
            continue
        ents = {}
        for (name, t, mode) in o["links"]:
            cp = caps[t]
            if mode == "rw" and cp["rw"] is not None:
                ents[name] = (cp["rw"], cp["ro"])
            else:
                ents[name] = (None, cp["ro"])
        if ents:
            rt.wait(nodes[i].set_children(ents))
    r, mode = case["root"]
    root = c.create_node_from_uri(caps[r]["rw"] if mode == "rw" else None, caps[r]["ro"])
    w["last"] = (caps, nodes)          # for C18, which builds the same graphs
    return root


def read_graph(w, root):
    """explore the real structure: node key = get_uri(); -> (ids, infos) for the driver and the monitor"""
    from allmydata.interfaces import IDirectoryNode
    rt = w["rt"]
    ids, infos, order = {}, {}, []

    def key(n):
        return n.get_uri() or b"<opaque>"

    def visit(n):
        k = key(n)
        if k in ids:
            return ids[k]
        ids[k] = len(ids)
        i = ids[k]
        order.append(n)
        if n.is_unknown():
            infos[i] = ("u", None, [], n)
            return i
        v = n.get_verify_cap()
        vs = v.to_string() if v is not None else None
        if IDirectoryNode.providedBy(n):
            infos[i] = ("d", vs, None, n)
            ch = rt.wait(n.list())
            kids = []
            for name in sorted(ch):
                kids.append((name, visit(ch[name][0])))
            infos[i] = ("d", vs, kids, n)
        else:
            infos[i] = ("f", vs, [], n)
        return i
    visit(root)
    return ids, infos


class Recorder:
    """a walker that records what deep_traverse tells it"""

    def __init__(self, ids):
        self.ids = ids
        self.events = []

    def set_monitor(self, m):
        self.monitor = m

    def add_node(self, node, path):
        self.events.append("A%d@%s" % (self.ids.get(node.get_uri() or b"<opaque>", -1), "/".join(nm(p) for p in path) or "-"))

    def enter_directory(self, parent, children):
        self.events.append("E%d" % self.ids.get(parent.get_uri(), -1))

    def finish(self):
        return self.events


def one_case(ctx, w, case, lines, impls, cases):
    from allmydata.interfaces import IDirectoryNode
    rt = w["rt"]
    root = build(w, case)
    ids, infos = read_graph(w, root)
    # consistency assumption: same verifier => same kind, same names, same child verifiers
    byv = {}
    for i, (k, v, kids, n) in infos.items():
        if v is not None:
            sig = (k, tuple((name, infos[c][1] if infos[c][1] is not None else ("lit", infos[c][3].get_uri())) for name, c in kids))
            if byv.setdefault(v, sig) != sig:
                ctx.disagree("the same object shows different children through two caps", case, repr(sig), repr(byv[v]))
    node_s = ";".join("%d:%s:%s:%s" % (i, k, hx(v) if v else "-", ",".join("%s>%d" % (nm(name), c) for name, c in kids) or "-")
                      for i, (k, v, kids, n) in sorted(infos.items()))
    fuel = len(infos) * 4 + 8
    lines.append("trav 0 %d %s" % (fuel, node_s))
    rec = Recorder(ids)
    mon = root.deep_traverse(rec)
    events = rt.wait(mon.when_done())
    impls.append(",".join(events) + " done")
    cases.append(case)
    # ---- build_manifest / deep-stats
    res = rt.wait(root.build_manifest().when_done())
    manifest = res["manifest"]
    stats = rt.wait(root.start_deep_stats().when_done())
    man_events = ["A%d@%s" % (ids.get(cap or b"<opaque>", -1), "/".join(nm(p) for p in path) or "-") for (path, cap) in manifest]
    if man_events != [e for e in events if e.startswith("A")]:
        ctx.disagree("build_manifest order differs from the recording walker's add_node order", case, man_events[:10], events[:10])
    counts = {"count-directories": 0, "count-unknown": 0, "count-literal-files": 0, "count-immutable-files": 0,
              "count-mutable-files": 0, "count-files": 0}
    for e in events:
        if e.startswith("A"):
            i = int(e[1:e.index("@")])
            k, v, kids, n = infos[i]
            if k == "u":
                counts["count-unknown"] += 1
            elif k == "d":
                counts["count-directories"] += 1
            else:
                counts["count-files"] += 1
                if n.is_mutable():
                    counts["count-mutable-files"] += 1
                elif v is None:
                    counts["count-literal-files"] += 1
                else:
                    counts["count-immutable-files"] += 1
    got = {k: stats[k] for k in counts}
    if got != counts or {k: res["stats"][k] for k in counts} != counts:
        ctx.disagree("deep-stats counters differ from the event sequence", case, got, counts)
    # ---- monitor, from the statement
    V = lambda what, sig, detail=None: ctx.violation(what, case, sig, detail)
    # reachable objects by my own search over the links that exist (identity: verifier, else the cap per link)
    reach, todo = set(), [0]
    while todo:
        i = todo.pop()
        if i in reach:
            continue
        reach.add(i)
        for _, c in infos[i][2] or []:
            todo.append(c)
    seen_v = {}
    dir_entries = []
    for (path, cap) in manifest:
        i = ids.get(cap or b"<opaque>")
        if i is None:
            V("the manifest reports a cap that is not in the graph", "manifest-foreign-cap")
            continue
        k, v, kids, n = infos[i]
        if v is not None:
            seen_v[v] = seen_v.get(v, 0) + 1
        if k == "d":
            dir_entries.append(i)
    for v, cnt in seen_v.items():
        if cnt != 1:
            V("an object (verify cap) is reported %d times" % cnt, "visited-twice")
    for i in reach:
        k, v, kids, n = infos[i]
        if v is not None and v not in seen_v:
            V("a reachable object is missing from the manifest", "reachable-not-visited:" + k)
    # literals / unknown: once per link from a visited directory
    want_links = {}
    for d in dir_entries:
        for name, c in infos[d][2]:
            if infos[c][1] is None:
                want_links[c] = want_links.get(c, 0) + 1
    got_links = {}
    for (path, cap) in manifest:
        i = ids.get(cap or b"<opaque>")
        if i is not None and infos[i][1] is None and path:
            got_links[i] = got_links.get(i, 0) + 1
    if got_links != want_links:
        V("literal / unknown children are not reported once per link of a visited directory", "literal-per-link",
          {"got": got_links, "want": want_links})
    # every reported path leads to the reported node
    for (path, cap) in manifest[: 60]:
        n = rt.wait(root.get_child_at_path(list(path)))
        if n.get_uri() != cap:
            V("a reported path does not lead to the reported node", "path-wrong-node", {"path": list(path)})
    ctx.case(("graph", len(infos), len(manifest), len(seen_v)) if len(reach) >= 3 else None)
    ctx.count("objects:%d" % (len(case["objs"]) // 10 * 10))
    ctx.count("cyclic" if any(e.startswith("A") for e in events) and len(manifest) < sum(1 for _ in events) else "x")
    for k, v, kids, n in infos.values():
        ctx.count("node:" + k + ("-lit" if v is None and k != "u" else ""))


def run(ctx):
    common.setup_impl_path()
    import grid
    if ctx.replay:
        cases_in = [ctx.replay["case"]]
    else:
        cases_in = [json.loads(json.dumps(c)) for c in CORPUS]
        sizes = [3, 6, 10, 16, 25, 40]
        for i in range(ctx.budget(45, 400)):
            cases_in.append(gen_graph(ctx.rng, ctx.rng.choice(sizes)))
    lines, impls, cases = [], [], []
    with grid.Runtime(seed=ctx.seed, policy="random") as rt:
        g = grid.Grid(grid.fresh_dir("c21"), rt, num_servers=3, num_clients=1, k=1, happy=1, n=2)
        try:
            w = {"rt": rt, "c": g.clients[0]}
            for case in cases_in:
                one_case(ctx, w, case, lines, impls, cases)
        finally:
            g.close()
    model = ctx.model(lines)
    if model is not None:
        ctx.compare("deep_traverse event sequence (add_node / enter_directory, node, path)", cases, impls, model)
    if cases:
        ctx.sample({"objects": len(cases[-1]["objs"]), "impl": impls[-1][:300]})
