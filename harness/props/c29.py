"""C29 — share containers survive a server crash (immutable containers)."""
import contextlib
import os
import shutil

import props.imm_util as U
from common import hx

ID = "C29"
LEAN_PROPS = "Tahoe.Props.C29"
DRIVER = "C29"
GENERATED = ["storage"]
SOURCES = ["src/allmydata/storage/immutable.py", "src/allmydata/storage/server.py", "src/allmydata/util/fileutil.py"]
DESIGN_REF = "DESIGN.md §2 C29"
TECHNIQUE = ("Lean 4 theorems over every crash prefix (and every torn write) of the primitive file operations of each immutable "
             "storage operation (FsOp model: create/pwrite/truncate/rename/unlink/mkdir/rmdir in program order; restart = "
             "_clean_incomplete + reopening); a fault-injecting file layer (patched open / os.rename / os.remove / os.rmdir / "
             "os.makedirs) records the primitive operations of the real code, kills it at every index and inside every write "
             "(torn after 1 byte and after half of the bytes), restarts a fresh StorageServer on the directory and compares the "
             "surviving container bytes with the model, while a monitor evaluates the statement on the restarted server")
LEVEL_TEXT = ("Proved for all states, operations and crash indexes: other_shares_untouched (+ _seq for whole server operations, "
              "+ _torn), immutable_absent_or_complete (+ _torn; rename is the commit point), incoming_discarded_at_restart and "
              "restart_discards_uploads (server level: no writer, handle, reservation survives). lease_ops_preserve_data is "
              "REFUTED for immutable add_lease (lease_ops_preserve_data_counterexample, torn_add_lease_counterexample; reproduced "
              "on the real code: the one open known finding) and proved at every other crash index "
              "(lease_ops_preserve_data_partial, every_crash_prefix_absent_or_complete_partial; these two stay _partial because "
              "the defect is genuine and format-level). For mutable add_lease (extra-lease append) "
              "mutable_add_extra_lease_crash_effect proves the share data unchanged at every crash index (the leases of the "
              "operated-on share being unreadable at index 1 is recorded as an observation, not a C29 clause).")
LEVEL_NOTE = ("Lean kernel + standard axioms; primitive-operation lists hand-written and compared with the recorded trace of the "
              "real code on every case (correspondence only, by nature); rename/unlink/mkdir are atomic, a write may be torn; "
              "durability (fsync) is not modelled; of the mutable containers only the add_lease extra-lease append is covered "
              "(growth, truncation, deletion belong to C23-C25).")
RULE = ("fixed corpus (one case per known mechanism: seeds C29-a..d, renewals on shares with 1/2/3 leases via renew_lease / "
        "add_lease / repeated allocate_buckets, mutable add_lease probe with 4/5/7 leases) then seeded histories (2-12 ops) "
        "followed by one storage operation under test (allocate_buckets, write, close, abort, add_lease, renew_lease); the "
        "operation is re-run killing the process model at every primitive file operation index and inside every write, then a "
        "fresh StorageServer is started on the directory; VERIF_CORPUS_ONLY=1 runs the fixed corpus only; a case is one "
        "(history, operation, crash index[, torn length]); non-trivial = crash index strictly inside the operation or a torn write")
TRUSTED = ["lean/Tahoe/Storage/Crash.lean: hand transcription of the program order of file operations in storage/immutable.py / server.py "
           "(compared with the recorded trace on every case)",
           "the fault-injecting file layer in harness/props/c29.py (unbuffered pread/pwrite file object replacing open() in "
           "allmydata.storage.immutable / mutable; os.rename/remove/unlink/rmdir/makedirs wrappers; torn writes = a prefix is written)",
           "harness/shims/collections_extended (RangeMap stand-in)",
           "lease records are serialised by the real HashedLeaseSerializer and passed to the model as opaque bytes"]
ASSUMPTIONS = ["rename() / unlink() / mkdir are atomic; a write may be torn (a prefix of its bytes reaches the file); a crash "
               "otherwise happens between primitive operations",
               "everything written before the crash is durable (no fsync / page-cache modelling)",
               "Python-level buffering does not reorder writes (the real code seeks between the two writes of add_lease, which "
               "flushes the first)",
               "single-threaded server; no other process modifies the storage directory"]

SIG_TORN = "c29-imm-add-lease-crash-between-record-and-count"


class Crash(BaseException):
    pass


class FaultLayer:
    """Counts primitive file operations under `root`; raises Crash instead of performing operation
    number `kill_at` (and every later one)."""

    def __init__(self, root, names, kill_at=None, torn=None):
        self.torn = torn            # with kill_at: the write at that index is torn after `torn` bytes
        self.root = os.path.abspath(root)
        self.names = names          # si dir name -> si number
        self.kill_at = kill_at
        self.trace = []
        self.dead = False

    def name(self, path):
        rel = os.path.relpath(os.path.abspath(path), os.path.join(self.root, "shares"))
        parts = rel.split(os.sep)
        inc = parts[0] == "incoming"
        if inc:
            parts = parts[1:]
        # parts = [prefix] | [prefix, si] | [prefix, si, shnum]
        if len(parts) == 1:
            return "IP" if inc else "FP"   # several SIs may share a prefix directory
        si = self.names.get(parts[1], -1)
        if len(parts) == 2:
            return ("ID.%d" if inc else "FD.%d") % si
        return ("I.%d.%s" if inc else "F.%d.%s") % (si, parts[2])

    def inside(self, path):
        return os.path.abspath(path).startswith(self.root + os.sep)

    def prim(self, desc):
        """Called before a primitive operation; returns normally if it may be performed."""
        if self.dead or (self.kill_at is not None and len(self.trace) == self.kill_at):
            self.dead = True
            raise Crash(desc)
        self.trace.append(desc)


class FaultFile:
    """Unbuffered file object (pread/pwrite on a descriptor) for modes 'wb' and 'rb+'."""

    def __init__(self, layer, path, mode):
        self.layer, self.path = layer, path
        if mode == "wb":
            layer.prim("create:" + layer.name(path))
            self.fd = os.open(path, os.O_RDWR | os.O_CREAT | os.O_TRUNC, 0o666)
        else:
            self.fd = os.open(path, os.O_RDWR)
        self.pos = 0

    def seek(self, pos, whence=0):
        if whence == 0:
            self.pos = pos
        elif whence == 1:
            self.pos += pos
        else:
            self.pos = os.fstat(self.fd).st_size + pos
        return self.pos

    def tell(self):
        return self.pos

    def read(self, n=-1):
        if n is None or n < 0:
            n = max(os.fstat(self.fd).st_size - self.pos, 0)
        b = os.pread(self.fd, n, self.pos)
        self.pos += len(b)
        return b

    def write(self, data):
        data = bytes(data)
        if not data:
            return 0
        lay = self.layer
        if lay.torn and not lay.dead and lay.kill_at is not None and len(lay.trace) == lay.kill_at:
            os.pwrite(self.fd, data[:lay.torn], self.pos)     # torn write: a prefix reaches the file, then the kill
            lay.dead = True
            raise Crash("torn write")
        self.layer.prim("pwrite:%s:%d:%s" % (self.layer.name(self.path), self.pos, hx(data)))
        os.pwrite(self.fd, data, self.pos)
        self.pos += len(data)
        return len(data)

    def truncate(self, n=None):
        n = self.pos if n is None else n
        self.layer.prim("truncate:%s:%d" % (self.layer.name(self.path), n))
        os.ftruncate(self.fd, n)
        return n

    def flush(self):
        pass

    def close(self):
        if self.fd is not None:
            os.close(self.fd)
            self.fd = None

    def __enter__(self):
        return self

    def __exit__(self, *a):
        self.close()
        return False


@contextlib.contextmanager
def fault_injection(layer):
    import builtins
    from allmydata.storage import immutable as simm
    real = {n: getattr(os, n) for n in ("rename", "remove", "unlink", "rmdir", "makedirs", "mkdir")}

    def fopen(path, mode="r", *a, **kw):
        if layer.inside(path) and mode in ("wb", "rb+"):
            return FaultFile(layer, path, mode)
        return builtins.open(path, mode, *a, **kw)

    def wrap1(fname, tag):
        def f(path, *a, **kw):
            if layer.inside(path):
                layer.prim("%s:%s" % (tag, layer.name(path)))
            return real[fname](path, *a, **kw)
        return f

    def frename(src, dst, *a, **kw):
        if layer.inside(src):
            layer.prim("rename:%s:%s" % (layer.name(src), layer.name(dst)))
        return real["rename"](src, dst, *a, **kw)

    depth = [0]

    def fmakedirs(path, *a, **kw):
        # os.makedirs recurses through the module-level name: count the outermost call only
        if layer.inside(path) and depth[0] == 0:
            layer.prim("mkdir:" + layer.name(path))
        depth[0] += 1
        try:
            return real["makedirs"](path, *a, **kw)
        finally:
            depth[0] -= 1

    simm.open = fopen
    os.rename = frename
    os.remove = wrap1("remove", "unlink")
    os.unlink = wrap1("unlink", "unlink")
    os.rmdir = wrap1("rmdir", "rmdir")
    os.makedirs = fmakedirs
    try:
        yield
    finally:
        del simm.open
        for n, f in real.items():
            setattr(os, n, f)


def snapshot(ss, sis):
    """(data, leases) of every visible share, as a reader / lease lister sees them."""
    from allmydata.storage.immutable import ShareFile
    res = {}
    for si in sis:
        for sh, fn in ss.get_shares(U.si_bytes(si)):
            try:
                b = ss.get_buckets(U.si_bytes(si))[sh]
                data = b.read(0, 10 ** 6)
                sf = ShareFile(fn)
                leases = [l.to_immutable_data() for l in sf.get_leases()]
                res[(si, sh)] = (data, leases)
            except Exception as e:   # unreadable container
                res[(si, sh)] = ("unreadable: %s" % type(e).__name__, [])
    return res


def exec_test(runner, t, layer):
    """Run the operation under test on the real server inside the fault layer."""
    if t[0] == "AL":
        _, si, secret_id, free = t
        runner.disk["free"] = free
        rs, cs = U.secrets(secret_id)
        from allmydata.interfaces import NoSpace
        try:
            runner.ss.add_lease(U.si_bytes(si), rs, cs)
        except NoSpace:
            pass
    elif t[0] == "RL":
        _, si, secret_id = t
        rs, cs = U.secrets(secret_id)
        try:
            runner.ss.renew_lease(U.si_bytes(si), rs)
        except IndexError:
            pass
    else:
        runner.op(t)


def test_line(runner, t):
    """The driver token of the operation under test (computed before it runs)."""
    if t[0] == "AL":
        _, si, secret_id, free = t
        rec = U.lease_record(runner.clock, secret_id, owner_num=1)
        order = U.listdir_order(runner.ss, si)
        return "AL:%d:%s:%d:%s" % (si, hx(rec), free, U.show_list(str(x) for x in order))
    if t[0] == "RL":
        _, si, secret_id = t
        rec = U.lease_record(runner.clock, secret_id, owner_num=1)
        order = U.listdir_order(runner.ss, si)
        return "RL:%d:%s:%s" % (si, hx(rec), U.show_list(str(x) for x in order))
    return None


def one_run(ctx, ro, rs, hist, t, kill_at, torn=None):
    """History (concrete ops) then the operation under test with a kill at primitive index
    `kill_at` (None = no kill).  Returns dict with trace, line token, snapshots, restart results."""
    runner = U.Runner(ctx, "C29", readonly=ro, reserved=rs, monitor=False)
    sis = (0, 1)
    try:
        with U.simulated_disk(runner.disk):
            lines = []
            for o in hist:
                l, _ = runner.op(o)
                lines.append(l)
            before = snapshot(runner.ss, sis)
            ref_inprog = {w: (r["key"], r["size"], bytes(r["data"])) for w, r in runner.ref.inprog.items()}
            tok = test_line(runner, t)
            layer = FaultLayer(runner.dir, runner.si_names, kill_at, torn)
            crashed = False
            with fault_injection(layer):
                try:
                    if tok is None:
                        # the runner computes the token itself (needs listdir order / lease record before the call)
                        if t[0] == "A":
                            from allmydata.storage.common import storage_index_to_dir
                            runner.si_names[os.path.basename(storage_index_to_dir(U.si_bytes(t[1])))] = t[1]
                        l, _ = runner.op(t)
                        tok = l
                    else:
                        exec_test(runner, t, layer)
                except Crash:
                    crashed = True
            # restart: a fresh server on the same directory (runs _clean_incomplete)
            from twisted.internet.task import Clock
            ss2 = U.make_server(runner.dir, Clock(), rs, ro)
            after = snapshot(ss2, sis)
            dump = U.dump_disk(ss2, runner.si_names)
            return {"lines": lines, "tok": tok, "trace": layer.trace, "crashed": crashed, "before": before, "after": after,
                    "dump": dump, "allocated": ss2.allocated_size(), "ref_inprog": ref_inprog,
                    "head": "c29 %d %d" % (1 if ro else 0, rs)}
    finally:
        runner.cleanup()


def a_token(runner_line):
    return runner_line


def targets_of(t, hist_res):
    """Keys the operation under test is entitled to change (the shares being written)."""
    if t[0] in ("A", "AL"):
        return ("si", t[1])
    return ("wid", t[1])


def torn_lengths(prim):
    """torn lengths tried for a primitive write (the same rule as the driver): 1 byte and half of the data"""
    if not prim.startswith("pwrite:"):
        return []
    ln = len(prim.split(":")[3]) // 2
    return [1, ln // 2] if ln // 2 > 1 else ([1] if ln >= 1 else [])


def monitor(ctx, case, t, full, res, n, torn_j=None):
    """The C29 statement on the restarted server after a kill at primitive index n."""
    before, after = res["before"], res["after"]
    trace = full["trace"]
    lease_only = t[0] in ("AL", "RL") or (t[0] == "A" and not any(x.startswith("create:") for x in trace))
    closing = None
    if t[0] in ("W", "C", "X") and t[1] in full["ref_inprog"]:
        closing = full["ref_inprog"][t[1]]
    for key, (data, leases) in before.items():
        a = after.get(key)
        being_written = (t[0] in ("A", "AL", "RL") and key[0] == t[1])
        if a is None:
            ctx.violation("share %s disappeared after a crash in %s" % (key, t[0]), case, "c29-share-lost", {"n": n})
            continue
        if not being_written and a != (data, leases):
            ctx.violation("share %s (not being written) changed after a crash in %s" % (key, t[0]), case,
                          "c29-other-share-changed", {"n": n})
        if being_written and a[0] != data:
            # an operation that only adds/renews leases on this share changed its data
            if torn_j is None:
                torn = (0 < n < len(trace) and trace[n - 1].startswith("pwrite:F.") and trace[n].startswith("pwrite:F.")
                        and trace[n].split(":")[2] == "8" and len(trace[n - 1].split(":")[3]) == 144
                        and isinstance(a[0], bytes) and len(a[0]) == len(data) + 72)
            else:
                # the same mechanism (record appended at EOF, count not yet written), the append itself torn
                torn = (n + 1 < len(trace) and trace[n].startswith("pwrite:F.") and trace[n + 1].startswith("pwrite:F.")
                        and trace[n + 1].split(":")[2] == "8" and len(trace[n].split(":")[3]) == 144
                        and isinstance(a[0], bytes) and len(a[0]) == len(data) + torn_j)
                # ... or the count write is the torn one and its first bytes left the old count in place
                torn = torn or (0 < n < len(trace) and trace[n - 1].startswith("pwrite:F.") and trace[n].startswith("pwrite:F.")
                                and trace[n].split(":")[2] == "8" and len(trace[n - 1].split(":")[3]) == 144
                                and isinstance(a[0], bytes) and len(a[0]) == len(data) + 72)
            ctx.violation("lease operation changed share data after a crash: share %s length %d -> %s, leases %d -> %d" % (
                key, len(data), len(a[0]) if isinstance(a[0], bytes) else a[0], len(leases), len(a[1])), case,
                SIG_TORN if torn else "c29-lease-op-changed-data", {"n": n, "op": trace[n - 1] if n else None})
    for key, (data, leases) in after.items():
        if key in before:
            continue
        if closing is not None and t[0] == "C" and key == closing[0]:
            if data != closing[2] or len(data) != closing[1]:
                ctx.violation("share %s visible after a crash in close() but not complete" % (key,), case,
                              "c29-partial-share-visible", {"n": n})
        else:
            ctx.violation("share %s became visible after a crash in %s" % (key, t[0]), case, "c29-unfinished-share-visible", {"n": n})
    if not res["dump"].endswith(";-"):
        ctx.violation("incoming files survive the restart", case, "c29-incoming-not-discarded", {"n": n})
    if res["allocated"] != 0:
        ctx.violation("restarted server still reserves space", case, "c29-reservation-survives-restart", {"n": n})


def gen_case(rng):
    ro = False
    rs = rng.choice([0, 0, 10])
    hist = U.gen_history(rng, rng.choice([2, 4, 8, 12]), sizes=(0, 1, 4, 10), n_si=2, shnums=(0, 1, 2))
    hist = [o for o in hist if o[0] not in ("D", "S", "L", "R")]
    kind = rng.choice(["A", "A", "AL", "AL", "RL", "W?", "C?", "C?", "X?"])
    if kind == "A":
        t = ["A", rng.randrange(2), sorted(set(rng.choice((0, 1, 2, 3)) for _ in range(rng.choice([1, 2, 3])))),
             rng.choice((0, 1, 4, 10)), rng.randrange(4), rng.choice([10 ** 9, 10 ** 9, 100, 71])]
    elif kind == "AL":
        t = ["AL", rng.randrange(2), rng.randrange(4), rng.choice([10 ** 9, 10 ** 9, 100, 71])]
    elif kind == "RL":
        t = ["RL", rng.randrange(2), rng.randrange(4)]
    else:
        t = [kind, rng.random(), rng.random(), rng.random(), rng.random()]
    return ro, rs, hist, t


CORPUS = [
    # DESIGN §3 probe: add_lease with a new secret on a completed 10-byte share
    (False, 0, [["A", 0, [0], 10, 0, 10 ** 9], ["W", 0, 0, "00010203040506070809"], ["C", 0]], ["AL", 0, 1, 10 ** 9]),
    # the same window inside allocate_buckets (lease added to the share already present), plus new shares
    (False, 0, [["A", 0, [0], 4, 0, 10 ** 9], ["W", 0, 0, "0a0b0c0d"], ["C", 0], ["T", 10]], ["A", 0, [0, 1, 2], 4, 1, 10 ** 9]),
    # close: rename is the commit point; two uploads of one SI in progress
    (False, 0, [["A", 1, [0, 1], 4, 0, 10 ** 9], ["W", 0, 1, "0102"], ["W", 1, 0, "09"]], ["C", 0]),
    (False, 0, [["A", 1, [0], 4, 0, 10 ** 9], ["W", 0, 0, "01020304"]], ["C", 0]),
    (False, 0, [["A", 1, [0, 1], 4, 0, 10 ** 9]], ["X", 1]),
    # renewal only (same secret, later clock)
    (False, 0, [["A", 0, [0], 3, 2, 10 ** 9], ["C", 0], ["T", 500]], ["AL", 0, 2, 10 ** 9]),
]

CORPUS += [
    # seeded C29-a: crash while incoming/<si> exists and the final bucket dir already holds a complete share:
    # a later upload session adds shares to an SI that has share 0 (kill anywhere inside the allocation / the write)
    (False, 0, [["A", 0, [0], 4, 0, 10 ** 9], ["W", 0, 0, "0a0b0c0d"], ["C", 0], ["A", 0, [1], 4, 0, 10 ** 9]], ["W", 1, 0, "01020304"]),
    # seeded C29-b / C29-c: a multi-write upload is closed; kill at every point of close() (after the rename the
    # share must hold every written byte, its lease, and the allocated length)
    (False, 0, [["A", 1, [0], 8, 0, 10 ** 9], ["W", 0, 0, "0102030405"], ["W", 0, 5, "060708"]], ["C", 0]),
]


def _share_with_leases(n, size=6):
    """history: one completed share of SI 0 holding leases of secrets 0..n-1 (added by later allocate_buckets
    calls of other holders), then the clock advances so that a renewal changes the expiry"""
    h = [["A", 0, [0], size, 0, 10 ** 9], ["W", 0, 0, "a1a2a3a4a5a6"[:2 * size]], ["C", 0]]
    for k in range(1, n):
        h += [["T", 7], ["A", 0, [0], size, k, 10 ** 9]]
    return h + [["T", 1000]]


# seeded C29-d: renewal with a changed expiry is ONE in-place record write; enumerate every low-level event
# of a renewal on shares with 1, 2 and 3 leases, reached as renew_lease, as add_lease with secrets already on
# the share, and as a repeated allocate_buckets by an existing holder, for the first / middle / last lease
CORPUS += [(False, 0, _share_with_leases(n), t)
           for n in (1, 2, 3)
           for t in ([["RL", 0, k] for k in range(n)] + [["AL", 0, n - 1, 10 ** 9], ["A", 0, [0], 6, 0, 10 ** 9]])]
# two shares of the SI, both renewed by one call
CORPUS += [(False, 0, [["A", 1, [0, 1], 3, 0, 10 ** 9], ["C", 0], ["C", 1], ["T", 5], ["A", 1, [0, 1], 3, 1, 10 ** 9], ["T", 50]], t)
           for t in (["RL", 1, 0], ["RL", 1, 1], ["AL", 1, 0, 10 ** 9])]

# NOT a C29 violation: the share add_lease operates on IS being written (its lease area); C29 promises that its
# DATA is unchanged (checked below) and that OTHER shares keep data and leases.  That its existing leases cannot
# be enumerated after a crash between the count write and the record write is recorded as an observation only.
OBS_MUT = "observation:mutable-extra-lease-unreadable-after-crash"


def mutable_probe(ctx, n_leases):
    """Real MutableShareFile with `n_leases` leases (>= 4: every header slot taken), then add_lease with a
    new secret killed at every primitive write; compares the writes and the post-restart state with the
    model (driver line c29m) and evaluates the statement: a lease-only operation never changes the share DATA.
    (Whether the leases of the operated-on share are still enumerable is compared with the model and counted as an
    observation, not demanded: C29 does not promise it for the share being written.)"""
    import builtins
    from twisted.internet.task import Clock
    from allmydata.storage import mutable as smut
    base = U.tmpdir("c29mut")
    try:
        ss = U.make_server(base, Clock())
        si = U.si_bytes(0)

        def sec(i):
            return (b"W" * 32, b"R%031d" % i, b"C%031d" % i)
        ss.slot_testv_and_readv_and_writev(si, sec(0), {0: ([], [(0, b"mutable-data-0123456789")], None)}, [])
        for i in range(1, n_leases):
            ss.add_lease(si, sec(i)[1], sec(i)[2])
        fn = [f for _, f in ss.get_shares(si)][0]
        before_file = builtins.open(fn, "rb").read()
        before_data = ss.slot_readv(si, [0], [(0, 1000)])
        before_leases = sorted(l.to_mutable_data() for l in ss.get_slot_leases(si))
        results, trace_full = [], None
        for kill in (None, 0, 1, 2):
            d2 = base + "-k"
            shutil.copytree(base, d2)
            try:
                ss2 = U.make_server(d2, Clock())
                layer = FaultLayer(d2, {}, kill)
                layer.name = lambda p: "F.0.0"

                def fopen(path, mode="r", *a, **kw):
                    if mode in ("wb", "rb+"):
                        return FaultFile(layer, path, mode)
                    return builtins.open(path, mode, *a, **kw)
                smut.open = fopen
                try:
                    try:
                        ss2.add_lease(si, sec(99)[1], sec(99)[2])
                    except Crash:
                        pass
                finally:
                    del smut.open
                if kill is None:
                    trace_full = list(layer.trace)
                    continue
                ss3 = U.make_server(d2, Clock())
                data_ok = ss3.slot_readv(si, [0], [(0, 1000)]) == before_data
                try:
                    leases = sorted(l.to_mutable_data() for l in ss3.get_slot_leases(si))
                    readable = True
                except Exception as e:   # struct.error: the counted record is missing
                    leases, readable = None, False
                results.append((kill, data_ok, readable))
                case = {"mutable_probe": n_leases, "kill": kill}
                ctx.case(("mut", n_leases, kill) if 0 < kill < len(trace_full) else None)
                ctx.count("mutable-probe")
                if not data_ok:
                    ctx.violation("mutable add_lease changed the share data after a crash", case, "c29-lease-op-changed-data")
                if not readable or any(l not in leases for l in before_leases):
                    ctx.count(OBS_MUT)
            finally:
                shutil.rmtree(d2, ignore_errors=True)
        rec = trace_full[-1].split(":")[3] if trace_full else "-"
        line = "c29m %s %s" % (hx(before_file), rec)
        impl = "ops=%s|r=%s|d=%s" % (";".join(trace_full), ",".join("1" if r[2] else "0" for r in results),
                                     ",".join("1" if r[1] else "0" for r in results))
        return line, impl
    finally:
        shutil.rmtree(base, ignore_errors=True)


def run(ctx):
    n_cases = 0 if os.environ.get("VERIF_CORPUS_ONLY") else ctx.budget(36, 1500)
    cases = []
    if ctx.replay:
        c = ctx.replay["case"]
        cases = [(c["readonly"], c["reserved"], c["hist"], c["test"], True)]
    else:
        cases = [(ro, rs, h, t, True) for (ro, rs, h, t) in CORPUS]
        for _ in range(n_cases):
            ro, rs, h, t = gen_case(ctx.rng)
            cases.append((ro, rs, h, t, False))
    lines, impl, recs = [], [], []
    for ro, rs, hist, t, concrete in cases:
        # resolve abstract ops once (no kill), which also gives the full trace
        if not concrete:
            conc, _, _, _ = U.run_history(ctx, "C29", hist + [t] if t[0].endswith("?") else hist, readonly=ro, reserved=rs, sis=(0, 1))
            if t[0].endswith("?"):
                hist, t = conc[:-1], conc[-1]
                if t[0] == "Y":
                    t = ["X", t[1]]
                if t[0] not in ("W", "C", "X"):
                    continue
            else:
                hist = conc
        case = {"readonly": ro, "reserved": rs, "hist": hist, "test": t}
        full = one_run(ctx, ro, rs, hist, t, None)
        ctx.count("test:" + t[0])
        ctx.count("prims", len(full["trace"]))
        dumps = [None] * (len(full["trace"]) + 1)
        for n in range(len(full["trace"]) + 1):
            res = one_run(ctx, ro, rs, hist, t, n) if n < len(full["trace"]) else full
            dumps[n] = res["dump"].split(";")[0]
            monitor(ctx, case, t, full, res, n)
            ctx.case((repr(case), n) if 0 < n < len(full["trace"]) else None)
        for n in range(len(full["trace"])):
            for j in torn_lengths(full["trace"][n]):
                res = one_run(ctx, ro, rs, hist, t, n, torn=j)
                dumps.append("T%d.%d=%s" % (n, j, res["dump"].split(";")[0]))
                monitor(ctx, case, t, full, res, n, torn_j=j)
                ctx.case((repr(case), n, j))
                ctx.count("torn-write")
        lines.append((full["head"] + " " + " ".join(full["lines"])).strip() + " ! " + full["tok"])
        impl.append("ops=" + (";".join(full["trace"]) or "-") + "|" + "|".join(dumps))
        recs.append(case)
    if not ctx.replay:
        # mutable containers: the extra-lease append of add_lease (fixed corpus: 4, 5 and 7 leases)
        for n_leases in (4, 5, 7):
            l, i = mutable_probe(ctx, n_leases)
            lines.append(l)
            impl.append(i)
            recs.append({"mutable_probe": n_leases})
    model = ctx.model(lines)
    ctx.compare("primitive file operations of the operation under test and surviving final containers at every crash index",
                recs, impl, model)
    if lines:
        ctx.sample({"line": lines[0][:200], "impl": impl[0][:400]})
