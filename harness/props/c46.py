"""C46 — immutable reads always terminate (downloader/node.py segment queue over fetcher.py; end-to-end through
finder.py / share.py / segmentation.py)."""
ID = "C46"
LEAN_PROPS = "Tahoe.Props.C46"
DRIVER = "C46"
GENERATED = []
SOURCES = ["src/allmydata/immutable/downloader/node.py", "src/allmydata/immutable/downloader/fetcher.py",
           "src/allmydata/immutable/downloader/finder.py", "src/allmydata/immutable/downloader/segmentation.py"]
DESIGN_REF = "DESIGN.md §2 C03/C46, Appendix A.4, §3 row C46"
TECHNIQUE = ("Lean 4 theorems (12) over executable models of the DownloadNode segment queue (_segment_requests, _active_segment, "
             "get_segment, _start_new_segment, got_shares, no_more_shares, fetch_failed, process_blocks success and failure "
             "branch, _cancel_request) on the SegmentFetcher event system, of Segmentation (one read: _maybe_fetch_next, "
             "_got_segment incl. WrongSegmentError, _retry_bad_segment, _request_retired on every outcome, stop/pause/resume) and "
             "of the composed system Sys (reads routed through the node with explicit _deliver events): no_stuck_state, "
             "later_reads_progress, do_loop_terminates, read_never_idle, read_terminates_when_answered, bad_segnum_retry, "
             "read_writes_exact_range, waiting_read_request_is_routed, every_read_terminates_with_finder_partial (the real finder "
             "routed into the composed system SysF, tied by `sysf` scripts; its noMore clause still a hypothesis), every_read_terminates (end to end: every quiescent state "
             "of the composed system has every read's Deferred fired), idle_fetcher_has_asked_for_more, and the proved "
             "counterexample unfixed_stuck_counterexample for the failure branch before fix 6853eb2; differential correspondence "
             "of seeded scripts against the real DownloadNode + SegmentFetcher (fake shares, stubbed decode), the real "
             "Segmentation (fake node) and real DownloadNode.read() calls (composed system); a fixed seed-independent corpus and "
             "random end-to-end fault schedules (incl. consistently re-hashed shares whose ciphertext hash check fails after block "
             "validation) with a termination monitor")
LEVEL_TEXT = ("Termination is proved as a safety property, end to end for the composed model: in every quiescent reachable state of "
              "reads + node + the node's fetchers every read's Deferred has fired (every_read_terminates) and a waiting read's request "
              "is always in the node's queue or retired (waiting_read_request_is_routed); per layer: every request retired or "
              "cancelled and later get_segment calls served after any failure (no_stuck_state, later_reads_progress), the one-shot "
              "BadSegmentNumber / WrongSegment retry (bad_segnum_retry), the _do_loop loop terminates; for all event orders, "
              "concurrent reads, cancels, pauses, decode failures, bad segment numbers and segment-size guesses.  The models are "
              "tied to node.py / fetcher.py / segmentation.py by comparing queue, active fetcher, retirements, fetcher internals "
              "and every read's state after every event of seeded scripts.  Below the composed system: the finder's contract is "
              "proved for a separate ShareFinder model (C03.finder_answers_every_hungry, with idle_fetcher_has_asked_for_more as "
              "the fetcher's half); the finder IS composed executably (SysF, tied against real DownloadNode + real ShareFinder) and the "
              "routing invariant is proved through it (every_read_terminates_with_finder_partial), but the told/noMore link across "
              "fetcher generations is not yet proved; that every get_block gets a terminal event (share.py) is an "
              "assumption, exercised end-to-end under fault schedules with a 'no read is stuck at quiescence' monitor.")
LEVEL_NOTE = ("Lean kernel + standard axioms; decode / ciphertext-hash check are one atomic step of the model (as with the CPU "
              "thread pool disabled) — the production thread-pool interleaving of process_blocks is not modelled; liveness is "
              "'no stuck quiescent state', not a time bound; a consumer that pauses a read is expected to resume it.  Defects found "
              "by this check and repaired in /repo: 6853eb2 (_active_segment not cleared after a decode failure), 4f1ea1b "
              "(get_block on a dead share never answered).")
RULE = ("fixed corpus first (VERIF_CORPUS_ONLY=1 runs only it): node scripts, Segmentation scripts, composed-system scripts, "
        "finder scripts and end-to-end scenarios, one per seeded change C46-a..e / C03-a..e and per repaired defect; then random "
        "families: (1) node scripts (1..5 get_segment requests incl. duplicates / out-of-range segment numbers, cancels, "
        "announcements, answers, UEB arrival, decode failures on chosen segments, one third with malformed / stale events) on "
        "the real DownloadNode with fake shares and on the driver — a case is one script, non-trivial = a fetcher was started; "
        "(2) Segmentation scripts (right / wrong / bad-segnum / failing answers, pause, resume, stop) on the real class; "
        "(3) composed-system scripts (1..3 concurrent real DownloadNode.read() calls, wrong or right guess, explicit deliveries); "
        "(4) ShareFinder scripts (statement monitor; the model comparison runs in C03); (5) end-to-end scenarios as for C03 plus "
        "crafted shares whose ciphertext hash tree is wrong but consistent, 1..3 sequential groups of 1..3 concurrent reads on "
        "the same node: a case is one read, non-trivial = at least one fault is present")
TRUSTED = ["lean/Tahoe/Immutable/Fetch.lean and Segmentation.lean are hand transcriptions of node.py's queue logic, fetcher.py and "
           "segmentation.py; the node keeps its shares in a set (iteration order unspecified) — the model uses announcement order "
           "and scripts avoid sort-key ties",
           "harness/grid.py, the FaultWrapper and wait_all (quiescence = nothing deliverable and no timer within a horizon of "
           "virtual time; storage crawlers re-arm timers forever) in harness/props/_fetch_common.py",
           "the environment predicates NEvOk / NQuiescent / SEvOk / SysEvOk / SysQuiescent: answers only for outstanding requests, "
           "every queued eventual-send turn runs, eventually(_deliver) fires each Deferred exactly once, shares behave as share.py does"]
ASSUMPTIONS = ["a server that neither answers nor disconnects is outside the statement ('once every server has answered or failed')",
               "every get_block gets a terminal event (share.py not modelled; true for dead shares since 4f1ea1b); the finder "
               "answers every want_more_shares (proved for the separate finder model, not composed with Sys)",
               "async decode in the CPU thread pool (cancel / new request racing with a running decode) is not modelled",
               "the model is the code as repaired by 6853eb2 (fixes/C46-active-segment.diff); unfixed_stuck_counterexample documents "
               "the behaviour before the fix"]

import json

import common
import props._fetch_common as fc

CORPUS = [
    # decode failure for segment 1, then a read of segment 0 on the same node (Props/C46.lean exRun)
    ((1, 2, [1]), ["g:1:7", "l:0", "a:0.0.0.0", "l:0", "u", "s:0:0:C", "l:0", "g:0:8", "l:1", "s:1:0:C", "l:1"]),
    # two requests for the same segment + one for another, fetch_failed then success
    ((1, 2, []), ["g:0:0", "g:0:1", "g:1:2", "l:0", "n", "l:0", "a:0.0.0.3", "l:1", "s:1:0:C", "l:1"]),
    # seeded C46-b: the finder is exhausted by a failed segment; a later request on the same node must fail too (not hang):
    # every new fetcher has to ask want_more_shares again
    ((2, 2, []), ["g:0:0", "l:0", "a:0.0.0.1", "l:0", "n", "l:0", "g:1:1", "l:1", "n", "l:1"]),
    # seeded C46-d: duplicate requests for one segment whose fetch fails (fetch_failed), then a further request
    ((2, 2, []), ["g:0:0", "g:0:1", "g:0:2", "l:0", "a:0.0.0.1", "l:0", "n", "l:0", "g:0:3", "l:1", "n", "l:1"]),
    # the same with a decode failure (process_blocks failure branch) and with a bad segment number
    ((1, 2, [0]), ["g:0:0", "g:0:1", "l:0", "a:0.0.0.1", "l:0", "s:0:0:C", "l:0", "g:1:2", "l:1", "s:1:0:C", "l:1"]),
    ((1, 2, []), ["g:5:0", "g:5:1", "u", "l:0", "g:0:2", "a:0.0.0.1", "l:1", "s:1:0:C", "l:1"]),
    # seeded C46-e: two copies of share 0 and nothing else (k = 2): one block, the duplicate stays unused -> NotEnoughShares
    ((2, 1, []), ["g:0:0", "l:0", "a:0.0.0.1,1.0.1.2", "l:0", "n", "l:0", "s:0:0:C", "l:0"]),
    # cancel of the only request of the active segment, bad segment number
    ((2, 1, []), ["g:0:0", "l:0", "c:0", "g:3:1", "u", "l:1", "c:0", "g:0:2", "a:0.0.0.1,1.1.0.2", "l:2", "l:2"]),
]


def node_line(p, toks, mode="fixed"):
    return "node %s %d %d %s %s" % (mode, p[0], p[1], ",".join(map(str, p[2])) or "-", " ".join(toks))


def lost_requests_check(ctx, case, toks, info):
    """every request handed out by get_segment is still queued, was retired (callback / errback) or was cancelled"""
    ids = [r.split("=")[0] for r in info["retired"]]
    lost = [r for r in info.get("submitted", []) if r not in info["waiting"] and str(r) not in ids
            and r not in info.get("cancelled", [])]
    if lost:
        segs = {}
        for t in toks:
            if t.startswith("g:"):
                segs.setdefault(t.split(":")[1], []).append(int(t.split(":")[2]))
        dup = any(len(v) > 1 and any(r in lost for r in v) for v in segs.values())
        ctx.violation("segment request(s) %s left the queue but their Deferred never fired (unhandled: %s)"
                      % (lost, info.get("unhandled")), case,
                      "concurrent-reads-same-segment-hang-after-failure" if dup else "request-lost-without-callback",
                      detail={"unhandled": info.get("unhandled")})


def node_monitor(ctx, p, toks, info):
    case = {"kind": "node", "params": [p[0], p[1], list(p[2])], "toks": toks}
    ids = [r.split("=")[0] for r in info["retired"]]
    if len(ids) != len(set(ids)):
        ctx.violation("a segment request was retired twice", case, "request-retired-twice")
    act = info["active"]
    quiescent = info["queued"] == 0 and (act is None or not act[2] or (info["outstanding"] == 0 and info["nomore"]))
    if quiescent:
        lost_requests_check(ctx, case, toks, info)
    if quiescent and info["waiting"]:
        stale = act is not None and not act[2]
        sig = "stuck-after-decode-failure" if (stale and any(r.endswith("=decode-failed") for r in info["retired"])) \
            else "request-never-retired"
        ctx.violation("quiescent node with segment requests that were never retired (requests %s, _active_segment %s)"
                      % (info["waiting"], act), case, sig)


def grid_monitor(ctx, sc, out):
    case = {"kind": "grid", "sc": sc}
    if out["upload"] != "ok":
        ctx.count("grid-upload-" + out["upload"])
        return
    badguess = bool(sc.get("fresh_nodes"))
    faults = bool(sc["share_faults"] or sc["server_plans"] or sc["copies"] or sc["crafted"] or badguess)
    failed_before = False
    decode_failed_before = False
    concurrent_failed_before = False
    for group, outs in zip(sc["reads"], out["groups"]):
        if badguess:                  # every group runs on a fresh node
            failed_before = decode_failed_before = concurrent_failed_before = False
        beyond = badguess and any(fc.guess_relation(sc, off) == "beyond" for (off, sz) in group)
        for (off, sz), o in zip(group, outs):
            ctx.case(json.dumps([sc, off, sz]) if faults else None)
            ctx.count("grid-read:" + o)
            if badguess:
                ctx.count("badguess:%s:%s%s" % (fc.guess_relation(sc, off), o, ":concurrent" if len(group) > 1 else ""))
            if len(group) > 1:
                ctx.count("grid-concurrent-read")
            if failed_before:
                ctx.count("grid-read-after-failed-read:" + o)
            if o == "stuck":
                same_seg_failed = len(group) > 1 and any(x not in ("ok", "stuck") for x in outs)
                sig = "concurrent-reads-same-segment-hang-after-failure" if (same_seg_failed or concurrent_failed_before) else \
                    "stuck-after-decode-failure" if decode_failed_before else \
                    ("stuck-after-failed-read" if failed_before else
                     "stuck-after-bad-segment-number-retry" if beyond else "read-stuck")
                ctx.violation("a read never completed although every server answered or failed (%s)" %
                              ("after a read that failed in decode / ciphertext hash check on the same node" if
                               decode_failed_before else "after a failed read" if failed_before else
                               "first read(s) on a fresh node whose guessed segment number is >= the real number of "
                               "segments: the BadSegmentNumberError retry never re-requested" if beyond else "first failure"),
                              case, sig, detail={"unhandled": out.get("unhandled")})
            elif o == "wrong-data":
                ctx.violation("read returned wrong bytes", case, "wrong-data")
        if len(group) > 1 and any(o not in ("ok",) for o in outs):
            concurrent_failed_before = True
        for o in outs:
            if o not in ("ok", "stuck"):
                failed_before = True
            if o == "BadCiphertextHashError":
                decode_failed_before = True


def late_error_monitor(ctx, sc, out):
    """a share-holding server answers one read late and with an error after the share's block was delivered"""
    case = {"kind": "late-error", "sc": sc}
    if out["upload"] != "ok":
        ctx.count("late-error-upload-" + out["upload"])
        return
    ctx.case(json.dumps(sc))
    res = out["result"]
    ctx.count("late-error-read:" + res)
    if out["silent_death"]:
        # the error arrived while the share had no observer (after its block was delivered)
        ctx.count("late-error:share-died-with-no-observer")
        ctx.count("late-error:died-after-next-fetcher-was-built-then-used" if out["dead_get_block"]
                  else "late-error:died-unobserved-never-used-again")
    if out["death_with_observer"]:
        ctx.count("late-error:share-died-with-observer")
    if res == "stuck":
        ctx.violation("read never completed although %d >= k=%d intact shares are on answering servers%s" %
                      (len(out["good"]), sc["k"], " (get_block() was called on a share that had died unobserved)"
                       if out["dead_get_block"] else ""), case,
                      "stuck-get-block-on-dead-share" if out["dead_get_block"] else "enough-good-shares-read-stuck")
    elif res != "ok":
        ctx.violation("read returned %s although >= k intact shares are on answering servers" % res, case,
                      "wrong-data" if res == "wrong-data" else "enough-good-shares-read-failed-" + res)


def late_dyhb_monitor(ctx, sc, out):
    """a share-location answer that arrives while no fetcher runs, then loss of a server used so far"""
    case = {"kind": "late-dyhb", "sc": sc}
    if out["upload"] != "ok" or not out["setup_ok"]:
        ctx.count("late-dyhb-setup-not-reached")
        return
    ctx.case(json.dumps(sc))
    res = out["result"]
    ctx.count("late-dyhb:%s:%s" % (sc["mode"], res))
    if res == "stuck":
        ctx.violation("read never completed although every server answered or failed", case, "late-dyhb-read-stuck",
                      detail={"unhandled": out.get("unhandled")})
    elif res == "wrong-data":
        ctx.violation("read returned wrong bytes", case, "wrong-data")
    # (whether a completed read succeeded or failed with the right error is C03's statement)


def run(ctx):
    common.setup_impl_path()
    B = (lambda q, t: 0) if fc.corpus_only() else ctx.budget
    ncases, impl, lines = [], [], []
    scenarios = []
    late = []
    lated = []
    if ctx.replay:
        c = ctx.replay.get("case") or ((ctx.replay.get("correspondence_disagreements") or [{}])[0].get("case")) or {}
        if c.get("kind") == "node":
            p = (c["params"][0], c["params"][1], c["params"][2])
            digs, info = fc.replay_node_script(p[0], p[1], p[2], c["toks"])
            ncases.append(c)
            impl.append(";".join(digs))
            lines.append(node_line(p, c["toks"]))
            if info["queued"] == 0:
                lost_requests_check(ctx, c, c["toks"], info)
            if info["waiting"] and (info["active"] is None or not info["active"][2]):
                ctx.violation("node with segment requests and no running fetcher (requests %s, _active_segment %s)"
                              % (info["waiting"], info["active"]), c,
                              "stuck-after-decode-failure" if any(r.endswith("=decode-failed") for r in info["retired"])
                              else "request-never-retired")
        elif c.get("kind") == "grid":
            scenarios.append(c["sc"])
        elif c.get("kind") == "late-error":
            late.append(c["sc"])
        elif c.get("kind") == "late-dyhb":
            lated.append(c["sc"])
    else:
        for (p, toks) in CORPUS:
            digs, info = fc.replay_node_script(p[0], p[1], p[2], toks)
            ncases.append({"kind": "node", "params": [p[0], p[1], list(p[2])], "toks": toks})
            impl.append(";".join(digs))
            lines.append(node_line(p, toks))
            ctx.case(("N", repr(p), tuple(toks)))
            node_monitor(ctx, p, toks, info)
            if info["queued"] == 0:
                lost_requests_check(ctx, ncases[-1], toks, info)
            if info["waiting"] and (info["active"] is None or not info["active"][2]):
                ctx.violation("node with segment requests and no running fetcher (requests %s, _active_segment %s)"
                              % (info["waiting"], info["active"]), ncases[-1],
                              "stuck-after-decode-failure" if any(r.endswith("=decode-failed") for r in info["retired"])
                              else "request-never-retired")
        for i in range(B(500, 20000)):
            malformed = (i % 3 == 2)
            p, toks, digs, info = fc.gen_node_script(ctx.rng, malformed=malformed, max_events=220)
            ncases.append({"kind": "node", "params": [p[0], p[1], list(p[2])], "toks": toks})
            impl.append(";".join(digs))
            lines.append(node_line(p, toks))
            started = any("start=" in d for d in digs)
            ctx.case(("N", repr(p), tuple(toks)) if started else None)
            ctx.count("node-script:" + ("malformed" if malformed else "valid"))
            for r in info["retired"]:
                ctx.count("node-retired:" + r.split("=")[1])
            if any(t.startswith("c:") for t in toks):
                ctx.count("node-cancel")
            if len(toks) < 220:
                node_monitor(ctx, p, toks, info)
        for i in range(B(200, 6000)):
            scenarios.append(fc.gen_scenario(ctx.rng, want_crafted=(i % 3 == 0)))
        for name, sc in fc.GRID_CORPUS:                    # fixed end-to-end corpus, one history per known mechanism
            scenarios.insert(0, dict(sc, corpus=name))
        # corpus: the reader's guess (1000) is smaller than the real segment size (2000): first reads on a fresh
        # node at offsets whose guessed segment number (2) is >= the real number of segments (2)
        scenarios.append({"kind": "grid", "k": 1, "n": 2, "servers": 2, "segsize": 2000, "gmax": 1000, "fresh_nodes": True,
                          "size": 3000, "grid_seed": 5, "policy": "fifo", "dataseed": 6, "copies": [], "share_faults": [],
                          "server_plans": {}, "reads": [[[2500, 50]], [[2999, 1], [2100, 700]], [[1500, 10]]], "crafted": []})
        for i in range(B(50, 1500)):
            scenarios.append(fc.gen_badguess_scenario(ctx.rng, faults=(i % 2 == 1)))
        for i in range(B(25, 800)):
            scenarios.append(fc.gen_hashdamage_scenario(ctx.rng))
        if ctx.tier == "thorough" and not fc.corpus_only():
            scenarios.append(fc.big_badguess_scenario())
        for m in ("second-read", "resume", "control"):      # corpus (seeded C03-e): late get_buckets answer while idle
            lated.append(fc.gen_late_dyhb_scenario(None, mode=m, canonical=True))
        for i in range(B(15, 300)):
            lated.append(fc.gen_late_dyhb_scenario(ctx.rng))
        late.append(fc.gen_late_error_scenario(None, canonical=True))      # corpus: minimised history
        for i in range(B(20, 350)):
            late.append(fc.gen_late_error_scenario(ctx.rng))
    # ---- ShareFinder scripts: statement monitor only here (the model comparison runs in the C03 check)
    if not ctx.replay:
        fc.finder_family(ctx, B(150, 4000))
    # ---- Segmentation (one read) scripts: the real class with a fake node
    scases, simpl, slines = [], [], []
    if ctx.replay:
        c = ctx.replay.get("case") or ((ctx.replay.get("correspondence_disagreements") or [{}])[0].get("case")) or {}
        if c.get("kind") == "seg":
            digs, res = fc.replay_seg_script(tuple(c["params"]), c["toks"])
            scases.append(c)
            simpl.append(";".join(digs))
            slines.append("seg %d %d %d %d %s" % (tuple(c["params"]) + (" ".join(c["toks"]),)))
    else:
        SEG_CORPUS = [((2000, 1000, 2500, 50), ["S:0", "f:B:1", "g:2000:1000:0:1"]),       # the seeded retry history
                      ((64, 1000, 70, 10), ["S:0", "g:0:64:0:1", "g:64:64:0:1"]),           # WrongSegmentError retry
                      ((2000, 1000, 2500, 50), ["S:0", "f:B:1", "f:B:1"]),                 # second failure: errback
                      ((16, 16, 3, 40), ["S:1", "g:0:16:1:1", "r", "t:1", "g:16:16:0:1", "x"])]
        for (params, toks) in SEG_CORPUS:
            digs, res = fc.replay_seg_script(params, toks)
            scases.append({"kind": "seg", "params": list(params), "toks": toks})
            simpl.append(";".join(digs))
            slines.append("seg %d %d %d %d %s" % (params + (" ".join(toks),)))
            ctx.case(("S", params, tuple(toks)))
        for i in range(B(600, 20000)):
            params, toks, digs, info = fc.gen_seg_script(ctx.rng)
            case = {"kind": "seg", "params": list(params), "toks": toks}
            scases.append(case)
            simpl.append(";".join(digs))
            slines.append("seg %d %d %d %d %s" % (params + (" ".join(toks),)))
            ctx.case(("S", params, tuple(toks)) if len(toks) > 2 else None)
            ctx.count("seg-result:" + str(info["result"]))
            if any(t.startswith("f:B") for t in toks):
                ctx.count("seg-bad-segnum-answer")
            # the statement on one read: it never sits idle without having completed or failed
            if info["result"] is None and not info["outstanding"] and info["queued"] == 0 and info["hungry"] and len(toks) < 60:
                ctx.violation("a read has no segment request outstanding, nothing queued, is not paused, and its Deferred "
                              "never fired", case,
                              "stuck-after-bad-segment-number-retry" if any(t.startswith("f:B") for t in toks)
                              else "read-idle-without-result")
            if info["result"] == "done" and info["written"] != info["size"]:
                ctx.violation("a read completed successfully having written %d of %d bytes" % (info["written"], info["size"]),
                              case, "read-done-wrong-length")
    # ---- composed system: real reads (Segmentation) on a real DownloadNode, deliveries explicit
    ycases, yimpl, ylines = [], [], []

    def sys_line(p, toks):
        return "sys %d %d %s %d %d %d %s" % (p[0], p[1], ",".join(map(str, p[2])) or "-", p[3], p[4], p[5], " ".join(toks))
    if ctx.replay:
        c = ctx.replay.get("case") or ((ctx.replay.get("correspondence_disagreements") or [{}])[0].get("case")) or {}
        if c.get("kind") == "sys":
            p = tuple(c["params"][:2]) + (c["params"][2],) + tuple(c["params"][3:])
            digs, info = fc.replay_sys_script(p, c["toks"])
            ycases.append(c)
            yimpl.append(";".join(digs))
            ylines.append(sys_line(p, c["toks"]))
    else:
        SYS_CORPUS = [
            # two concurrent reads, guess 5 vs real 16: BadSegmentNumber retry and WrongSegment retry (Props/C46 exSys)
            ((1, 2, [], 32, 16, 5), ["R:0:20:8", "R:1:3:20", "l:0", "a:0.0.0.0", "l:0", "u", "l:0", "d:0", "l:1", "s:1:0:C",
                                     "l:1", "d:1", "l:2", "s:2:0:C", "l:2", "d:2", "d:3", "l:3", "s:3:0:C", "l:3", "d:4"]),
            # duplicate requests for one segment whose fetch fails, then another read (seeded C46-d at read level)
            ((2, 1, [], 16, 16, 16), ["R:0:0:16", "R:1:0:10", "l:0", "a:0.0.0.1", "l:0", "n", "l:0", "d:0", "d:1",
                                      "R:2:4:4", "l:1", "n", "l:1", "d:2"]),
            # decode failure, stop of a waiting read, pause / resume
            ((1, 2, [0], 32, 16, 16), ["R:0:0:32", "R:1:16:8", "l:0", "a:0.0.0.1", "l:0", "u", "s:0:0:C", "l:0", "P:1", "d:0",
                                       "d:1", "U:1", "T:1", "l:1", "s:1:0:C", "l:1", "X:1"]),
        ]
        for (p, toks) in SYS_CORPUS:
            digs, info = fc.replay_sys_script(p, toks)
            case = {"kind": "sys", "params": [p[0], p[1], list(p[2]), p[3], p[4], p[5]], "toks": toks}
            ycases.append(case)
            yimpl.append(";".join(digs))
            ylines.append(sys_line(p, toks))
            ctx.case(("Y", repr(p), tuple(toks)))
        for i in range(B(250, 8000)):
            p, toks, digs, info = fc.gen_sys_script(ctx.rng)
            case = {"kind": "sys", "params": [p[0], p[1], list(p[2]), p[3], p[4], p[5]], "toks": toks}
            ycases.append(case)
            yimpl.append(";".join(digs))
            ylines.append(sys_line(p, toks))
            ctx.case(("Y", repr(p), tuple(toks)) if len(toks) > 4 else None)
            for rid, r in info["reads"].items():
                ctx.count("sys-read:" + str(r["result"]))
                if info["quiescent"] and r["result"] is None and r["hungry"] and len(toks) < 220:
                    ctx.violation("composed system quiescent but read %d neither completed nor failed (unhandled: %s)"
                                  % (rid, info["unhandled"]), case, "read-stuck-composed-system",
                                  detail={"unhandled": info["unhandled"]})
                if r["result"] == "done" and info["written"][rid] != info["sizes"][rid]:
                    ctx.violation("read %d completed having written %d of %d bytes" % (rid, info["written"][rid], info["sizes"][rid]),
                                  case, "read-done-wrong-length")
    ymodel = ctx.model(ylines) if ylines else None
    if ymodel is not None:
        ctx.compare("composed system script (real DownloadNode.read / Segmentation / SegmentFetcher, fake shares): calls, "
                    "queue, active fetcher, retirements and every read's state after every event", ycases, yimpl, ymodel)
    # ---- composed system with the real ShareFinder (real DownloadNode + real ShareFinder + scripted servers)
    zcases, zimpl, zlines = [], [], []
    if ctx.replay:
        c = ctx.replay.get("case") or ((ctx.replay.get("correspondence_disagreements") or [{}])[0].get("case")) or {}
        if c.get("kind") == "sysf":
            p = tuple(c["params"])
            zcases.append(c)
            zimpl.append(";".join(fc.replay_sysf_script(p, c["toks"])))
            zlines.append(fc.sysf_line(p, c["toks"]))
    else:
        SYSF_CORPUS = [
            ((1, 1, [], 8, 8, 8, 2, [0]), ["R:0:0:8", "l:0", "FL", "FL", "FR:0:0", "FL", "M", "l:0", "u", "s:0:0:C", "l:0", "d:0"]),
            # every server fails / has nothing: the finder must announce no_more_shares and the read must fail, not hang
            ((1, 1, [], 8, 8, 8, 1, [3, 5]), ["R:0:0:8", "l:0", "FL", "FL", "FE:0", "FL", "FL", "FR:1:-", "FL", "M", "l:0", "d:0"]),
        ]
        for (p, toks) in SYSF_CORPUS:
            zcases.append({"kind": "sysf", "params": list(p), "toks": toks})
            zimpl.append(";".join(fc.replay_sysf_script(p, toks)))
            zlines.append(fc.sysf_line(p, toks))
            ctx.case(("Z", repr(p), tuple(toks)))
        for i in range(B(120, 4000)):
            p, toks, digs, info = fc.gen_sysf_script(ctx.rng)
            case = {"kind": "sysf", "params": list(p), "toks": toks}
            zcases.append(case)
            zimpl.append(";".join(digs))
            zlines.append(fc.sysf_line(p, toks))
            ctx.case(("Z", repr(p), tuple(toks)) if len(toks) > 4 else None)
            for rid, r in info["reads"].items():
                ctx.count("sysf-read:" + str(r["result"]))
                if info["quiescent"] and info["outstanding"] == 0 and r["result"] is None and r["hungry"] and len(toks) < 260:
                    ctx.violation("whole stack quiescent (no turn, no query in flight, no queued call, no block request "
                                  "outstanding) but read %d neither completed nor failed (unhandled: %s)"
                                  % (rid, info["unhandled"]), case, "read-stuck-composed-system-with-finder",
                                  detail={"unhandled": info["unhandled"]})
    zmodel = ctx.model(zlines) if zlines else None
    if zmodel is not None:
        ctx.compare("composed system with finder (real DownloadNode.read + SegmentFetcher + ShareFinder, scripted servers and "
                    "fake shares): sys digest + finder calls/state + queued got_shares/no_more_shares after every event",
                    zcases, zimpl, zmodel)
    smodel = ctx.model(slines) if slines else None
    if smodel is not None:
        ctx.compare("Segmentation script: calls (get_segment / write / cancel / callback / errback), _offset, _size, _alive, "
                    "_hungry, _active_segnum, queued turns, result after every event", scases, simpl, smodel)
    model = ctx.model(lines) if lines else None
    if model is not None:
        ctx.compare("DownloadNode script: calls, _segment_requests, _active_segment, retired requests and the active "
                    "fetcher's internals after every event", ncases, impl, model)
    if ncases:
        ctx.sample({"script": lines[0][:160], "impl": impl[0][:240]})
    for sc in scenarios:
        try:
            out = fc.run_scenario(sc)
        except Exception as e:                       # an exception escaping from one case must not end the run
            import traceback
            ctx.disagree("harness exception in one end-to-end scenario (recorded, run continues)", {"kind": "grid", "sc": sc},
                         traceback.format_exc()[-600:], None)
            ctx.count("scenario-exception:" + type(e).__name__)
            continue
        grid_monitor(ctx, sc, out)
        ctx.sample({"scenario": sc, "outcome": out.get("groups")}, limit=8)
    for sc in late:
        out = fc.run_late_error(sc)
        late_error_monitor(ctx, sc, out)
        ctx.sample({"late-error": sc, "outcome": {k: out.get(k) for k in ("result", "roles", "silent_death", "dead_get_block")}},
                   limit=9)
    for sc in lated:
        try:
            out = fc.run_late_dyhb(sc)
        except Exception as e:
            import traceback
            ctx.disagree("harness exception in one late-dyhb scenario (recorded, run continues)", {"kind": "late-dyhb", "sc": sc},
                         traceback.format_exc()[-600:], None)
            continue
        late_dyhb_monitor(ctx, sc, out)
    for k, v in fc.WAIT_STATS.items():
        ctx.count("wait:" + k, v)
